#!/usr/bin/env bash
# tools/run_quick_all.sh [JOBS]: every check's quick command on the unchanged tree, JOBS at a time; exit codes in
# quick_exits.txt, output in quick_C??.log (development aid; the evidence files are rewritten by the checks themselves)
J=${1:-3}
cd "$(dirname "$0")/.."
[ -x .venv/bin/python ] || ./setup.sh >/dev/null 2>&1
rm -f quick_exits.txt
printf '%s\n' 01 02 03 04 05 06 07 08 09 10 11 12 13 14 15 16 17 18 19 20 | xargs -P "$J" -I{} bash -c \
  's=$(date +%s); ./check C{} --tier quick > quick_C{}.log 2>&1; echo "C{} exit $? $(( $(date +%s) - s ))s" >> quick_exits.txt'
sort quick_exits.txt
