#!/usr/bin/env python3
"""tools/seed_matrix.py [SEED ...]: apply each stored seeded change to a scratch worktree of /repo HEAD, run the quick
check of its property (plus the extra checks named in EXTRA) from a snapshot copy of /verif with VERIF_REPO pointing at
that worktree, record exit code and VIOLATION lines.  /repo, /verif/evidence and /verif/replays are not touched.
Writes seeded/DETECTION.json and the `detection` field of each meta.json."""
import json, os, subprocess, sys, time

VERIF = os.path.dirname(os.path.dirname(os.path.abspath(__file__)))
EXTRA = {"C05-m8": ["C07"], "C04-m2": ["C19"], "C09-m5": ["C14"], "C01-m6": ["C06"], "C05-m7": ["C04"], "C09-m8": ["C14"], "C01-m8": ["C05"],
         "C01-m10": ["C05"], "C02-m9": ["C09"], "C09-m9": ["C15"], "C15-m10": ["C09"], "C19-m9": ["C04"],
         "C01-m11": ["C05"], "C02-m11": ["C18"], "C15-m12": ["C09"], "C17-m11": ["C02", "C09"], "C19-m11": ["C12", "C05"],
         "C19-m12": ["C04"], "C11-m12": ["C05"], "C16-m11": ["C12"], "C16-m12": ["C10"], "C12-m11": ["C05"],
         "C10-m12": ["C04"], "C09-m11": ["C10"], "C02-m12": ["C12"], "C11-m11": ["C10", "C02"], "C01-m12": ["C02", "C10"],
         "C02-m13": ["C18"], "C06-m13": ["C03"], "C19-m13": ["C03"], "C03-m13": ["C04"], "C04-m13": ["C05"],
         "C17-m13": ["C09", "C10", "C16"], "C09-m13": ["C10"], "C01-m13": ["C06", "C03"], "C11-m13": ["C10"], "C14-m13": ["C15"], "C08-m13": ["C12"], "C12-m13": ["C10", "C11"]}  # the same change is also (only) visible through another property's check


def sh(cmd, **kw):
    return subprocess.run(cmd, shell=True, capture_output=True, text=True, **kw)


def main():
    seeds = sys.argv[1:] or sorted(d for d in os.listdir(f"{VERIF}/seeded") if os.path.isdir(f"{VERIF}/seeded/{d}"))
    tag = os.getpid()
    wt, snap = f"/tmp/wt_matrix_{tag}", f"/tmp/vf_snap_{tag}"
    sh(f"flock /tmp/.verif_worktree.lock git -C /repo worktree add -q -f --detach {wt} HEAD")
    sh(f"rsync -a --exclude .git --exclude .venv --exclude evidence --exclude replays --exclude __pycache__ {VERIF}/ {snap}/")
    os.symlink(f"{VERIF}/.venv", f"{snap}/.venv")
    head = sh("git -C /repo rev-parse --short HEAD").stdout.strip()
    out = {}
    if os.path.exists(f"{VERIF}/seeded/DETECTION.json") and not os.environ.get("MATRIX_OUT"):
        out = json.load(open(f"{VERIF}/seeded/DETECTION.json"))
    try:
        for s in seeds:
            d = f"{VERIF}/seeded/{s}"
            meta = json.load(open(f"{d}/meta.json"))
            prop = s.split("-")[0]
            ap = sh(f"git -C {wt} apply {d}/patch.diff")
            rec = {"applies": ap.returncode == 0, "checks": {}, "repo_head": head}
            try:
                if ap.returncode == 0:
                    for p in [prop] + EXTRA.get(s, []):
                        t0 = time.time()
                        r = sh(f"./check {p} --tier quick", cwd=snap, env={**os.environ, "VERIF_REPO": wt})
                        vio = [ln for ln in r.stdout.splitlines() if ln.startswith("VIOLATION")]
                        names = []
                        for v in vio[:3]:
                            rp = v.split("replay=")[1].split()[0]
                            try:
                                j = json.load(open(rp if rp.startswith("/") else f"{snap}/{rp}"))
                                names.append(str(j.get("obligation") or j.get("check"))[:120])
                            except Exception as e:  # noqa: BLE001
                                names.append(f"?{type(e).__name__}")
                        rec["checks"][p] = {"exit": r.returncode, "violations": len(vio), "first_obligations": names,
                                            "no_failing_input_found": sum(v.endswith("no-failing-input-found") for v in vio),
                                            "wall_s": round(time.time() - t0, 1)}
            finally:
                sh(f"git -C {wt} checkout -- .")
            rec["detected"] = any(c["exit"] == 1 and c["violations"] > 0 for c in rec["checks"].values())
            out[s] = rec
            alt = os.environ.get("MATRIX_OUT")  # a robustness run (e.g. another VERIF_SEED): results go elsewhere
            if alt:
                json.dump(out, open(alt, "w"), indent=1, sort_keys=True)
            else:
                meta["detection"] = rec
                json.dump(meta, open(f"{d}/meta.json", "w"), indent=1)
                json.dump(out, open(f"{VERIF}/seeded/DETECTION.json", "w"), indent=1, sort_keys=True)
            print(s, rec["detected"], {p: (c["exit"], c["violations"]) for p, c in rec["checks"].items()}, flush=True)
    finally:
        sh(f"flock /tmp/.verif_worktree.lock git -C /repo worktree remove --force {wt}")
        sh(f"rm -rf {snap}")


main()
