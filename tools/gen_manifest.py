#!/usr/bin/env python3
"""Regenerate MANIFEST.json from the props/ modules (run with /verif/.venv/bin/python)."""
import importlib, json, os, sys
sys.path.insert(0, os.path.dirname(os.path.dirname(os.path.abspath(__file__))))
from vf.common import setup_env
setup_env()
ALL = [f"C{i:02d}" for i in range(1, 21)]
NA_REASON = json.load(open(os.path.join(os.path.dirname(__file__), "not_applicable.json")))
checks, na = [], []
for pid in ALL:
    path = os.path.join(os.path.dirname(__file__), "..", "props", f"{pid}.py")
    if not os.path.exists(path):
        na.append({"property_id": pid, "reason": NA_REASON.get(pid, "no sound contract-based check has been built for this property yet")})
        continue
    m = importlib.import_module(f"props.{pid}")
    checks.append({
        "property_id": pid,
        "quick_cmd": f"./check {pid} --tier quick",
        "thorough_cmd": f"./check {pid} --tier thorough",
        "evidence_file": f"evidence/{pid}.json",
        "replay_cmd_template": f"./check {pid} --replay {{path}}",
        "engine": "pyvc+rtc",
        "level_claimed": {"category": m.LEVEL, "text": m.LEVEL_TEXT, "design_ref": f"DESIGN.md section 4 ({pid})"},
        "level_note": m.LEVEL_NOTE,
        "technique": m.TECHNIQUE,
    })
man = {
    "version": 1,
    "setup_cmd": "./setup.sh",
    "hooks": {"guard": "PIPEFUNC_VERIF", "enable": "no hooks are compiled into /repo: contracts are sidecars under /verif/contracts and runtime wrappers are installed by the check process; the guard variable is exported by ./check but nothing in /repo reads it",
              "baseline_off_cmd": "cd /repo && /venv/bin/python -m pytest -ra -q -p no:cacheprovider --timeout=900 --continue-on-collection-errors",
              "source_commits": [], "add_only": True},
    "engines": [
        {"name": "pyvc", "path": "pyvc/", "serves_properties": [c["property_id"] for c in checks],
         "kind_free_text": "own verification-condition generator: symbolic execution of the ast of the real functions in /repo against sidecar contracts (pre/post, raises-iff, loop invariants, callee contracts), discharged by z3 5.1 and cvc5; lemma library proved by induction each run"},
        {"name": "rtc", "path": "vf/ rtc/", "serves_properties": [c["property_id"] for c in checks],
         "kind_free_text": "bounded rung: the same contracts (CONC interpretation) and statement-level contracts evaluated on the real code over enumerated small scopes; labelled bounded, never counted as proved"},
    ],
    "checks": checks,
    "not_applicable": na,
    "notes": "Exit codes: 0 held / 1 VIOLATION (replayed input, or exact refuted obligation with no-failing-input-found) / 3 checker error. PROOF-LOST lines are informational: an undischarged obligation is decided by the bounded rung.",
}
json.dump(man, open(os.path.join(os.path.dirname(__file__), "..", "MANIFEST.json"), "w"), indent=1)
import jsonschema
jsonschema.validate(man, json.load(open("/root/.vp/MANIFEST.schema.json")))
print("MANIFEST ok:", [c["property_id"] for c in checks], "n/a:", [n["property_id"] for n in na])
