#!/usr/bin/env bash
# tools/run_thorough_all.sh [JOBS]: every check's thorough command on the unchanged tree, JOBS at a time; exit codes in
# thorough_exits.txt, output in thorough_C??.log (development aid: shows that the thorough tier is green and how long it takes)
J=${1:-3}
cd "$(dirname "$0")/.."
[ -x .venv/bin/python ] || ./setup.sh >/dev/null 2>&1
rm -f thorough_exits.txt
printf '%s\n' 01 02 03 04 05 06 07 08 09 10 11 12 13 14 15 16 17 18 19 20 | xargs -P "$J" -I{} bash -c \
  's=$(date +%s); ./check C{} --tier thorough > thorough_C{}.log 2>&1; echo "C{} exit $? $(( $(date +%s) - s ))s" >> thorough_exits.txt'
sort thorough_exits.txt
