#!/usr/bin/env python
"""tools/try_item.py CXX NAME [tier]: bounded evaluation + proof of one function under contract (development aid)."""
import importlib, json, os, sys
sys.path.insert(0, os.path.dirname(os.path.dirname(os.path.abspath(__file__))))
from vf.common import setup_env
setup_env()
from vf import driver

pid, name = sys.argv[1], sys.argv[2]
tier = sys.argv[3] if len(sys.argv) > 3 else "quick"
mod = importlib.import_module(f"props.{pid}")
for i, it in enumerate(mod.proof_items()):
    if name in it.contract.name:
        out = driver._proof_worker((f"props.{pid}", i, tier, 0))
        if "error" in out:
            print("ERROR", out["error"]); continue
        p, b = out["proof"], out["bounded"]
        print(it.contract.name, "| proof:", p["rung"], p["discharged"], "/", p["obligations"], p.get("reason"), f"{p.get('solver_s', 0):.2f}s",
              "| bounded:", b["evaluations"], "returned", b["returned"], "raised", b["raised"], "failures", len(b["failures"]),
              "contract_errors", b["n_contract_errors"])
        for f in b["failures"][:3]:
            print("   FAIL", f["failures"], f["args"], "->", f["outcome"], str(f["observed"])[:100])
        for e in b.get("contract_errors", [])[:2]:
            print("   CERR", e)
        for r in (p.get("refuted", []) + p.get("unknown", []))[:6]:
            print("   ", r["status"], r["name"], "line", r["line"], (r.get("reason") or "")[:80], "replay:", str(r.get("replay"))[:200])
