#!/usr/bin/env python
"""tools/prove_all.py [NAME...]: proof rung only, for every function under contract (no evidence written)."""
import importlib, os, sys, time
sys.path.insert(0, os.path.dirname(os.path.dirname(os.path.abspath(__file__))))
from vf.common import setup_env
setup_env()
from vf import proof
from concurrent.futures import ProcessPoolExecutor
import multiprocessing as mp


def work(job):
    k, idx = job
    m = importlib.import_module(f"props.C{k:02d}")
    it = m.proof_items()[idx]
    r = proof.prove_contract(it.contract, it.registry() if it.registry else m.registry(), "quick", it.call)
    bad = [(x["name"], x["line"], x["status"], (x.get("reason") or "")[:60]) for x in r["refuted"] + r["unknown"]]
    return (f"C{k:02d}", it.contract.name, r["rung"], r["discharged"], r["obligations"], r["solver_s"], r.get("reason"), bad)


def main():
    only = sys.argv[1:]
    jobs, seen = [], set()
    for k in range(1, 21):
        m = importlib.import_module(f"props.C{k:02d}")
        for idx, it in enumerate(m.proof_items()):
            if it.bounded_only or it.contract.qualname in seen or (only and not any(o in it.contract.name for o in only)):
                continue
            seen.add(it.contract.qualname)
            jobs.append((k, idx))
    ok = True
    with ProcessPoolExecutor(16, mp_context=mp.get_context("fork")) as ex:
        for r in ex.map(work, jobs):
            print(*r[:7])
            for b in r[7][:6]:
                print("     ", b)
            ok &= r[2] == "proved"
    print("ALL PROVED" if ok else "SOME NOT PROVED")


main()
