#!/usr/bin/env python
"""tools/update_proof_baseline.py: record, for every function under a proved contract, the sha256 of its current source and
the names of the obligations discharged (proof_baseline.json, committed).  Run on the unchanged /repo only.  A check
uses it to tell "an obligation that was discharged for the committed source is now refuted" (reported as a violation
with the suffix no-failing-input-found when no failing input is found either) from solver noise on unchanged code."""
import importlib, json, os, sys
from concurrent.futures import ProcessPoolExecutor
import multiprocessing as mp
sys.path.insert(0, os.path.dirname(os.path.dirname(os.path.abspath(__file__))))
from vf.common import VERIF, setup_env
setup_env()
from vf import proof


def work(job):
    k, idx = job
    m = importlib.import_module(f"props.C{k:02d}")
    it = m.proof_items()[idx]
    r = proof.prove_contract(it.contract, it.registry() if it.registry else m.registry(), "quick", it.call)
    return it.contract.qualname, r["rung"], (r.get("info") or {}).get("sha256"), sorted({x["name"] for x in r["results"] if x["status"] == "proved"})


def main():
    jobs, seen = [], set()
    for k in range(1, 21):
        m = importlib.import_module(f"props.C{k:02d}")
        for idx, it in enumerate(m.proof_items()):
            if it.bounded_only or it.contract.trusted or it.contract.qualname in seen:
                continue
            seen.add(it.contract.qualname)
            jobs.append((k, idx))
    out = {}
    with ProcessPoolExecutor(16, mp_context=mp.get_context("fork")) as ex:
        for qn, rung, sha, proved in ex.map(work, jobs):
            if rung != "proved":
                print("NOT PROVED, not recorded:", qn, rung)
                continue
            out[qn] = {"sha256": sha, "proved": proved}
    with open(os.path.join(VERIF, "proof_baseline.json"), "w") as fh:
        json.dump(out, fh, indent=1, sort_keys=True)
    print(f"{len(out)} functions recorded")


main()
