#!/usr/bin/env python3
"""tools/confirm_wave.py SRCROOT K [K ...] [--props C01 C02 ...] [--jobs N]
Confirm delivered seeded changes SRCROOT/out_<P>/m<K>/{patch.diff,demo.py,notes.md} for every property, each in its own
fresh scratch worktree of /repo HEAD (unique path, worktree bookkeeping serialised with flock), and store the confirmed
ones under /verif/seeded/<P>-m<K>/.  A change is kept only if: the patch applies, demo exits 0 clean and 1 patched,
and the pinned test command passes the same 492 tests with the patch."""
import json, os, shutil, subprocess, sys
from concurrent.futures import ThreadPoolExecutor

VERIF = os.path.dirname(os.path.dirname(os.path.abspath(__file__)))
LOCK = "/tmp/.verif_worktree.lock"


def sh(cmd, **kw):
    return subprocess.run(cmd, shell=True, capture_output=True, text=True, **kw)


def confirm(job):
    root, P, K = job
    src = f"{root}/out_{P}/m{K}"
    dst = f"{VERIF}/seeded/{P}-m{K}"
    if not all(os.path.exists(f"{src}/{f}") for f in ("patch.diff", "demo.py")):
        return P, K, "missing files"
    if os.path.exists(f"{dst}/meta.json"):
        return P, K, "already confirmed"
    wt = f"/tmp/cw_{P}_m{K}_{os.getpid()}"
    sh(f"rm -rf {wt}")
    r = sh(f"flock {LOCK} git -C /repo worktree add -q -f --detach {wt} HEAD")
    if r.returncode:
        return P, K, "worktree add failed: " + r.stderr[:200]
    try:
        env = {**os.environ, "PYTHONPATH": wt}
        env.pop("PIPEFUNC_VERIF", None)
        os.makedirs(f"{wt}/_seed", exist_ok=True)
        shutil.copy(f"{src}/demo.py", f"{wt}/_seed/demo.py")
        clean = sh("/venv/bin/python _seed/demo.py", cwd=wt, env=env).returncode
        applies = sh(f"git apply --check {src}/patch.diff", cwd=wt).returncode == 0
        mut, tests = None, "skipped"
        if applies:
            sh(f"git apply {src}/patch.diff", cwd=wt)
            mut = sh("/venv/bin/python _seed/demo.py", cwd=wt, env=env).returncode
            if clean == 0 and mut == 1:
                t = sh(f"python3 {VERIF}/tools/baseline_check.py {wt}")
                tests = "same-492-pass" if t.returncode == 0 else "DIFFERENT: " + " ".join((t.stdout + t.stderr).split()[:30])
        head = sh("git -C /repo rev-parse --short HEAD").stdout.strip()
        notes = open(f"{src}/notes.md").read() if os.path.exists(f"{src}/notes.md") else ""
        meta = {"property": P, "seed": f"{P}-m{K}",
                "origin": "independent sub-agent given only the property text and a scratch worktree",
                "confirmed_on_repo_head": head, "patch_applies": applies, "demo_exit_clean": clean,
                "demo_exit_with_patch": mut, "existing_tests_with_patch": tests,
                "what_i_ran": ["git worktree add (scratch, outside /repo and /verif)", "demo.py on the clean checkout",
                               "git apply patch.diff", "demo.py with the patch",
                               "tools/baseline_check.py <worktree> (pinned pytest command, compared with BASELINE.json stable_pass)"],
                "needs_to_manifest": notes[:1500]}
        ok = applies and clean == 0 and mut == 1 and tests == "same-492-pass"
        if ok:
            os.makedirs(dst, exist_ok=True)
            for f in ("patch.diff", "demo.py", "notes.md"):
                if os.path.exists(f"{src}/{f}"):
                    shutil.copy(f"{src}/{f}", f"{dst}/{f}")
            json.dump(meta, open(f"{dst}/meta.json", "w"), indent=1)
        return P, K, "CONFIRMED" if ok else f"REJECTED applies={applies} clean={clean} mut={mut} tests={tests[:150]}"
    finally:
        sh(f"flock {LOCK} git -C /repo worktree remove --force {wt}")
        sh(f"rm -rf {wt}")


def main():
    args = sys.argv[1:]
    root = args.pop(0)
    jobs, props, ks = 4, [f"C{i:02d}" for i in range(1, 21)], []
    while args:
        a = args.pop(0)
        if a == "--jobs":
            jobs = int(args.pop(0))
        elif a == "--props":
            props = []
            while args and not args[0].startswith("--"):
                props.append(args.pop(0))
        else:
            ks.append(a)
    work = [(root, P, K) for P in props for K in ks]
    with ThreadPoolExecutor(jobs) as ex:
        for P, K, msg in ex.map(confirm, work):
            print(P, f"m{K}", msg, flush=True)


main()
