#!/usr/bin/env python3
"""tools/status_table.py: regenerate the generated part of DESIGN.md (between the AS-BUILT markers) from
evidence/*.json, known_findings.jsonl and seeded/DETECTION.json.  Nothing here decides anything; it only reports."""
import glob
import json
import os
import re

VERIF = os.path.dirname(os.path.dirname(os.path.abspath(__file__)))
BEGIN, END = "<!-- BEGIN GENERATED STATUS -->", "<!-- END GENERATED STATUS -->"


def main():
    out = []
    out.append("### Per property (from the evidence files of the last committed quick run)\n")
    out.append("| id | level | proved functions (obligations) | assumed / bounded-only contracts | bounded checks (evaluations) | findings |")
    out.append("|---|---|---|---|---|---|")
    kf = [json.loads(ln) for ln in open(f"{VERIF}/known_findings.jsonl") if ln.strip()]
    for path in sorted(glob.glob(f"{VERIF}/evidence/C*.json")):
        e = json.load(open(path))
        pid = e["property_id"]
        cov = e["coverage"]
        proved, other = [], []
        for f in cov.get("functions_under_contract", []):
            nm = f["qualname"].split("::")[1]
            if f["rung"] == "proved":
                proved.append(f"`{nm}` ({f['discharged']})")
            else:
                other.append(f"`{nm}` ({f['rung']})")
        checks = []
        for b in cov.get("bounded_checks", []):
            checks.append(f"{b.get('check') or b.get('name')} ({b['evaluations']})")
        fixed = [k["id"] for k in kf if k["property"] == pid and k["status"] == "fixed"]
        known = [k["id"] for k in kf if k["property"] == pid and k["status"] == "known"]
        fnd = ("fixed: " + ", ".join(fixed) if fixed else "") + ("; " if fixed and known else "") + \
              ("known: " + ", ".join(known) if known else "")
        out.append(f"| {pid} | {e['level']} | {', '.join(proved) or '-'} | {', '.join(other) or '-'} | "
                   f"{', '.join(checks) or '-'} | {fnd or '-'} |")
    out.append("")
    out.append("### Findings (known_findings.jsonl)\n")
    out.append("| id | property | status | commit / matcher | what failed |")
    out.append("|---|---|---|---|---|")
    for k in kf:
        out.append(f"| {k['id']} | {k['property']} | {k['status']} | {k.get('commit') or k.get('matcher', '')} | "
                   f"{k['what'][:260].replace('|', '/')} |")
    out.append("")
    det_path = f"{VERIF}/seeded/DETECTION.json"
    if os.path.exists(det_path):
        det = json.load(open(det_path))
        out.append("### Seeded changes (seeded/<id>/; each confirmed in a scratch worktree: demo exits 1 with the patch, "
                   "0 without; the 492 baseline tests still pass)\n")
        out.append("| seed | file(s) | detected by (exit, VIOLATION lines, first failing obligation / check) |")
        out.append("|---|---|---|")
        for s in sorted(det):
            d = det[s]
            try:
                patch = open(f"{VERIF}/seeded/{s}/patch.diff").read()
                files = sorted(set(re.findall(r"^\+\+\+ b/(\S+)", patch, re.M)))
            except OSError:
                files = []
            meta = json.load(open(f"{VERIF}/seeded/{s}/meta.json"))
            if str(meta.get("status_after_repairs", "")).startswith("neutralised"):
                res = "neutralised by a later fix: commit (see meta.json)"
            elif str(meta.get("status_after_repairs", "")).startswith("reclassified"):
                res = "reclassified: outside the statements (see meta.json and Corrections)"
            elif not d.get("applies"):
                res = "patch no longer applies"
            else:
                res = "; ".join(f"{p}: exit {c['exit']}, {c['violations']} ({(c['first_obligations'] or ['-'])[0][:60]})"
                                for p, c in d["checks"].items())
            out.append(f"| {s} | {', '.join(f.replace('pipefunc/', '') for f in files)} | {res} |")
        out.append("")
    text = "\n".join(out)
    p = f"{VERIF}/DESIGN.md"
    s = open(p).read()
    if BEGIN in s:
        s = s[:s.index(BEGIN) + len(BEGIN)] + "\n" + text + "\n" + s[s.index(END):]
    else:
        raise SystemExit("markers not found in DESIGN.md")
    open(p, "w").write(s)
    print("DESIGN.md status tables regenerated")


main()
