#!/usr/bin/env python3
"""tools/merge_detection.py FILE...: merge the results of seed_matrix runs that were written elsewhere (MATRIX_OUT, used to
run several groups of seeds side by side) into seeded/DETECTION.json and the `detection` field of each meta.json.  Later
files win; for one seed the records of several files are combined check by check."""
import json, os, sys
VERIF = os.path.dirname(os.path.dirname(os.path.abspath(__file__)))
det_path = f"{VERIF}/seeded/DETECTION.json"
det = json.load(open(det_path)) if os.path.exists(det_path) else {}
for f in sys.argv[1:]:
    for seed, rec in json.load(open(f)).items():
        old = det.get(seed)
        if old and old.get("repo_head") == rec.get("repo_head") and old.get("applies") and rec.get("applies"):
            checks = {**old["checks"], **rec["checks"]}
            rec = {**rec, "checks": checks}
        rec["detected"] = any(c["exit"] == 1 and c["violations"] > 0 for c in rec["checks"].values())
        det[seed] = rec
        mp = f"{VERIF}/seeded/{seed}/meta.json"
        if os.path.exists(mp):
            meta = json.load(open(mp))
            meta["detection"] = rec
            json.dump(meta, open(mp, "w"), indent=1)
json.dump(det, open(det_path, "w"), indent=1, sort_keys=True)
print(len(det), "seeds;", sum(1 for r in det.values() if not r["detected"]), "not detected:", sorted(s for s, r in det.items() if not r["detected"]))
