#!/usr/bin/env bash
# tools/confirm_seed.sh <PROP> <K> <srcdir>  : confirm a seeded change in a fresh scratch worktree of /repo HEAD and
# store it under /verif/seeded/<PROP>-m<K>/ (patch.diff, demo.py, notes.md, meta.json).  The worktree is removed.
set -u
P=$1; K=$2; SRC=$3
WT=/tmp/confirm_${P}_m${K}
DST=/verif/seeded/${P}-m${K}
rm -rf "$WT"
# (worktree bookkeeping of /repo is serialised: several confirmations may run side by side)
flock /tmp/.verif_worktree.lock git -C /repo worktree add -q -f --detach "$WT" HEAD || exit 2
mkdir -p "$DST"; cp "$SRC/patch.diff" "$SRC/demo.py" "$DST/"; [ -f "$SRC/notes.md" ] && cp "$SRC/notes.md" "$DST/"
cd "$WT"; export PYTHONPATH="$WT"
mkdir -p _seed && cp "$SRC/demo.py" _seed/demo.py
/venv/bin/python _seed/demo.py > /tmp/confirm_${P}_${K}_clean.txt 2>&1; CLEAN=$?
if git apply --check "$DST/patch.diff" 2>/dev/null; then APPLIES=true; git apply "$DST/patch.diff"; else APPLIES=false; fi
/venv/bin/python _seed/demo.py > /tmp/confirm_${P}_${K}_mut.txt 2>&1; MUT=$?
TESTS="skipped"
if [ "$APPLIES" = true ] && [ "${SKIP_TESTS:-0}" != 1 ]; then
  python3 /verif/tools/baseline_check.py "$WT" > /tmp/confirm_${P}_${K}_tests.txt 2>&1 && TESTS="same-492-pass" || TESTS="DIFFERENT: $(head -3 /tmp/confirm_${P}_${K}_tests.txt | tr '\n' ' ')"
fi
HEADSHA=$(git -C /repo rev-parse --short HEAD)
python3 - "$P" "$K" "$CLEAN" "$MUT" "$APPLIES" "$TESTS" "$HEADSHA" "$DST" <<'PY'
import json, sys, os
P, K, clean, mut, applies, tests, head, dst = sys.argv[1:]
notes = open(os.path.join(dst, "notes.md")).read() if os.path.exists(os.path.join(dst, "notes.md")) else ""
meta = {"property": P, "seed": f"{P}-m{K}", "origin": "independent sub-agent given only the property text and a scratch worktree",
        "confirmed_on_repo_head": head, "patch_applies": applies == "true",
        "demo_exit_clean": int(clean), "demo_exit_with_patch": int(mut), "existing_tests_with_patch": tests,
        "what_i_ran": ["git worktree add (scratch, outside /repo and /verif)", "demo.py on the clean checkout", "git apply patch.diff", "demo.py with the patch",
                       "tools/baseline_check.py <worktree> (pinned pytest command, compared with BASELINE.json stable_pass)"],
        "needs_to_manifest": notes[:1500]}
json.dump(meta, open(os.path.join(dst, "meta.json"), "w"), indent=1)
print(json.dumps({k: meta[k] for k in ("seed", "patch_applies", "demo_exit_clean", "demo_exit_with_patch", "existing_tests_with_patch")}))
PY
cd /; flock /tmp/.verif_worktree.lock git -C /repo worktree remove --force "$WT"; rm -f /tmp/confirm_${P}_${K}_*.txt
