#!/usr/bin/env python3
"""Run the repository's pinned test command (guard OFF) and compare with /root/.vp/BASELINE.json stable_pass."""
import json, os, subprocess, sys, tempfile
import xml.etree.ElementTree as ET

repo = sys.argv[1] if len(sys.argv) > 1 else "/repo"
base = json.load(open("/root/.vp/BASELINE.json"))
out = tempfile.mktemp(suffix=".xml")
env = dict(os.environ)
env.pop("PIPEFUNC_VERIF", None)
subprocess.run(["/venv/bin/python", "-m", "pytest", "-ra", "-q", "-p", "no:cacheprovider", "--timeout=900",
                "--continue-on-collection-errors", f"--junitxml={out}"], cwd=repo, env=env,
               stdout=subprocess.DEVNULL, stderr=subprocess.DEVNULL)
passed = set()
for tc in ET.parse(out).getroot().iter("testcase"):
    if not any(ch.tag in ("failure", "error", "skipped") for ch in tc):
        passed.add(f"{tc.get('classname')}::{tc.get('name')}")
os.unlink(out)
want = set(base["stable_pass"])
missing = sorted(want - passed)
print(f"passed={len(passed)} baseline={len(want)} missing={len(missing)}")
for m in missing[:20]:
    print("  MISSING", m)
sys.exit(1 if missing else 0)
