#!/usr/bin/env python
"""Self-test of the proof rung: mutants of the *real text* of every function under a proved contract must lose an
obligation.

For each proved (non-trusted, non-bounded-only) contract the FunctionDef is read from /repo's working tree, one AST
mutation is applied in memory (nothing is written to /repo) and the VCs are regenerated and discharged in hurry mode.
  killed-by-proof      some obligation is refuted / unknown / the engine refuses the mutant (proof lost: in a real
                       run the bounded rung and the replay then decide)
  survived             every obligation is still proved.  The mutant is then compiled into the real module and
                       compared with the original function on the contract's bounded domain:
      UNSOUND-...                      the contract fails when the mutant is run: the engine proved something false
      equivalent-within-bounds         same outcome everywhere (an equivalent mutant, or one outside the bounded scope)
      survived-satisfies-the-contract  behaviour differs, the contract still holds when run: an implementation the
                                       property also allows (e.g. which of two equal durations is kept)
      survived-outside-the-property    differs only in a part of the result the property does not speak about.
Usage: tools/mutation_selftest.py [--only NAME ...] [--max N] [--jobs J]   -> selftest/mutation_report.json
"""
from __future__ import annotations

import ast
import copy
import json
import os
import sys
import time
from concurrent.futures import ProcessPoolExecutor
import multiprocessing as mp

HERE = os.path.dirname(os.path.dirname(os.path.abspath(__file__)))
sys.path.insert(0, HERE)
from vf.common import REPO, setup_env  # noqa: E402

setup_env()

CMP = {ast.Lt: ast.LtE, ast.LtE: ast.Lt, ast.Gt: ast.GtE, ast.GtE: ast.Gt, ast.Eq: ast.NotEq, ast.NotEq: ast.Eq,
       ast.In: ast.NotIn, ast.NotIn: ast.In, ast.Is: ast.IsNot, ast.IsNot: ast.Is}
BIN = {ast.Add: ast.Sub, ast.Sub: ast.Add, ast.Mult: ast.FloorDiv, ast.FloorDiv: ast.Mult, ast.Mod: ast.FloorDiv}
CALLS = {"any": "all", "all": "any", "min": "max", "max": "min"}
# statements whose effect the property does not speak about (a contract clause there would be an over-demand)
OUT_OF_SCOPE = {"Resources.combine_max": (("partition", "extra_args"),
                                          "C20 constrains the quantities cpus, gpus, memory, time of combine_max; which "
                                          "partition / extra_args win is not part of the statement")}


def mutants(fn: ast.FunctionDef):
    """Yield (description, mutated FunctionDef)."""
    sites = []
    for node in ast.walk(fn):
        if isinstance(node, ast.Compare):
            for i, op in enumerate(node.ops):
                if type(op) in CMP:
                    sites.append(("cmp", node, i))
        elif isinstance(node, ast.BinOp) and type(node.op) in BIN:
            sites.append(("bin", node, None))
        elif isinstance(node, ast.BoolOp):
            sites.append(("boolop", node, None))
        elif isinstance(node, ast.UnaryOp) and isinstance(node.op, ast.Not):
            sites.append(("not", node, None))
        elif isinstance(node, ast.Constant) and isinstance(node.value, bool):
            sites.append(("bool", node, None))
        elif isinstance(node, ast.Constant) and isinstance(node.value, int) and not isinstance(node.value, bool):
            sites.append(("int+", node, None))
            sites.append(("int-", node, None))
        elif isinstance(node, (ast.If, ast.IfExp, ast.While)):
            sites.append(("negate", node, None))
        elif isinstance(node, ast.Call) and isinstance(node.func, ast.Name) and node.func.id in CALLS:
            sites.append(("call", node, None))
        elif isinstance(node, ast.Call) and len(node.args) == 2 and not node.keywords and \
                not any(isinstance(a, ast.Starred) for a in node.args):
            sites.append(("swapargs", node, None))
        elif isinstance(node, ast.Return) and isinstance(node.value, ast.Tuple) and len(node.value.elts) == 2:
            sites.append(("swapret", node, None))
        elif isinstance(node, ast.Continue):
            sites.append(("continue->pass", node, None))
        elif isinstance(node, ast.Break):
            sites.append(("break->continue", node, None))
        if isinstance(node, (ast.Expr, ast.AugAssign, ast.Delete)) and not (
                isinstance(node, ast.Expr) and isinstance(node.value, ast.Constant)):
            sites.append(("drop", node, None))
        elif isinstance(node, ast.Assign) and any(isinstance(t, (ast.Subscript, ast.Attribute)) for t in node.targets):
            sites.append(("drop", node, None))
    # identify sites by their position in ast.walk order so that they can be re-found in a deep copy
    order = {id(n): k for k, n in enumerate(ast.walk(fn))}
    for kind, node, i in sites:
        cp = copy.deepcopy(fn)
        tgt = list(ast.walk(cp))[order[id(node)]]
        line = getattr(node, "lineno", 0)
        try:
            before = ast.unparse(node)[:70]
        except Exception:  # noqa: BLE001
            before = "?"
        if kind == "cmp":
            tgt.ops[i] = CMP[type(tgt.ops[i])]()
        elif kind == "bin":
            tgt.op = BIN[type(tgt.op)]()
        elif kind == "boolop":
            tgt.op = ast.Or() if isinstance(tgt.op, ast.And) else ast.And()
        elif kind == "not":
            _replace(cp, tgt, tgt.operand)
        elif kind == "bool":
            tgt.value = not tgt.value
        elif kind == "int+":
            tgt.value += 1
        elif kind == "int-":
            tgt.value -= 1
        elif kind == "negate":
            tgt.test = ast.UnaryOp(ast.Not(), tgt.test)
        elif kind == "call":
            tgt.func.id = CALLS[tgt.func.id]
        elif kind == "swapargs":
            tgt.args = tgt.args[::-1]
        elif kind == "swapret":
            tgt.value.elts = tgt.value.elts[::-1]
        elif kind == "continue->pass":
            _replace(cp, tgt, ast.Pass())
        elif kind == "break->continue":
            _replace(cp, tgt, ast.Continue())
        elif kind == "drop":
            _replace(cp, tgt, ast.Pass())
        ast.fix_missing_locations(cp)
        try:
            after = ast.unparse(tgt)[:70] if kind not in ("not", "drop", "continue->pass", "break->continue") else kind
        except Exception:  # noqa: BLE001
            after = kind
        yield f"L{line} {kind}: {before}  =>  {after}", cp


def _replace(root, old, new):
    for parent in ast.walk(root):
        for f, v in ast.iter_fields(parent):
            if v is old:
                setattr(parent, f, ast.copy_location(new, old))
                return
            if isinstance(v, list):
                for k, x in enumerate(v):
                    if x is old:
                        v[k] = ast.copy_location(new, old)
                        return


def collect():
    import importlib
    out = {}
    for k in range(1, 21):
        m = importlib.import_module(f"props.C{k:02d}")
        for it in m.proof_items():
            c = it.contract
            if it.bounded_only or c.trusted:
                continue
            out.setdefault(c.qualname, (f"C{k:02d}", it))
    return out


def _compile_mutant(c, node):
    import importlib
    path = c.qualname.split("::")[0]
    mod = importlib.import_module(path[:-3].replace("/", "."))
    nd = copy.deepcopy(node)
    nd.decorator_list = []
    # compiled into the *live* namespace of the module under another name: stand-ins that a bounded-rung adaptor puts
    # into the module (patched callees) are seen by the mutant exactly as by the original
    nd.name = f"__mutant_of_{nd.name}"
    m = ast.Module([nd], [])
    ast.fix_missing_locations(m)
    exec(compile(m, "<mutant>", "exec"), mod.__dict__)  # noqa: S102
    return mod.__dict__.pop(nd.name)


def work(job):
    prop, qualname, desc, k = job
    import importlib
    from pyvc import engine
    from vf import proof
    m = importlib.import_module(f"props.{prop}")
    it = next(i for i in m.proof_items() if i.contract.qualname == qualname)
    reg = it.registry() if it.registry else m.registry()
    c = it.contract
    node, _ = engine.extract_function(REPO, qualname)
    desc2, mut = list(mutants(node))[k]
    assert desc2 == desc
    engine.OVERRIDES[qualname] = mut
    t0 = time.time()
    try:
        rep = proof.prove_contract(c, reg, "quick", it.call, hurry=True)
    finally:
        engine.OVERRIDES.pop(qualname, None)
    out = {"function": c.name, "property": prop, "mutant": desc, "rung": rep["rung"],
           "obligations": rep["obligations"], "discharged": rep["discharged"], "s": round(time.time() - t0, 2)}
    if rep["rung"] != "proved":
        out["verdict"] = "killed-by-proof" if rep["rung"] in ("proof-incomplete",) else f"killed-{rep['rung']}"
        lost = rep["refuted"] + rep["unknown"]
        out["lost"] = sorted({x["name"] for x in lost})[:4]
        out["refuted"] = len(rep["refuted"])
        if rep["rung"] == "unsupported":
            out["reason"] = rep.get("reason", "")[:160]
        return out
    # survived the proof: is the mutant observably different from the real function inside the bounded scope?
    try:
        fn_m = _compile_mutant(c, mut)
        fn_o, _ = proof.resolve_real(c)
        diff = _differs(c, it, fn_o, fn_m)
    except Exception as e:  # noqa: BLE001
        out["verdict"] = "survived-uncomparable"
        out["reason"] = f"{type(e).__name__}: {e}"[:200]
        return out
    # soundness cross-check: a mutant whose obligations are all proved must satisfy the contract when it is run
    b = proof.bounded_contract(c, "quick", 1, it.gen, it.call, it.bounds, fn=fn_m)
    out["contract_evaluations_on_mutant"] = b["evaluations"]
    if b["failures"]:
        out["verdict"] = "UNSOUND-proved-but-contract-fails-when-run"
        out["witness"] = {"args": repr(b["failures"][0]["args"])[:300], "failures": b["failures"][0]["failures"]}
        return out
    if diff is None:
        out["verdict"] = "equivalent-within-bounds"
    else:
        out["verdict"] = "survived-satisfies-the-contract"  # a different implementation the property also allows
        out["witness"] = diff
        words, why = OUT_OF_SCOPE.get(c.name, ((), ""))
        if any(w in desc for w in words):
            out["verdict"] = "survived-outside-the-property"
            out["reason"] = why
    return out


def _differs(c, it, fn_o, fn_m):
    import itertools
    import random
    from types import SimpleNamespace
    from pyvc.spec import CONC
    from vf import proof
    from vf.common import jsonable
    rng = random.Random(1)
    if it.gen is not None:
        cases = list(itertools.islice(it.gen(rng, "quick"), 3000))
    else:
        parts = [proof.enum_values(t, dict(it.bounds or {}), rng) for t in c.params.values()]
        cases = [dict(zip(c.params.keys(), cmb)) for cmb in proof._prod_sample(parts, 3000, rng)]

    def run(fn, args):
        live = proof.deep(args)
        try:
            r = it.call(fn, live) if it.call else fn(**live)
            return ("ret", repr(jsonable(r)), repr(jsonable({p: live[p] for p in c.modifies})))
        except Exception as e:  # noqa: BLE001
            return ("exc", type(e).__name__)
    for args in cases:
        try:
            pre = SimpleNamespace(**proof.deep(args))
            if c.requires and not all(bool(v) for v in c.requires(CONC, pre).values()):
                continue
        except Exception:  # noqa: BLE001
            continue
        a, b = run(fn_o, args), run(fn_m, args)
        if a != b:
            return {"args": repr(jsonable(args))[:300], "real": str(a)[:200], "mutant": str(b)[:200]}
    return None


def main():
    import argparse
    ap = argparse.ArgumentParser()
    ap.add_argument("--only", nargs="*")
    ap.add_argument("--max", type=int, default=80)
    ap.add_argument("--jobs", type=int, default=16)
    ap.add_argument("--out", default=None, help="report file (default selftest/mutation_report.json)")
    a = ap.parse_args()
    from pyvc import engine
    jobs = []
    for qn, (prop, it) in collect().items():
        if a.only and not any(o in qn for o in a.only):
            continue
        node, _ = engine.extract_function(REPO, qn)
        for k, (desc, _) in enumerate(mutants(node)):
            if k >= a.max:
                break
            jobs.append((prop, qn, desc, k))
    print(f"{len(jobs)} mutants of {len({j[1] for j in jobs})} functions", flush=True)
    res = []
    with ProcessPoolExecutor(a.jobs, mp_context=mp.get_context("fork")) as ex:
        for r in ex.map(work, jobs, chunksize=1):
            res.append(r)
            if r["verdict"].startswith(("UNSOUND", "survived-")):
                print(r["function"], r["mutant"], r["verdict"], r.get("witness", r.get("reason")), flush=True)
    summ: dict = {}
    for r in res:
        f = summ.setdefault(r["function"], {})
        f[r["verdict"]] = f.get(r["verdict"], 0) + 1
    tot: dict = {}
    for r in res:
        tot[r["verdict"]] = tot.get(r["verdict"], 0) + 1
    os.makedirs(f"{HERE}/selftest", exist_ok=True)
    with open(a.out or f"{HERE}/selftest/mutation_report.json", "w") as fh:
        json.dump({"total": tot, "per_function": summ, "mutants": res}, fh, indent=1)
    print(json.dumps(tot))
    for fn_, v in sorted(summ.items()):
        print(f"  {fn_:55s} {v}")


if __name__ == "__main__":
    main()
