#!/usr/bin/env bash
# Extra validation for fix: commits: the repository's tests with the (incompatible) zarr blocked, which revives the
# ~120 map/adaptive/xarray tests that the pinned baseline cannot collect.   usage: tools/tests_nozarr.sh [repo] [pytest args]
REPO=${1:-/repo}; shift || true
printf "import sys\nsys.modules['zarr'] = None\n" > /tmp/nozarr.py
cd "$REPO" && PYTEST_DISABLE_PLUGIN_AUTOLOAD=1 PYTHONPATH=/tmp /venv/bin/python -m pytest -q -p nozarr -p pytest_asyncio.plugin \
  -p pytest_timeout -p pytest_cov -p no:cacheprovider --timeout=900 "${@:-tests}" 2>&1 | grep -E "passed|failed|^FAILED|^ERROR" | tail -15
