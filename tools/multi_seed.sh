#!/usr/bin/env bash
# tools/multi_seed.sh [--tier T] [seeds...]: every check on the unchanged tree under several VERIF_SEED values (all must
# exit 0 without VIOLATION / CHECKER-ERROR lines).  Runs from a snapshot copy of /verif so that /verif/evidence and
# /verif/replays stay untouched and the working copy may be edited meanwhile.
TIER=quick; if [ "$1" = "--tier" ]; then TIER=$2; shift 2; fi
SRC="$(cd "$(dirname "$0")/.." && pwd)"; SNAP=/tmp/vf_ms_$$
rsync -a --exclude .git --exclude .venv --exclude evidence --exclude replays --exclude __pycache__ "$SRC"/ "$SNAP"/
ln -s "$SRC/.venv" "$SNAP/.venv"; cd "$SNAP"
for sd in "${@:-1 2 3}"; do
  for p in C01 C02 C03 C04 C05 C06 C07 C08 C09 C10 C11 C12 C13 C14 C15 C16 C17 C18 C19 C20; do
    out=$(VERIF_SEED=$sd ./check $p --tier $TIER 2>&1 | grep -v WARNING)
    nv=$(echo "$out" | grep -c "^VIOLATION\|^CHECKER-ERROR")
    echo "seed=$sd tier=$TIER $p alarms=$nv :: $(echo "$out" | tail -1 | cut -c1-170)"
  done
done
cd /; rm -rf "$SNAP"
