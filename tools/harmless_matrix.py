#!/usr/bin/env python3
"""tools/harmless_matrix.py [NAME ...]: apply each stored behaviour-preserving change (harmless/<P>-hK/patch.diff) to a
scratch worktree of /repo HEAD and run the quick check of its property from a snapshot copy of /verif with VERIF_REPO
pointing at that worktree.  A check must stay silent on them: exit 0, no VIOLATION line.  Proofs that are lost
(PROOF-LOST lines: an obligation no longer discharged, decided by the bounded rung instead) are reported, they are not
alarms.  Writes harmless/RESULTS.json.  /repo, /verif/evidence and /verif/replays are not touched."""
import json, os, subprocess, sys, time

VERIF = os.path.dirname(os.path.dirname(os.path.abspath(__file__)))
# functions shared by several properties: run those checks too
ALSO = {}


def sh(cmd, **kw):
    return subprocess.run(cmd, shell=True, capture_output=True, text=True, **kw)


def main():
    base = f"{VERIF}/harmless"
    names = sys.argv[1:] or sorted(d for d in os.listdir(base) if os.path.isdir(f"{base}/{d}"))
    tag = os.getpid()
    wt, snap = f"/tmp/wt_harmless_{tag}", f"/tmp/vf_hsnap_{tag}"
    sh(f"flock /tmp/.verif_worktree.lock git -C /repo worktree add -q -f --detach {wt} HEAD")
    sh(f"rsync -a --exclude .git --exclude .venv --exclude evidence --exclude replays --exclude __pycache__ {VERIF}/ {snap}/")
    os.symlink(f"{VERIF}/.venv", f"{snap}/.venv")
    res_path = os.environ.get("HARMLESS_OUT") or f"{base}/RESULTS.json"  # (HARMLESS_OUT: groups run side by side)
    out = json.load(open(res_path)) if os.path.exists(res_path) else {}
    all_props = os.environ.get("ALL_CHECKS") == "1"
    try:
        for s in names:
            prop = s.split("-")[0]
            ap = sh(f"git -C {wt} apply {base}/{s}/patch.diff")
            rec = {"applies": ap.returncode == 0, "checks": {}}
            try:
                if ap.returncode == 0:
                    plist = [f"C{k:02d}" for k in range(1, 21)] if all_props else [prop] + ALSO.get(s, [])
                    for p in plist:
                        t0 = time.time()
                        r = sh(f"./check {p} --tier quick", cwd=snap, env={**os.environ, "VERIF_REPO": wt})
                        lines = r.stdout.splitlines()
                        rec["checks"][p] = {"exit": r.returncode,
                                            "violations": [ln[:300] for ln in lines if ln.startswith("VIOLATION")][:4],
                                            "proof_lost": [ln[:200] for ln in lines if ln.startswith("PROOF-LOST")][:6],
                                            "errors": [ln[:200] for ln in lines if ln.startswith("CHECKER-ERROR")][:3],
                                            "wall_s": round(time.time() - t0, 1)}
            finally:
                sh(f"git -C {wt} checkout -- .")
            rec["silent"] = rec["applies"] and all(c["exit"] == 0 and not c["violations"] for c in rec["checks"].values())
            out[s] = rec
            json.dump(out, open(res_path, "w"), indent=1, sort_keys=True)
            print(s, "silent" if rec["silent"] else "ALARM", {p: (c["exit"], len(c["violations"]), len(c["proof_lost"]))
                                                            for p, c in rec["checks"].items()}, flush=True)
    finally:
        sh(f"flock /tmp/.verif_worktree.lock git -C /repo worktree remove --force {wt}")
        sh(f"rm -rf {snap}")


main()
