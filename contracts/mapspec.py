"""Contracts for pipefunc/map/_mapspec.py (C08, C01).  Postconditions from the statement of C08:
`output_key` visits every output position once in row-major order (= unravel of the linear index), `input_keys`
selects for each input the entries whose named indices equal that position (full slices for ':'), `shape` returns the
output shape implied by the input shapes and raises on rank / zipped-dimension mismatch."""
from __future__ import annotations

from pyvc.engine import Contract, LoopSpec

from .ty import SI, TInt

F = "pipefunc/map/_mapspec.py"


def all_pos(S, shape):
    return S.forall(0, S.len(shape), lambda i: shape[i] > 0)


shape_to_strides = Contract(
    f"{F}::shape_to_strides",
    params={"shape": SI}, returns=SI,
    ensures=lambda S, a, r, post: {
        "len": S.len(r) == S.len(a.shape),
        "stride-is-suffix-product": S.forall(0, S.len(a.shape),
                                             lambda i: r[i] == S.prod(a.shape, i + 1, S.len(a.shape))),
    },
    loops={
        0: LoopSpec(lambda S, a, v, k: {
            "len": S.len(v.strides) == k,
            "prefix": S.forall(0, k, lambda q: v.strides[q] == S.prod(a.shape, q + 1, S.len(a.shape))),
        }),
        1: LoopSpec(lambda S, a, v, k: {"partial-product": v.product == S.prod(a.shape, v.i + 1, v.i + 1 + k)}),
    },
    locals_={"strides": SI},
)

shape_to_key = Contract(
    f"{F}::_shape_to_key",
    params={"shape": SI, "linear_index": TInt}, returns=SI,
    requires=lambda S, a: {"positive-dims": all_pos(S, a.shape)},
    ensures=lambda S, a, r, post: {
        "len": S.len(r) == S.len(a.shape),
        "unravel": S.forall(0, S.len(a.shape), lambda i: r[i] == S.mod(
            S.div(a.linear_index, S.prod(a.shape, i + 1, S.len(a.shape))), a.shape[i])),
    },
    note="requires positive dimensions: the callers pass shapes of non-empty index spaces (a zero-size axis yields no "
         "linear index to convert); with a zero dimension CPython raises ZeroDivisionError",
)

ALL = [shape_to_strides, shape_to_key]
