"""Contracts for pipefunc/map/_mapspec.py (C08, C01).  Postconditions from the statement of C08:
`output_key` visits every output position once in row-major order (= unravel of the linear index), `input_keys`
selects for each input the entries whose named indices equal that position (full slices for ':'), `shape` returns the
output shape implied by the input shapes and raises on rank / zipped-dimension mismatch."""
from __future__ import annotations

from pyvc.engine import Contract, LoopSpec

from .ty import SI, TInt

F = "pipefunc/map/_mapspec.py"


def all_pos(S, shape):
    return S.forall(0, S.len(shape), lambda i: shape[i] > 0)


shape_to_strides = Contract(
    f"{F}::shape_to_strides",
    params={"shape": SI}, returns=SI,
    ensures=lambda S, a, r, post: {
        "len": S.len(r) == S.len(a.shape),
        "stride-is-suffix-product": S.forall(0, S.len(a.shape),
                                             lambda i: r[i] == S.prod(a.shape, i + 1, S.len(a.shape))),
    },
    loops={
        0: LoopSpec(lambda S, a, v, k: {
            "len": S.len(v.strides) == k,
            "prefix": S.forall(0, k, lambda q: v.strides[q] == S.prod(a.shape, q + 1, S.len(a.shape))),
        }),
        1: LoopSpec(lambda S, a, v, k: {"partial-product": v.product == S.prod(a.shape, v.i + 1, v.i + 1 + k)}),
    },
    locals_={"strides": SI},
)

shape_to_key = Contract(
    f"{F}::_shape_to_key",
    params={"shape": SI, "linear_index": TInt}, returns=SI,
    requires=lambda S, a: {"positive-dims": all_pos(S, a.shape)},
    ensures=lambda S, a, r, post: {
        "len": S.len(r) == S.len(a.shape),
        "unravel": S.forall(0, S.len(a.shape), lambda i: r[i] == S.mod(
            S.div(a.linear_index, S.prod(a.shape, i + 1, S.len(a.shape))), a.shape[i])),
    },
    note="requires positive dimensions: the callers pass shapes of non-empty index spaces (a zero-size axis yields no "
         "linear index to convert); with a zero dimension CPython raises ZeroDivisionError",
)

ALL = [shape_to_strides, shape_to_key]


# ---- records and methods of ArraySpec / MapSpec ---------------------------------------------------------------------
from pyvc.types import TBool, TDict, TNone, TOpt, TRec, TSeq, TSet, TStr  # noqa: E402

from .ty import ArraySpecT, MapSpecT, SArraySpec  # noqa: E402

SS = TSeq(TStr)

arrayspec_rank = Contract(
    f"{F}::ArraySpec.rank", params={"self": ArraySpecT}, returns=TInt,
    ensures=lambda S, a, r, post: {"rank-is-number-of-axes": r == S.len(a.self.axes)},
)

arrayspec_validate = Contract(
    f"{F}::ArraySpec.validate", params={"self": ArraySpecT, "shape": SI}, returns=TNone,
    raises=[("ValueError", lambda S, a: S.len(a.shape) != S.len(a.self.axes))],
    ensures=lambda S, a, r, post: {},
)

mapspec_input_names = Contract(
    f"{F}::MapSpec.input_names", params={"self": MapSpecT}, returns=SS,
    ensures=lambda S, a, r, post: {
        "len": S.len(r) == S.len(a.self.inputs),
        "names": S.forall(0, S.len(a.self.inputs), lambda i: S.eq(r[i], a.self.inputs[i].name)),
    },
)
mapspec_output_names = Contract(
    f"{F}::MapSpec.output_names", params={"self": MapSpecT}, returns=SS,
    ensures=lambda S, a, r, post: {
        "len": S.len(r) == S.len(a.self.outputs),
        "names": S.forall(0, S.len(a.self.outputs), lambda i: S.eq(r[i], a.self.outputs[i].name)),
    },
)

DSI = TDict(TStr, SI)
get_output_dim = Contract(
    f"{F}::_get_output_dim", params={"output": ArraySpecT, "internal_shapes": DSI, "internal_shape_index": TInt},
    returns=TInt,
    requires=lambda S, a: {"index>=0": a.internal_shape_index >= 0},
    raises=[("ValueError", lambda S, a: S.or_(
        S.not_(S.has(a.internal_shapes, a.output.name)),
        lambda: a.internal_shape_index >= S.len(a.internal_shapes[a.output.name])))],
    ensures=lambda S, a, r, post: {"dim": r == a.internal_shapes[a.output.name][a.internal_shape_index]},
    note="internal shapes are modelled as tuples of ints: the TypeError branch for non-int entries is not reachable in "
         "the model (checked on the bounded rung)",
)

mapspec_output_key = Contract(
    f"{F}::MapSpec.output_key", params={"self": MapSpecT, "shape": SI, "linear_index": TInt}, returns=SI,
    requires=lambda S, a: {"positive-dims": all_pos(S, a.shape)},
    raises=[("ValueError", lambda S, a: S.len(a.shape) != _n_input_indices(S, a.self))],
    ensures=lambda S, a, r, post: {
        "len": S.len(r) == S.len(a.shape),
        "row-major-unravel": S.forall(0, S.len(a.shape), lambda i: r[i] == S.mod(
            S.div(a.linear_index, S.prod(a.shape, i + 1, S.len(a.shape))), a.shape[i])),
    },
)


def _n_input_indices(S, ms):
    if not S.symbolic:
        return len({ax for x in ms.inputs for ax in x.axes if ax is not None})
    import z3
    from pyvc.types import TSet as _TSet
    f = z3.Function("fn:MapSpec.input_indices", MapSpecT.sort(), _TSet(TStr).sort())
    return _TSet(TStr).card(f(ms.t))


ALL += [arrayspec_rank, arrayspec_validate, mapspec_input_names, mapspec_output_names, get_output_dim,
        mapspec_output_key]


# ---- MapSpec.input_keys: which element of every input a call with linear index l receives (C01) ----------------------
from pyvc.types import TDict as _TDict  # noqa: E402

from .ty import SK, TKey  # noqa: E402

def _ext_idx(S, ms):
    if not S.symbolic:
        return list(ms.external_indices)
    import z3
    from pyvc.types import Val, unwrap
    f = z3.Function("fn:MapSpec.external_indices", MapSpecT.sort(), SS.sort())
    return unwrap(Val(SS, f(ms.t)))


def _distinct(S, seq):
    return S.forall(0, S.len(seq), lambda i: S.forall(0, S.len(seq), lambda j: S.implies(i != j, lambda: S.not_(
        S.eq(seq[i], seq[j])))))


def _digit(S, a, q):
    return S.mod(S.div(a.linear_index, S.prod(a.shape, q + 1, S.len(a.shape))), a.shape[q])


def _ik_requires(S, a):
    E = _ext_idx(S, a.self)
    ins = a.self.inputs
    return {
        "has an output": S.len(a.self.outputs) >= 1,
        "positive-dims": all_pos(S, a.shape),
        "input names pairwise distinct": S.forall(0, S.len(ins), lambda i: S.forall(0, S.len(ins), lambda j: S.implies(
            i != j, lambda: S.not_(S.eq(ins[i].name, ins[j].name))))),
        "external indices pairwise distinct": _distinct(S, E),
        # MapSpec.__post_init__: every named input axis is an output axis (hence an external index)
        "named input axes are external indices": S.forall(0, S.len(ins), lambda i: S.forall(
            0, S.len(ins[i].axes), lambda p: S.implies(S.not_(S.is_none(ins[i].axes[p])), lambda: S.exists(
                0, S.len(E), lambda q: S.eq(E[q], S.some(ins[i].axes[p])))))),
    }


def _ik_ensures(S, a, r, post):
    E = _ext_idx(S, a.self)
    ins = a.self.inputs

    def entry(i):
        x = ins[i]
        k = r[x.name]
        return S.and_(S.has(r, x.name), lambda: S.and_(S.len(k) == S.len(x.axes), S.forall(
            0, S.len(x.axes), lambda p: S.ite(
                S.is_none(x.axes[p]),
                lambda: S.and_(S.is_tag(k[p], "slice"), lambda: S.eq(S.untag(k[p], "slice"), S.slice_none())),
                lambda: S.and_(S.is_tag(k[p], "int"), lambda: S.exists(0, S.len(E), lambda q: S.and_(
                    S.eq(E[q], S.some(x.axes[p])), lambda: S.untag(k[p], "int") == _digit(S, a, q))))))))
    return {
        "one entry per input": S.forall_key(TStr, lambda nm: S.has(r, nm) == S.exists(
            0, S.len(ins), lambda i: S.eq(ins[i].name, nm)), domain=() if S.symbolic else list(r) + [x.name for x in ins]),
        "every input: ':' axes get the full slice, a named axis gets that axis' digit of the linear index":
            S.forall(0, S.len(ins), entry),
    }


mapspec_input_keys = Contract(
    f"{F}::MapSpec.input_keys", params={"self": MapSpecT, "shape": SI, "linear_index": TInt},
    returns=_TDict(TStr, SK),
    requires=_ik_requires,
    raises=[("ValueError", lambda S, a: S.len(a.shape) != S.len(_ext_idx(S, a.self)))],
    ensures=_ik_ensures,
    note="digit q of the linear index = (l div prod(shape[q+1:])) mod shape[q] (row-major); duplicate input names or "
         "duplicate output axes (later one wins in the dicts) are excluded by the precondition",
)

ALL += [mapspec_input_keys]


# ---- _validate_shapes / MapSpec.shape (C08, C12) ----------------------------------------------------------------------
from pyvc.types import TOpt as _TOpt, TSet as _TSet2  # noqa: E402

ShapeDict = _TDict(TStr, SI)


def _vs_raises(S, a):
    ins = a.inputs
    extra = S.exists_in_dict(a.input_shapes, lambda k: S.not_(S.in_set(a.input_names, k)))
    missing = S.exists_in_set(a.input_names, lambda k: S.not_(S.has(a.input_shapes, k)))
    rank = S.exists(0, S.len(ins), lambda i: S.and_(S.has(a.input_shapes, ins[i].name), lambda: S.len(
        a.input_shapes[ins[i].name]) != S.len(ins[i].axes)))
    internal = S.and_(S.not_(S.is_none(a.internal_shapes)), lambda: S.exists_in_dict(
        S.some(a.internal_shapes), lambda k: S.not_(S.contains(a.output_names, k))))
    return S.or_(extra, missing, rank, internal)


validate_shapes = Contract(
    f"{F}::_validate_shapes",
    params={"input_names": _TSet2(TStr), "input_shapes": ShapeDict, "inputs": SArraySpec,
            "internal_shapes": _TOpt(ShapeDict), "output_names": SS},
    returns=None,
    requires=lambda S, a: {"the inputs' names are the expected names": S.forall(
        0, S.len(a.inputs), lambda i: S.in_set(a.input_names, a.inputs[i].name))},
    raises=[("ValueError", _vs_raises)],
    loops={
        0: LoopSpec(lambda S, a, v, k: {"ranks-ok-so-far": S.forall(0, k, lambda i: S.len(
            a.input_shapes[a.inputs[i].name]) == S.len(a.inputs[i].axes))}),
        1: LoopSpec(lambda S, a, v, k: {"names-ok-so-far": S.forall(0, k, lambda i: S.contains(a.output_names, v._at(i)))}),
    },
    note="raises exactly for: a shape for an array the map does not take, an expected array without a shape, a shape "
         "whose rank differs from the array's spec, an internal shape for a name that is not an output",
)
ALL += [validate_shapes]


# ---- index sets of a MapSpec: ArraySpec.indices, MapSpec.output_indices / input_indices / external_indices ------------
from pyvc.types import TSet  # noqa: E402

def _has_axis(S, x, index):
    """x carries the index `index` on one of its axes (named spec predicate)."""
    return S.opaque("spec:has_axis", [x, index], lambda x_, ix_: S.exists(0, S.len(x_.axes), lambda q: S.and_(
        S.not_(S.is_none(x_.axes[q])), lambda: S.eq(S.some(x_.axes[q]), ix_))))


def _named(S, x, upto):
    """Boolean array: axis position q of x is named (not ':')."""
    return S.defarray("spec:named-axis", [x.axes] if S.symbolic else [], lambda q: S.and_(
        0 <= q, q < S.len(x.axes), lambda: S.not_(S.is_none(x.axes[q]))), S.len(x.axes))


def _indices_clauses(S, x, r):
    C = _named(S, x, None)[0]
    return {
        "the named axes, in order": S.and_(S.len(r) == S.cnt(C, S.len(x.axes)), lambda: S.forall(
            0, S.len(x.axes), lambda q: S.implies(C[q], lambda: S.eq(r[S.cnt(C, q)], S.some(x.axes[q]))))),
        "nothing else": S.forall(0, S.len(r), lambda t: S.exists(0, S.len(x.axes), lambda q: S.and_(
            S.not_(S.is_none(x.axes[q])), lambda: S.eq(r[t], S.some(x.axes[q]))))),
        "membership: exactly the names of the named axes": S.forall_key(
            TStr, lambda nm: S.contains(r, nm) == _has_axis(S, x, nm),
            domain=() if S.symbolic else list(r) + [y for y in x.axes if y is not None] + ["zz"]),
    }


arrayspec_indices = Contract(
    f"{F}::ArraySpec.indices", params={"self": ArraySpecT}, returns=SS,
    axioms=lambda S, a: [_named(S, a.self, None)[1]],
    ensures=lambda S, a, r, post: _indices_clauses(S, a.self, r),
)

mapspec_output_indices = Contract(
    f"{F}::MapSpec.output_indices", params={"self": MapSpecT}, returns=SS,
    raises=[("IndexError", lambda S, a: S.len(a.self.outputs) == 0)],
    axioms=lambda S, a: [_named(S, a.self.outputs[0], None)[1]],
    ensures=lambda S, a, r, post: _indices_clauses(S, a.self.outputs[0], r),
)

mapspec_input_indices = Contract(
    f"{F}::MapSpec.input_indices", params={"self": MapSpecT}, returns=TSet(TStr),
    ensures=lambda S, a, r, post: {"exactly the names carried by some input": S.forall_key(
        TStr, lambda nm: S.in_set(r, nm) == _some_input_has(S, a.self, nm),
        domain=() if S.symbolic else list(r) + [x for y in a.self.inputs for x in y.axes if x is not None] + ["zz"])},
)
def _some_input_has(S, ms, nm):
    return S.opaque("spec:some_input_has", [ms, nm], lambda ms_, nm_: S.exists(
        0, S.len(ms_.inputs), lambda i: _has_axis(S, ms_.inputs[i], nm_)))


def _oi(S, ms):
    if S.symbolic:
        return S.uf("fn:MapSpec.output_indices", SS, ms)
    return list(ms.output_indices)


def _ext_mask(S, ms):
    oi = _oi(S, ms)
    return S.defarray("spec:external-mask", [ms] if S.symbolic else [], lambda p: S.and_(
        0 <= p, p < S.len(oi), lambda: _some_input_has(S, ms, oi[p])), S.len(oi))


def _ext_ensures(S, a, r, post):
    oi = _oi(S, a.self)
    C = _ext_mask(S, a.self)[0]
    return {
        "the output indices some input carries, in output order": S.and_(
            S.len(r) == S.cnt(C, S.len(oi)),
            lambda: S.forall(0, S.len(oi), lambda p: S.implies(C[p], lambda: S.eq(r[S.cnt(C, p)], oi[p])))),
        "membership": S.forall_key(TStr, lambda nm: S.contains(r, nm) == S.and_(
            S.contains(oi, nm), lambda: _some_input_has(S, a.self, nm)),
            domain=() if S.symbolic else list(r) + list(oi) + ["zz"]),
    }


mapspec_external_indices = Contract(
    f"{F}::MapSpec.external_indices", params={"self": MapSpecT}, returns=SS,
    requires=lambda S, a: {"has an output": S.len(a.self.outputs) >= 1},
    axioms=lambda S, a: [_ext_mask(S, a.self)[1]],
    ensures=_ext_ensures,
)
ALL += [arrayspec_indices, mapspec_output_indices, mapspec_input_indices, mapspec_external_indices]


# ---- MapSpec.rename (C08, C10): a renaming is simultaneous -------------------------------------------------------------------
from .ty import ArraySpecT, Axes, SArraySpec  # noqa: E402,F811

DSS = _TDict(TStr, TStr)

arrayspec_new = Contract(
    f"{F}::ArraySpec", params={"name": TStr, "axes": Axes}, returns=ArraySpecT, trusted=True, pure=True,
    ensures=lambda S, a, r, post: {"fields": S.and_(S.eq(r.name, a.name), lambda: S.eq(r.axes, a.axes) if not S.symbolic
                                                  else r.axes.t == a.axes.t)},
    note="constructor of the frozen dataclass ArraySpec: stores its fields (its __post_init__ validates the name and the "
         "axes as identifiers; renaming to identifiers is the caller's business)",
)
mapspec_new = Contract(
    f"{F}::MapSpec", params={"inputs": SArraySpec, "outputs": SArraySpec}, returns=MapSpecT, trusted=True, pure=True,
    ensures=lambda S, a, r, post: {"fields": (r.inputs.t == a.inputs.t) & (r.outputs.t == a.outputs.t) if S.symbolic else True},
    note="constructor of the frozen dataclass MapSpec: stores its fields.  Its __post_init__ validation (no ':' in an "
         "output, identical output indices, input indices among the output indices) is assumed to pass here: a renaming "
         "leaves the axes unchanged, and add_axes appends the same named axes to every array of a MapSpec that passed it",
)


def _renamed(S, ren, sp):
    return S.ite(S.has(ren, sp.name), lambda: ren[sp.name], lambda: sp.name)


def _rename_side(S, ren, old, new):
    return S.and_(S.len(new) == S.len(old), lambda: S.forall(0, S.len(old), lambda i: S.and_(
        S.eq(new[i].name, _renamed(S, ren, old[i])),
        lambda: (new[i].axes.t == old[i].axes.t) if S.symbolic else tuple(new[i].axes) == tuple(old[i].axes))))


mapspec_rename = Contract(
    f"{F}::MapSpec.rename", params={"self": MapSpecT, "renames": DSS}, returns=MapSpecT,
    ensures=lambda S, a, r, post: {
        "every input keeps its axes and gets the name the renaming gives to *its own old name* (simultaneous: a target "
        "that is itself a key is not renamed again)": _rename_side(S, a.renames, a.self.inputs, r.inputs),
        "the same for the outputs": _rename_side(S, a.renames, a.self.outputs, r.outputs),
    },
)
ALL += [arrayspec_new, mapspec_new, mapspec_rename]


def rename_gen(rng, tier):
    from pipefunc.map._mapspec import MapSpec
    specs = ["a[i], b[j] -> c[i, j]", "x[i] -> y[i]", "x[i, :], z[i] -> y[i], w[i]", "... -> v[k]", "p[i], q[i] -> r[i]"]
    for sp in specs:
        m = MapSpec.from_string(sp)
        names = list(m.input_names) + list(m.output_names)
        for _ in range(20 if tier == "quick" else 200):
            sub = rng.sample(names, rng.randint(0, len(names)))
            tgt = [rng.choice(names + ["fresh", "other"]) for _ in sub]
            ren = dict(zip(sub, tgt))
            new_names = [ren.get(n, n) for n in names]
            if len(set(new_names)) != len(new_names):
                continue
            yield {"self": m, "renames": ren}


# ---- ArraySpec.add_axes / MapSpec.add_axes (C10: add_mapspec_axis appends the new axis to every array it lifts) -------------
def _dup_axis(S, a):
    return S.exists(0, S.len(a.axis), lambda q: S.and_(S.not_(S.is_none(a.axis[q])), lambda: S.exists(
        0, S.len(a.self.axes), lambda p: S.and_(S.not_(S.is_none(a.self.axes[p])),
                                               lambda: S.eq(S.some(a.self.axes[p]), S.some(a.axis[q]))))))


arrayspec_add_axes = Contract(
    f"{F}::ArraySpec.add_axes", params={"self": ArraySpecT, "axis": Axes}, returns=ArraySpecT, vararg="axis",
    raises=[("ValueError", _dup_axis)],
    ensures=lambda S, a, r, post: {
        "same name": S.eq(r.name, a.self.name),
        "the new axes are appended after the existing ones, in order": S.and_(
            S.len(r.axes) == S.len(a.self.axes) + S.len(a.axis),
            lambda: S.forall(0, S.len(a.self.axes), lambda p: S.eq(r.axes[p], a.self.axes[p])),
            lambda: S.forall(0, S.len(a.axis), lambda q: S.eq(r.axes[S.len(a.self.axes) + q], a.axis[q]))),
    },
)
ALL += [arrayspec_add_axes]


def add_axes_gen(rng, tier):
    from pipefunc.map._mapspec import ArraySpec
    for axes in ((), ("i",), ("i", "j"), (None, "j"), ("i", None, "k")):
        for new in ((), ("n",), ("i",), (None,), ("n", "m"), ("n", "j"), (None, "k"), ("n", None)):
            yield {"self": ArraySpec("x", axes), "axis": new}


def add_axes_call(fn, args):
    return fn(args["self"], *args["axis"])


def _added(S, a, old, new):
    return S.and_(S.len(new) == S.len(old), lambda: S.forall(0, S.len(old), lambda i: S.and_(
        S.eq(new[i].name, old[i].name), lambda: S.len(new[i].axes) == S.len(old[i].axes) + S.len(a.axis),
        lambda: S.forall(0, S.len(old[i].axes), lambda p: S.eq(new[i].axes[p], old[i].axes[p])),
        lambda: S.forall(0, S.len(a.axis), lambda q: S.eq(new[i].axes[S.len(old[i].axes) + q], a.axis[q])))))


def _dup_in(S, a, specs):
    return S.exists(0, S.len(specs), lambda i: S.exists(0, S.len(a.axis), lambda q: S.and_(
        S.not_(S.is_none(a.axis[q])), lambda: S.exists(0, S.len(specs[i].axes), lambda p: S.and_(
            S.not_(S.is_none(specs[i].axes[p])), lambda: S.eq(S.some(specs[i].axes[p]), S.some(a.axis[q])))))))


mapspec_add_axes = Contract(
    f"{F}::MapSpec.add_axes", params={"self": MapSpecT, "axis": Axes}, returns=MapSpecT, vararg="axis",
    requires=lambda S, a: {
        # (the MapSpec constructor refuses an output with a ':' axis; add_mapspec_axis only ever adds a named axis)
        "the new axes are named": S.forall(0, S.len(a.axis), lambda q: S.not_(S.is_none(a.axis[q])))},
    raises=[("ValueError", lambda S, a: S.or_(_dup_in(S, a, a.self.inputs), lambda: _dup_in(S, a, a.self.outputs)))],
    ensures=lambda S, a, r, post: {
        "every input gets the new axes appended": _added(S, a, a.self.inputs, r.inputs),
        "every output gets the new axes appended": _added(S, a, a.self.outputs, r.outputs),
    },
)
ALL += [mapspec_add_axes]


def ms_add_axes_gen(rng, tier):
    from pipefunc.map._mapspec import MapSpec
    for sp in ("x[i] -> y[i]", "x[i], z[j] -> y[i, j]", "x[i, :] -> y[i]", "... -> y[k]"):
        for new in ((), ("n",), ("i",), ("n", "m"), ("j",), (None,)):
            yield {"self": MapSpec.from_string(sp), "axis": new}
