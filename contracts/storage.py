"""Contracts for pipefunc/map/_storage_array/_base.py and pipefunc/map/_shapes.py (C07, C01).

Postconditions are taken from the statement of C07 ("behaves like a masked n-d object array ... out-of-range or
wrong-rank keys raise IndexError") and from the MapSpec denotation: a *dump* key indexes the external (mapped) axes
only, a read key indexes the full (interleaved) shape.
"""
from __future__ import annotations

from pyvc.engine import Contract, LoopSpec

from .ty import SB, SI, SK, TBool, TInt, TKey

BASE = "pipefunc/map/_storage_array/_base.py"
SHAPES = "pipefunc/map/_shapes.py"


def valid_geometry(S, shape, internal_shape, mask):
    n = S.len(mask)
    return {
        "mask-len": n == S.len(shape) + S.len(internal_shape),
        "mask-cnt": S.cnt(mask, n) == S.len(shape),
    }


def interleave_at(S, mask, t1, t2, j):
    """j-th element of the interleaving of t1 (mask True positions) and t2 (mask False positions)."""
    return S.ite(mask[j], lambda: t1[S.cnt(mask, j)], lambda: t2[j - S.cnt(mask, j)])


select_by_mask = Contract(
    f"{BASE}::select_by_mask",
    params={"mask": SB, "tuple1": SI, "tuple2": SI}, returns=SI,
    raises=[("IndexError", lambda S, a: S.or_(S.cnt(a.mask, S.len(a.mask)) > S.len(a.tuple1),
                                             S.len(a.mask) - S.cnt(a.mask, S.len(a.mask)) > S.len(a.tuple2)))],
    ensures=lambda S, a, r, post: {
        "len": S.len(r) == S.len(a.mask),
        "interleave": S.forall(0, S.len(a.mask), lambda j: r[j] == interleave_at(S, a.mask, a.tuple1, a.tuple2, j)),
    },
    loops={0: LoopSpec(lambda S, a, v, k: {
        "len": S.len(v.result) == k,
        "i1": v.index1 == S.cnt(a.mask, k),
        "i2": v.index2 == k - S.cnt(a.mask, k),
        "b1": v.index1 <= S.len(a.tuple1),
        "b2": v.index2 <= S.len(a.tuple2),
        "prefix": S.forall(0, k, lambda j: v.result[j] == interleave_at(S, a.mask, a.tuple1, a.tuple2, j)),
    })},
    locals_={"result": SI},
)


def _in_range(S, k, size):
    return S.and_(-size <= k, k < size)


def _norm(S, k, size):
    return S.ite(k >= 0, k, k + size)


def _axis_size(S, a, j):
    """Size of the axis that position j of the key addresses (statement of C07)."""
    return S.ite(a.for_dump,
                 lambda: a.shape[j],  # dump keys index the external axes only
                 lambda: interleave_at(S, a.shape_mask, a.shape, a.internal_shape, j))


def _nk_expected_rank(S, a):
    return S.ite(a.for_dump, S.len(a.shape), S.len(a.shape_mask))


def _nk_bad_index(S, a, j):
    return S.and_(S.is_tag(a.key[j], "int"),
                  lambda: S.not_(_in_range(S, S.untag(a.key[j], "int"), _axis_size(S, a, j))))


normalize_key = Contract(
    f"{BASE}::normalize_key",
    params={"key": SK, "shape": SI, "internal_shape": SI, "shape_mask": SB, "for_dump": TBool},
    defaults={"for_dump": False},
    returns=SK,
    requires=lambda S, a: valid_geometry(S, a.shape, a.internal_shape, a.shape_mask),
    raises=[("IndexError", lambda S, a: S.or_(
        S.len(a.key) != _nk_expected_rank(S, a),
        S.exists(0, S.min(S.len(a.key), _nk_expected_rank(S, a)), lambda j: _nk_bad_index(S, a, j))))],
    ensures=lambda S, a, r, post: {
        "len": S.len(r) == S.len(a.key),
        "slices-unchanged": S.forall(0, S.len(a.key), lambda j: S.implies(S.is_tag(a.key[j], "slice"),
                                                                          S.eq(r[j], a.key[j]))),
        "ints-normalised": S.forall(0, S.len(a.key), lambda j: S.implies(
            S.is_tag(a.key[j], "int"),
            lambda: S.and_(S.is_tag(r[j], "int"),
                           S.untag(r[j], "int") == _norm(S, S.untag(a.key[j], "int"), _axis_size(S, a, j))))),
    },
    locals_={"normalized_key": SK},
    cases={"read": lambda S, a: S.not_(a.for_dump), "dump": lambda S, a: a.for_dump},
    note="size of axis j in dump mode is shape[j]: the dump key has one entry per external axis",
)


def normalize_key_loops_current(S, a, v, k):
    """Invariant for the loop as written (one iteration per zipped (mask, k) pair)."""
    return {
        "len": S.len(v.normalized_key) == k,
        "si": v.shape_index == S.cnt(v.shape_mask, k),
        "ii": v.internal_shape_index == k - S.cnt(v.shape_mask, k),
        "prefix-slices": S.forall(0, k, lambda j: S.implies(S.is_tag(a.key[j], "slice"),
                                                            S.eq(v.normalized_key[j], a.key[j]))),
        "prefix-ints": S.forall(0, k, lambda j: S.implies(
            S.is_tag(a.key[j], "int"),
            lambda: S.and_(_in_range(S, S.untag(a.key[j], "int"), _axis_size(S, a, j)),
                   S.is_tag(v.normalized_key[j], "int"),
                   S.untag(v.normalized_key[j], "int") == _norm(S, S.untag(a.key[j], "int"), _axis_size(S, a, j))))),
    }


normalize_key.loops = {0: LoopSpec(normalize_key_loops_current)}

external_shape_from_mask = Contract(
    f"{SHAPES}::external_shape_from_mask",
    params={"shape": SI, "mask": SB}, returns=SI,
    requires=lambda S, a: {"same-len": S.len(a.shape) == S.len(a.mask)},
    ensures=lambda S, a, r, post: {
        "len": S.len(r) == S.cnt(a.mask, S.len(a.mask)),
        "elems": S.forall(0, S.len(a.mask), lambda j: S.implies(a.mask[j], lambda: r[S.cnt(a.mask, j)] == a.shape[j])),
    },
)

internal_shape_from_mask = Contract(
    f"{SHAPES}::internal_shape_from_mask",
    params={"shape": SI, "mask": SB}, returns=SI,
    requires=lambda S, a: {"same-len": S.len(a.shape) == S.len(a.mask)},
    ensures=lambda S, a, r, post: {
        "len": S.len(r) == S.len(a.mask) - S.cnt(a.mask, S.len(a.mask)),
        "elems": S.forall(0, S.len(a.mask), lambda j: S.implies(S.not_(a.mask[j]),
                                                                lambda: r[j - S.cnt(a.mask, j)] == a.shape[j])),
    },
)

ALL = [select_by_mask, normalize_key, external_shape_from_mask, internal_shape_from_mask]
