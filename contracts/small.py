"""Contracts for small loop-free functions between a property and the code that implements it.

* `RunInfo.storage_class` (C03/C04: "per-output storage choices"): which backend an output is stored in.
* `update_cache` (C09): what `Pipeline._run` leaves in the cache after computing a result.

Both are loop-free and call only assumed callees, so the weakest precondition of each path is exact.
"""
from __future__ import annotations

from pyvc.engine import Contract
from pyvc.types import TBool, TDict, TObj, TOpt, TReal, TRec, TStr, TUnion, Tagged

from .misc import TOut

# ---- RunInfo.storage_class ---------------------------------------------------------------------------------------
RI = "pipefunc/map/_run_info.py"
DStorage = TDict(TOut, TStr)
TStorage = TUnion("StorageChoice", [("str", TStr), ("dict", DStorage)],
                  to_py=lambda t: t.value if t.tag == "str" else dict(t.value),
                  from_py=lambda x: Tagged("dict", dict(x)) if isinstance(x, dict) else Tagged("str", x))


class _RIView:
    def __init__(self, storage):
        self.storage = storage

    def __repr__(self):
        return f"RunInfo(storage={self.storage!r})"


RunInfoSV = TRec("RunInfoSV", {"storage": TStorage}, to_py=lambda d: _RIView(d["storage"]),
                 from_py=lambda o: {"storage": o.storage})

get_storage_class = Contract(
    "pipefunc/map/_storage_array/_base.py::get_storage_class", params={"storage": TStr}, returns=TObj, trusted=True, pure=True,
    note="registry lookup by identifier (raises ValueError for an unknown identifier: C12's bounded check)")


def _cls(S, name):
    if S.symbolic:
        return S.uf("fn:get_storage_class", TObj, name)
    from pipefunc.map._storage_array._base import get_storage_class as real
    return real(name)


def _empty(S):
    if S.symbolic:
        from pyvc.types import Val, unwrap
        return unwrap(Val(TStr, TStr.lit("")))
    return ""


def _choice(S, a):
    """(defined, identifier) that the statement assigns to this output: its own entry, else the default entry ""."""
    d = S.untag(a.self.storage, "dict")
    own = S.has(d, a.output_name)
    dflt = S.has(d, S.inject(TOut, "str", _empty(S)))
    return own, dflt, d


def _sc_ensures(S, a, r, post):
    own, dflt, d = _choice(S, a) if (S.symbolic or isinstance(a.self.storage, dict)) else (False, False, None)
    is_str = S.is_tag(a.self.storage, "str")
    return {
        "one backend for all outputs": S.implies(is_str, lambda: S.eq(r, _cls(S, S.untag(a.self.storage, "str")))),
        "per-output choice: the output's own entry wins": S.implies(S.and_(S.not_(is_str), lambda: own), lambda: S.eq(
            r, _cls(S, d[a.output_name]))),
        "otherwise the default entry \"\"": S.implies(S.and_(S.not_(is_str), lambda: S.not_(own)), lambda: S.eq(
            r, _cls(S, d[S.inject(TOut, "str", _empty(S))]))),
    }


def _sc_raises(S, a):
    if not S.symbolic and not isinstance(a.self.storage, dict):
        return False
    own, dflt, _ = _choice(S, a)
    return S.and_(S.is_tag(a.self.storage, "dict"), lambda: S.and_(S.not_(own), S.not_(dflt)))


storage_class = Contract(
    f"{RI}::RunInfo.storage_class", params={"self": RunInfoSV, "output_name": TOut}, returns=TObj,
    raises=[("ValueError", _sc_raises)], ensures=_sc_ensures,
)
STORAGE = [get_storage_class, storage_class]


def sc_gen(rng, tier):
    outs = ["a", "b", ("a", "b"), ""]
    ids = ["dict", "file_array", "shared_memory_dict"]
    for _ in range(300 if tier == "quick" else 3000):
        if rng.random() < 0.3:
            st = rng.choice(ids)
        else:
            st = {k: rng.choice(ids) for k in outs if rng.random() < 0.4}
        yield {"self": _RIView(st), "output_name": rng.choice(outs[:3])}


# ---- update_cache -----------------------------------------------------------------------------------------------------
PC = "pipefunc/_pipeline/_cache.py"
CacheUV = TRec("CacheUV", {"cid": TObj, "is_hybrid": TBool, "state": TObj})
CacheUV.class_tests = {"HybridCache": "is_hybrid"}

perf_counter = Contract("time::time.perf_counter", params={}, returns=TReal, trusted=True, pure=False, static=True,
                        note="a clock reading (any real)")
cu_contains = Contract(f"{PC}::CacheUV.__contains__", params={"self": CacheUV, "key": TObj}, returns=TBool, trusted=True,
                       pure=True, note="membership of a key (the containers' own contracts are C14)")
cu_get = Contract(f"{PC}::CacheUV.get", params={"self": CacheUV, "key": TObj}, returns=TObj, trusted=True, pure=True,
                  note="the value stored under a key (C14)")


def _has(S, c, k):
    return S.uf("fn:CacheUV.__contains__", TBool, c, k) if S.symbolic else (k in c)


def _val(S, c, k):
    return S.uf("fn:CacheUV.get", TObj, c, k) if S.symbolic else c.get(k)


cu_put = Contract(
    f"{PC}::CacheUV.put", params={"self": CacheUV, "key": TObj, "value": TObj, "duration": TOpt(TReal)},
    defaults={"duration": None}, returns=None, trusted=True, pure=False, modifies=("self",),
    ensures=lambda S, a, r, post: ({
        "the key is resident with the value just put (C14)": S.and_(
            _has(S, post.self, a.key), lambda: S.eq(_val(S, post.self, a.key), a.value)),
        "same container": S.and_(S.eq(post.self.cid, a.self.cid), post.self.is_hybrid == a.self.is_hybrid)}
        if S.symbolic else {}),
    note="cache.put (HybridCache takes the computation time as third argument): assumed to leave the key resident with "
         "the value (max_size >= 1); the containers are verified against this under C14")

update_cache = Contract(
    f"{PC}::update_cache", params={"cache": CacheUV, "cache_key": TObj, "r": TObj, "start_time": TReal}, returns=None,
    modifies=("cache",), pure=False,
    ensures=lambda S, a, r, post: {
        "afterwards the result is resident under the key, in the same container": S.and_(
            _has(S, post.cache, a.cache_key), lambda: S.eq(_val(S, post.cache, a.cache_key), a.r),
            lambda: S.eq(post.cache.cid, a.cache.cid)),
    },
)
CACHE_UPDATE = [perf_counter, cu_contains, cu_get, cu_put, update_cache]


def uc_gen(rng, tier):
    from .map_run import _fake_caches
    Plain, Hybrid = _fake_caches()
    for q in range(200 if tier == "quick" else 2000):
        store = {f"k{i}": f"old{i}" for i in range(3) if rng.random() < 0.5}
        cache = Hybrid(store) if rng.random() < 0.5 else Plain(store)
        yield {"cache": cache, "cache_key": f"k{rng.randint(0, 3)}", "r": f"r{q}", "start_time": 0.0}


# ---- _maybe_persist_memory (C04: in-memory storages are on disk when a run with persist_memory=True returns) ---------
from pyvc.engine import LoopSpec  # noqa: E402
from pyvc.types import TInt  # noqa: E402

RUN = "pipefunc/map/_run.py"
# a value of the store: a storage array (ghost: how often it was persisted) or something else (Path, DirectValue)
StoreEntryV = TRec("StoreEntryV", {"eid": TObj, "is_storage": TBool, "npersist": TInt})
StoreEntryV.class_tests = {"StorageBase": "is_storage"}
DStore = TDict(TStr, StoreEntryV)

entry_persist = Contract(
    "pipefunc/map/_storage_array/_base.py::StoreEntryV.persist", params={"self": StoreEntryV}, returns=None, trusted=True,
    pure=False, modifies=("self",),
    ensures=lambda S, a, r, post: ({
        "one more persist of this array": S.and_(post.self.npersist == a.self.npersist + 1, S.eq(post.self.eid, a.self.eid),
                                                 post.self.is_storage == a.self.is_storage)} if S.symbolic else {}),
    note="StorageBase.persist(): what persisting writes is C04's bounded check per backend; here only that it happened")


def _mpm_ensures(S, a, r, post):
    s0, s1 = a.store, post.store
    return {
        "same names": S.forall_key(TStr, lambda k: S.has(s1, k) == S.has(s0, k), domain=() if S.symbolic else list(s0) + list(s1)),
        "every storage array of the store is persisted exactly once when persist_memory is set, none otherwise; "
        "other entries are untouched": S.forall_key(TStr, lambda k: S.implies(S.has(s0, k), lambda: S.and_(
            S.eq(s1[k].eid, s0[k].eid), s1[k].is_storage == s0[k].is_storage,
            s1[k].npersist == s0[k].npersist + S.ite(S.and_(a.persist_memory, s0[k].is_storage), 1, 0))),
            domain=() if S.symbolic else list(s0)),
    }


def _mpm_inv(S, a, v, k):
    """After k iterations (over the keys in the dict's iteration order): the first k entries are done, the rest and
    the set of names are as at entry."""
    s0, s1 = a.store, v.store
    key = v._okey
    return {
        "same names": S.forall_key(TStr, lambda q: S.has(s1, q) == S.has(s0, q)),
        "visited entries: storage arrays persisted once more, others untouched": S.forall(0, k, lambda i: S.and_(
            S.eq(s1[key(i)].eid, s0[key(i)].eid), s1[key(i)].is_storage == s0[key(i)].is_storage,
            s1[key(i)].npersist == s0[key(i)].npersist + S.ite(s0[key(i)].is_storage, 1, 0))),
        "entries still to come are as at entry": S.forall(k, v._n, lambda i: S.eq(s1[key(i)], s0[key(i)])),
    }


maybe_persist_memory = Contract(
    f"{RUN}::_maybe_persist_memory", params={"store": DStore, "persist_memory": TBool}, returns=None,
    modifies=("store",), pure=False, ensures=_mpm_ensures, loops={0: LoopSpec(_mpm_inv)},
)
PERSIST = [entry_persist, maybe_persist_memory]


def _entry_classes():
    from pipefunc.map._storage_array._base import StorageBase

    class Arr(StorageBase):  # a storage array that only counts its persists
        storage_id, requires_serialization = "vf_counting", False

        def __init__(self, eid, npersist=0, dis=False):
            self.eid, self.npersist, self.is_storage, self._dis = eid, npersist, True, dis

        @property
        def dump_in_subprocess(self):  # (file arrays and shared-memory dicts say True, plain dicts False)
            return self._dis

        def persist(self):
            self.npersist += 1

        get_from_index = has_index = __getitem__ = to_array = mask_linear = dump = lambda self, *a, **k: None
        mask = property(lambda self: None)

        def __repr__(self):
            return f"Arr({self.eid!r}, npersist={self.npersist}, dump_in_subprocess={self._dis})"

    class Other:
        def __init__(self, eid):
            self.eid, self.npersist, self.is_storage = eid, 0, False

        def persist(self):  # (must never be called)
            self.npersist += 1

        def __repr__(self):
            return f"Other({self.eid!r}, npersist={self.npersist})"
    Arr.__abstractmethods__ = frozenset()
    return Arr, Other


def mpm_gen(rng, tier):
    Arr, Other = _entry_classes()
    for q in range(300 if tier == "quick" else 3000):
        store = {}
        for i, k in enumerate(["a", "b", "c", "d"]):
            if rng.random() < 0.6:
                store[k] = Arr(f"e{i}", rng.randint(0, 1), rng.random() < 0.5) if rng.random() < 0.6 else Other(f"e{i}")
        yield {"store": store, "persist_memory": rng.random() < 0.6}
