"""Contracts for small loop-free functions between a property and the code that implements it.

* `RunInfo.storage_class` (C03/C04: "per-output storage choices"): which backend an output is stored in.
* `update_cache` (C09): what `Pipeline._run` leaves in the cache after computing a result.

Both are loop-free and call only assumed callees, so the weakest precondition of each path is exact.
"""
from __future__ import annotations

from pyvc.engine import Contract
from pyvc.types import TBool, TDict, TObj, TOpt, TReal, TRec, TStr, TUnion, Tagged

from .misc import TOut

# ---- RunInfo.storage_class ---------------------------------------------------------------------------------------
RI = "pipefunc/map/_run_info.py"
DStorage = TDict(TOut, TStr)
TStorage = TUnion("StorageChoice", [("str", TStr), ("dict", DStorage)],
                  to_py=lambda t: t.value if t.tag == "str" else dict(t.value),
                  from_py=lambda x: Tagged("dict", dict(x)) if isinstance(x, dict) else Tagged("str", x))


class _RIView:
    def __init__(self, storage):
        self.storage = storage

    def __repr__(self):
        return f"RunInfo(storage={self.storage!r})"


RunInfoSV = TRec("RunInfoSV", {"storage": TStorage}, to_py=lambda d: _RIView(d["storage"]),
                 from_py=lambda o: {"storage": o.storage})

get_storage_class = Contract(
    "pipefunc/map/_storage_array/_base.py::get_storage_class", params={"storage": TStr}, returns=TObj, trusted=True, pure=True,
    note="registry lookup by identifier (raises ValueError for an unknown identifier: C12's bounded check)")


def _cls(S, name):
    if S.symbolic:
        return S.uf("fn:get_storage_class", TObj, name)
    from pipefunc.map._storage_array._base import get_storage_class as real
    return real(name)


def _empty(S):
    if S.symbolic:
        from pyvc.types import Val, unwrap
        return unwrap(Val(TStr, TStr.lit("")))
    return ""


def _choice(S, a):
    """(defined, identifier) that the statement assigns to this output: its own entry, else the default entry ""."""
    d = S.untag(a.self.storage, "dict")
    own = S.has(d, a.output_name)
    dflt = S.has(d, S.inject(TOut, "str", _empty(S)))
    return own, dflt, d


def _sc_ensures(S, a, r, post):
    own, dflt, d = _choice(S, a) if (S.symbolic or isinstance(a.self.storage, dict)) else (False, False, None)
    is_str = S.is_tag(a.self.storage, "str")
    return {
        "one backend for all outputs": S.implies(is_str, lambda: S.eq(r, _cls(S, S.untag(a.self.storage, "str")))),
        "per-output choice: the output's own entry wins": S.implies(S.and_(S.not_(is_str), lambda: own), lambda: S.eq(
            r, _cls(S, d[a.output_name]))),
        "otherwise the default entry \"\"": S.implies(S.and_(S.not_(is_str), lambda: S.not_(own)), lambda: S.eq(
            r, _cls(S, d[S.inject(TOut, "str", _empty(S))]))),
    }


def _sc_raises(S, a):
    if not S.symbolic and not isinstance(a.self.storage, dict):
        return False
    own, dflt, _ = _choice(S, a)
    return S.and_(S.is_tag(a.self.storage, "dict"), lambda: S.and_(S.not_(own), S.not_(dflt)))


storage_class = Contract(
    f"{RI}::RunInfo.storage_class", params={"self": RunInfoSV, "output_name": TOut}, returns=TObj,
    raises=[("ValueError", _sc_raises)], ensures=_sc_ensures,
)
STORAGE = [get_storage_class, storage_class]


def sc_gen(rng, tier):
    outs = ["a", "b", ("a", "b"), ""]
    ids = ["dict", "file_array", "shared_memory_dict"]
    for _ in range(300 if tier == "quick" else 3000):
        if rng.random() < 0.3:
            st = rng.choice(ids)
        else:
            st = {k: rng.choice(ids) for k in outs if rng.random() < 0.4}
        yield {"self": _RIView(st), "output_name": rng.choice(outs[:3])}


# ---- update_cache -----------------------------------------------------------------------------------------------------
PC = "pipefunc/_pipeline/_cache.py"
CacheUV = TRec("CacheUV", {"cid": TObj, "is_hybrid": TBool, "state": TObj})
CacheUV.class_tests = {"HybridCache": "is_hybrid"}

perf_counter = Contract("time::time.perf_counter", params={}, returns=TReal, trusted=True, pure=False, static=True,
                        note="a clock reading (any real)")
cu_contains = Contract(f"{PC}::CacheUV.__contains__", params={"self": CacheUV, "key": TObj}, returns=TBool, trusted=True,
                       pure=True, note="membership of a key (the containers' own contracts are C14)")
cu_get = Contract(f"{PC}::CacheUV.get", params={"self": CacheUV, "key": TObj}, returns=TObj, trusted=True, pure=True,
                  note="the value stored under a key (C14)")


def _has(S, c, k):
    return S.uf("fn:CacheUV.__contains__", TBool, c, k) if S.symbolic else (k in c)


def _val(S, c, k):
    return S.uf("fn:CacheUV.get", TObj, c, k) if S.symbolic else c.get(k)


cu_put = Contract(
    f"{PC}::CacheUV.put", params={"self": CacheUV, "key": TObj, "value": TObj, "duration": TOpt(TReal)},
    defaults={"duration": None}, returns=None, trusted=True, pure=False, modifies=("self",),
    requires=lambda S, a: {"HybridCache.put takes the computation time, the other containers' put does not (TypeError "
                           "otherwise)": a.self.is_hybrid == S.not_(S.is_none(a.duration))},
    ensures=lambda S, a, r, post: ({
        "the key is resident with the value just put (C14)": S.and_(
            _has(S, post.self, a.key), lambda: S.eq(_val(S, post.self, a.key), a.value)),
        "same container": S.and_(S.eq(post.self.cid, a.self.cid), post.self.is_hybrid == a.self.is_hybrid)}
        if S.symbolic else {}),
    note="cache.put (HybridCache takes the computation time as third argument): assumed to leave the key resident with "
         "the value (max_size >= 1); the containers are verified against this under C14")

update_cache = Contract(
    f"{PC}::update_cache", params={"cache": CacheUV, "cache_key": TObj, "r": TObj, "start_time": TReal}, returns=None,
    modifies=("cache",), pure=False,
    ensures=lambda S, a, r, post: {
        "afterwards the result is resident under the key, in the same container": S.and_(
            _has(S, post.cache, a.cache_key), lambda: S.eq(_val(S, post.cache, a.cache_key), a.r),
            lambda: S.eq(post.cache.cid, a.cache.cid)),
    },
)
CACHE_UPDATE = [perf_counter, cu_contains, cu_get, cu_put, update_cache]


def uc_gen(rng, tier):
    from .map_run import _fake_caches
    Plain, Hybrid = _fake_caches()
    for q in range(200 if tier == "quick" else 2000):
        store = {f"k{i}": f"old{i}" for i in range(3) if rng.random() < 0.5}
        cache = Hybrid(store) if rng.random() < 0.5 else Plain(store)
        yield {"cache": cache, "cache_key": f"k{rng.randint(0, 3)}", "r": f"r{q}", "start_time": 0.0}


# ---- _maybe_persist_memory (C04: in-memory storages are on disk when a run with persist_memory=True returns) ---------
from pyvc.engine import LoopSpec  # noqa: E402
from pyvc.types import TInt  # noqa: E402

RUN = "pipefunc/map/_run.py"
# a value of the store: a storage array (ghost: how often it was persisted) or something else (Path, DirectValue)
StoreEntryV = TRec("StoreEntryV", {"eid": TObj, "is_storage": TBool, "npersist": TInt})
StoreEntryV.class_tests = {"StorageBase": "is_storage"}
DStore = TDict(TStr, StoreEntryV)

entry_persist = Contract(
    "pipefunc/map/_storage_array/_base.py::StoreEntryV.persist", params={"self": StoreEntryV}, returns=None, trusted=True,
    pure=False, modifies=("self",),
    ensures=lambda S, a, r, post: ({
        "one more persist of this array": S.and_(post.self.npersist == a.self.npersist + 1, S.eq(post.self.eid, a.self.eid),
                                                 post.self.is_storage == a.self.is_storage)} if S.symbolic else {}),
    note="StorageBase.persist(): what persisting writes is C04's bounded check per backend; here only that it happened")


def _mpm_ensures(S, a, r, post):
    s0, s1 = a.store, post.store
    return {
        "same names": S.forall_key(TStr, lambda k: S.has(s1, k) == S.has(s0, k), domain=() if S.symbolic else list(s0) + list(s1)),
        "every storage array of the store is persisted exactly once when persist_memory is set, none otherwise; "
        "other entries are untouched": S.forall_key(TStr, lambda k: S.implies(S.has(s0, k), lambda: S.and_(
            S.eq(s1[k].eid, s0[k].eid), s1[k].is_storage == s0[k].is_storage,
            s1[k].npersist == s0[k].npersist + S.ite(S.and_(a.persist_memory, s0[k].is_storage), 1, 0))),
            domain=() if S.symbolic else list(s0)),
    }


def _mpm_inv(S, a, v, k):
    """After k iterations (over the keys in the dict's iteration order): the first k entries are done, the rest and
    the set of names are as at entry."""
    s0, s1 = a.store, v.store
    key = v._okey
    return {
        "same names": S.forall_key(TStr, lambda q: S.has(s1, q) == S.has(s0, q)),
        "visited entries: storage arrays persisted once more, others untouched": S.forall(0, k, lambda i: S.and_(
            S.eq(s1[key(i)].eid, s0[key(i)].eid), s1[key(i)].is_storage == s0[key(i)].is_storage,
            s1[key(i)].npersist == s0[key(i)].npersist + S.ite(s0[key(i)].is_storage, 1, 0))),
        "entries still to come are as at entry": S.forall(k, v._n, lambda i: S.eq(s1[key(i)], s0[key(i)])),
    }


maybe_persist_memory = Contract(
    f"{RUN}::_maybe_persist_memory", params={"store": DStore, "persist_memory": TBool}, returns=None,
    modifies=("store",), pure=False, ensures=_mpm_ensures, loops={0: LoopSpec(_mpm_inv)},
)
PERSIST = [entry_persist, maybe_persist_memory]


def _entry_classes():
    from pipefunc.map._storage_array._base import StorageBase

    class Arr(StorageBase):  # a storage array that only counts its persists
        storage_id, requires_serialization = "vf_counting", False

        def __init__(self, eid, npersist=0, dis=False):
            self.eid, self.npersist, self.is_storage, self._dis = eid, npersist, True, dis

        @property
        def dump_in_subprocess(self):  # (file arrays and shared-memory dicts say True, plain dicts False)
            return self._dis

        def persist(self):
            self.npersist += 1

        get_from_index = has_index = __getitem__ = to_array = mask_linear = dump = lambda self, *a, **k: None
        mask = property(lambda self: None)

        def __repr__(self):
            return f"Arr({self.eid!r}, npersist={self.npersist}, dump_in_subprocess={self._dis})"

    class Other:
        def __init__(self, eid):
            self.eid, self.npersist, self.is_storage = eid, 0, False

        def persist(self):  # (must never be called)
            self.npersist += 1

        def __repr__(self):
            return f"Other({self.eid!r}, npersist={self.npersist})"
    Arr.__abstractmethods__ = frozenset()
    return Arr, Other


def mpm_gen(rng, tier):
    Arr, Other = _entry_classes()
    for q in range(300 if tier == "quick" else 3000):
        store = {}
        for i, k in enumerate(["a", "b", "c", "d"]):
            if rng.random() < 0.6:
                store[k] = Arr(f"e{i}", rng.randint(0, 1), rng.random() < 0.5) if rng.random() < 0.6 else Other(f"e{i}")
        yield {"store": store, "persist_memory": rng.random() < 0.6}


# ---- _check_inputs (C12: a nested list given for an input of rank > 1 is rejected before anything runs) -------------------
from pyvc.types import TSeq  # noqa: E402

# an input value: only whether it is a list/tuple matters here
InputValV = TRec("InputValV", {"vid": TObj, "is_list": TBool, "is_tuple": TBool})
InputValV.class_tests = {"list": "is_list", "tuple": "is_tuple"}
PipelineDimsV = TRec("PipelineDimsV", {"mapspec_dimensions": TDict(TStr, TInt)})
DInputs = TDict(TStr, InputValV)


def _ci_bad(S, a, name):
    dims = a.pipeline.mapspec_dimensions
    v = a.inputs[name]
    listlike = (lambda: S.or_(v.is_list, v.is_tuple)) if S.symbolic else (lambda: isinstance(v, (list, tuple)))
    return S.and_(S.has(dims, name), lambda: dims[name] > 1, listlike)


check_inputs = Contract(
    f"{RI}::_check_inputs", params={"pipeline": PipelineDimsV, "inputs": DInputs}, returns=None,
    raises=[("ValueError", lambda S, a: S.exists_in_dict(a.inputs, lambda name: _ci_bad(S, a, name)))],
    loops={0: LoopSpec(lambda S, a, v, k: {
        "no offending input so far": S.forall(0, k, lambda i: S.not_(_ci_bad(S, a, v._okey(i)))),
    })},
    note="raises exactly when some input that the MapSpecs index with more than one axis is given as a list or tuple "
         "(those must be numpy arrays)",
)
CHECK_INPUTS = [check_inputs]


def ci_gen(rng, tier):
    import numpy as np
    from types import SimpleNamespace
    names = ["x", "y", "z"]
    for _ in range(300 if tier == "quick" else 3000):
        dims = {k: rng.randint(0, 3) for k in names if rng.random() < 0.7}
        inputs = {}
        for k in names + ["w"]:
            if rng.random() < 0.6:
                inputs[k] = rng.choice([[1, 2], (1, 2), np.arange(2), 3, [[1], [2]], np.zeros((2, 2))])
        yield {"pipeline": SimpleNamespace(mapspec_dimensions=dims), "inputs": inputs}


InputValV.from_py = lambda o: {"vid": repr(o), "is_list": isinstance(o, list), "is_tuple": isinstance(o, tuple)}


# ---- _construct_internal_shapes (C01/C04/C05: the sizes of function-supplied axes that a run records) ----------------------
from .misc import names_of  # noqa: E402

DShapes = TDict(TOut, TObj)
PipeFuncISV = TRec("PipeFuncISV", {"output_name": TOut, "internal_shape": TOpt(TObj)})
PipelineISV = TRec("PipelineISV", {"functions": TSeq(PipeFuncISV)})


def _has0(S, a, key):
    return S.and_(S.not_(S.is_none(a.internal_shapes)), lambda: S.has(S.some(a.internal_shapes), key))


def _elig(S, a, i):
    """Function i contributes: it declares an internal shape and the caller gave none under its output name."""
    f = a.pipeline.functions[i]
    return S.and_(S.not_(S.is_none(f.internal_shape)), lambda: S.not_(_has0(S, a, f.output_name)))


def _n_names(S, out):
    return S.ite(S.is_tag(out, "str"), lambda: 1, lambda: S.len(S.untag(out, "tuple")))


def _covered(S, a, key, t):
    fs = a.pipeline.functions
    return S.and_(S.is_tag(key, "str"), lambda: S.exists(0, t, lambda i: S.and_(
        _elig(S, a, i), lambda: names_of(S, fs[i].output_name)(S.untag(key, "str")))))


def _name_at(S, out, j):
    return S.ite(S.is_tag(out, "str"), lambda: S.untag(out, "str"), lambda: S.untag(out, "tuple")[j])


def _writes_something(S, a, t):
    fs = a.pipeline.functions
    return S.exists(0, t, lambda i: S.and_(_elig(S, a, i), lambda: _n_names(S, fs[i].output_name) >= 1))


def _size0(S, a):
    return S.ite(S.is_none(a.internal_shapes), lambda: 0, lambda: S.len(S.some(a.internal_shapes)))


def _contents(S, a, D, t, extra=None):
    """D holds: the caller's entries, overridden/extended by the entries of the contributing functions among the first t
    (`extra(key)`: further keys already written - the inner loop's progress)."""
    fs = a.pipeline.functions
    cov = (lambda key: S.or_(_covered(S, a, key, t), extra[0](key))) if extra else (lambda key: _covered(S, a, key, t))
    dom = list(D) + (list(a.internal_shapes) if (not S.symbolic and a.internal_shapes is not None) else []) if not S.symbolic else ()
    out = {
        "names": S.forall_key(TOut, lambda key: S.has(D, key) == S.or_(_has0(S, a, key), cov(key)), domain=dom),
        "from the functions": S.forall_key(TOut, lambda key: S.forall(0, t, lambda i: S.implies(
            S.and_(_elig(S, a, i), lambda: S.is_tag(key, "str"), lambda: names_of(S, fs[i].output_name)(S.untag(key, "str"))),
            lambda: S.eq(D[key], S.some(fs[i].internal_shape)))), domain=dom),
        "given entries kept": S.forall_key(TOut, lambda key: S.implies(
            S.and_(_has0(S, a, key), lambda: S.not_(cov(key))),
            lambda: S.eq(D[key], S.some(a.internal_shapes)[key])), domain=dom),
    }
    return out


def _cur(S, v):
    D = v.internal_shapes
    if S.symbolic and isinstance(D.ty, TOpt):
        D = S.some(D)
    return D


def _cis_ensures(S, a, r, post):
    n = S.len(a.pipeline.functions)
    out = {}
    for name, cl in ({} if (not S.symbolic and r is None) else _contents(S, a, S.some(r), n)).items():
        out[f"recorded: {name}"] = S.implies(S.not_(S.is_none(r)), (lambda cl=cl: cl))
    out["None exactly when there is nothing to record"] = S.iff(
        S.is_none(r), S.and_(_size0(S, a) == 0, lambda: S.not_(_writes_something(S, a, n))))
    return out


def _cis_outer(S, a, v, t):
    D = _cur(S, v)
    inv = dict(_contents(S, a, D, t))
    inv["size"] = S.and_(S.len(D) >= _size0(S, a), S.implies(_writes_something(S, a, t), lambda: S.len(D) >= 1),
                         S.implies(S.not_(_writes_something(S, a, t)), lambda: S.len(D) == _size0(S, a)))
    return inv


def _cis_hints(S, a, v, t):
    """Proof structure of the outer step (end of iteration t)."""
    fs = a.pipeline.functions
    D = _cur(S, v)
    in_t = lambda key: S.and_(S.is_tag(key, "str"), lambda: names_of(S, fs[t].output_name)(S.untag(key, "str")))  # noqa: E731
    return {
        "no earlier function wrote under this function's output name": S.not_(_covered(S, a, fs[t].output_name, t)),
        "names of earlier contributing functions are not names of this one": S.forall_key(TOut, lambda key: S.forall(
            0, t, lambda i: S.implies(S.and_(S.is_tag(key, "str"), lambda: names_of(S, fs[i].output_name)(S.untag(key, "str"))),
                                      lambda: S.not_(in_t(key))))),
        "this function's names carry its shape if it contributes": S.implies(_elig(S, a, t), lambda: S.forall_key(
            TOut, lambda key: S.implies(in_t(key), lambda: S.eq(D[key], S.some(fs[t].internal_shape))))),
    }


def _unopt(S, D):
    if S.symbolic and isinstance(D.ty, TOpt):
        D = S.some(D)
    return D


def _cis_inner(S, a, v, j):
    """Inside one iteration of the outer loop (function f contributes): relative to the dict at the entry of this
    loop, the first j names of f are written with f's shape, nothing else changed."""
    D, D_in, f = _cur(S, v), _unopt(S, v._entry.internal_shapes), v.f
    done = lambda key: S.and_(S.is_tag(key, "str"), lambda: S.exists(0, j, lambda u: S.eq(v._at(u), S.untag(key, "str"))))  # noqa: E731
    return {
        "names": S.forall_key(TOut, lambda key: S.has(D, key) == S.or_(S.has(D_in, key), done(key))),
        "written": S.forall(0, j, lambda u: S.eq(D[S.inject(TOut, "str", v._at(u))], S.some(f.internal_shape))),
        "others unchanged": S.forall_key(TOut, lambda key: S.implies(S.and_(S.has(D_in, key), lambda: S.not_(done(key))),
                                                                     lambda: S.eq(D[key], D_in[key]))),
        "size": S.and_(S.len(D) >= S.len(D_in), S.implies(j >= 1, lambda: S.len(D) >= 1),
                       S.implies(j == 0, lambda: S.len(D) == S.len(D_in))),
    }


def _owner(S, a, nm):
    """Ghost witness of "output names are unique over the pipeline": the index of the function that produces a name."""
    return S.uf("spec:name-owner", TInt, a.pipeline.functions, nm)


def _conc_owner(fs, nm):
    for i, f in enumerate(fs):
        if nm == f.output_name or (isinstance(f.output_name, tuple) and nm in f.output_name):
            return i
    return -1


from pyvc.spec import CONC_IMPL  # noqa: E402

CONC_IMPL["spec:name-owner"] = _conc_owner


def _cis_requires(S, a):
    fs = a.pipeline.functions
    n = S.len(fs)
    return {
        "output names are unique over the pipeline (validate_unique_output_names): every name has one producer":
            S.forall(0, n, lambda i: S.and_(
                S.implies(S.is_tag(fs[i].output_name, "str"), lambda: _owner(S, a, S.untag(fs[i].output_name, "str")) == i),
                S.implies(S.is_tag(fs[i].output_name, "tuple"), lambda: S.forall(
                    0, S.len(S.untag(fs[i].output_name, "tuple")),
                    lambda p: _owner(S, a, S.untag(fs[i].output_name, "tuple")[p]) == i)))),
    }


construct_internal_shapes = Contract(
    f"{RI}::_construct_internal_shapes", params={"internal_shapes": TOpt(DShapes), "pipeline": PipelineISV},
    returns=TOpt(DShapes), modifies=("internal_shapes",), pure=False,
    requires=_cis_requires, ensures=_cis_ensures, loops={0: LoopSpec(_cis_outer, hints=_cis_hints), 1: LoopSpec(_cis_inner)},
    locals_={"internal_shapes": DShapes},
    note="the recorded sizes: what the caller gave, plus - for every function that declares an internal shape and whose "
         "output name the caller did not list - that shape under each of the function's output names",
)
from .misc import at_least_tuple as _alt  # noqa: E402
INTERNAL_SHAPES = [_alt, construct_internal_shapes]


def cis_gen(rng, tier):
    from types import SimpleNamespace
    pool = ["a", "b", "c", "d", "e"]
    for _ in range(400 if tier == "quick" else 4000):
        names = rng.sample(pool, rng.randint(0, 5))
        fs = []
        while names:
            if len(names) >= 2 and rng.random() < 0.4:
                out = (names.pop(), names.pop())
            else:
                out = names.pop()
            fs.append(SimpleNamespace(output_name=out, internal_shape=rng.choice([None, None, 3, (2,), (2, 3)])))
        given = None
        if rng.random() < 0.7:
            keys = [k for k in pool if rng.random() < 0.3] + [f.output_name for f in fs if rng.random() < 0.3]
            given = {k: rng.choice([1, (4,), (5, 6)]) for k in keys}
        yield {"internal_shapes": given, "pipeline": SimpleNamespace(functions=fs)}


# ---- _data_loader (C19: the two dataset entry points differ only in where a value is read from) -------------------------
XR = "pipefunc/map/xarray.py"
ResultV = TRec("ResultV", {"output": TObj})
DResults = TDict(TStr, ResultV)

load_outputs = Contract("pipefunc/map/_load.py::load_outputs", params={"output_name": TStr, "run_folder": TObj},
                        returns=TObj, trusted=True, pure=True,
                        note="load_outputs(name, run_folder=...): what the folder holds for an output (C04's bounded check)")


def _lo(S, name, folder):
    if S.symbolic:
        return S.uf("fn:load_outputs", TObj, name, folder)
    return ("loaded-from-folder", name, folder)


data_loader = Contract(
    f"{XR}::_data_loader", params={"output_name": TStr, "run_folder": TOpt(TObj), "data": TOpt(DResults)},
    defaults={"run_folder": None, "data": None}, returns=TObj,
    raises=[("KeyError", lambda S, a: S.and_(S.not_(S.is_none(a.data)), lambda: S.not_(S.has(S.some(a.data), a.output_name)))),
            ("AssertionError", lambda S, a: S.and_(S.is_none(a.data), S.is_none(a.run_folder)))],
    ensures=lambda S, a, r, post: {
        "given the results of a run: the output of that run": S.implies(S.not_(S.is_none(a.data)), lambda: S.eq(
            r, S.some(a.data)[a.output_name].output)),
        "otherwise: what the run folder holds": S.implies(S.is_none(a.data), lambda: S.eq(
            r, _lo(S, a.output_name, S.some(a.run_folder)))),
    },
)
DATA_LOADER = [load_outputs, data_loader]


def dl_gen(rng, tier):
    from types import SimpleNamespace
    for q in range(200 if tier == "quick" else 2000):
        data = None if rng.random() < 0.4 else {k: SimpleNamespace(output=f"out_{k}_{q}") for k in ("a", "b", "c") if rng.random() < 0.7}
        yield {"output_name": rng.choice(("a", "b", "c")), "run_folder": None if rng.random() < 0.3 else f"folder{q % 3}", "data": data}


def dl_call(fn, a):
    import pipefunc.map.xarray as X
    real = X.load_outputs
    X.load_outputs = lambda name, run_folder: ("loaded-from-folder", name, run_folder)  # (the folder is not read here)
    try:
        return fn(a["output_name"], run_folder=a["run_folder"], data=a["data"])
    finally:
        X.load_outputs = real


# ---- pipefunc/map/_prepare.py::_cannot_be_parallelized (C03) ------------------------------------------------------------
# prepare_run switches `parallel` off (no executor is created) exactly when nothing could run side by side: no function
# has a MapSpec and every topological generation holds one function.
FnMSV = TRec("FnMSV", {"mapspec": TOpt(TObj)})
GensV = TRec("GensV", {"function_lists": TSeq(TSeq(TObj))})
PipePV = TRec("PipePV", {"functions": TSeq(FnMSV), "topological_generations": GensV})

cannot_be_parallelized = Contract(
    "pipefunc/map/_prepare.py::_cannot_be_parallelized", params={"pipeline": PipePV}, returns=TBool,
    ensures=lambda S, a, r, post: {
        "exactly when no function has a MapSpec and every generation holds a single function": S.iff(
            r, S.and_(S.forall(0, S.len(a.pipeline.functions), lambda i: S.is_none(a.pipeline.functions[i].mapspec)),
                      lambda: S.forall(0, S.len(a.pipeline.topological_generations.function_lists),
                                       lambda g: S.len(a.pipeline.topological_generations.function_lists[g]) == 1))),
    },
)
PARALLEL = [cannot_be_parallelized]


def cbp_gen(rng, tier):
    from types import SimpleNamespace as NS
    for _ in range(300 if tier == "quick" else 3000):
        fns = [NS(mapspec=None if rng.random() < 0.7 else f"x[i] -> y{k}[i]") for k in range(rng.randint(0, 4))]
        gens = [[f"f{g}_{j}" for j in range(rng.choice((1, 1, 1, 2, 0, 3)))] for g in range(rng.randint(0, 3))]
        yield {"pipeline": NS(functions=fns, topological_generations=NS(function_lists=gens))}


# ---- pipefunc/map/_load.py::load_outputs (C04: what a folder yields for each requested output, in the order asked) -----
LO = "pipefunc/map/_load.py"
StoredLV = TRec("StoredLV", {"value": TObj})
RunInfoLV = TRec("RunInfo", {"rid": TObj})
RunInfoLV.identity = "rid"
SStr = TSeq(TStr)
TLoaded = TUnion("LoadedOutputs", [("one", TObj), ("list", TSeq(TObj))],
                 to_py=lambda t: t.value if t.tag == "one" else list(t.value),
                 from_py=lambda x: Tagged("list", tuple(x)) if isinstance(x, list) else Tagged("one", x))

lo_path = Contract("pathlib::Path", params={"p": TObj}, returns=TObj, trusted=True, pure=True,
                   note="Path(run_folder): a function of its argument")
lo_runinfo_load = Contract(f"{RI}::RunInfo.load", params={"run_folder": TObj}, returns=RunInfoLV, trusted=True, pure=True,
                           static=True, note="the run description recorded in the folder (C04's bounded check)")
lo_init_store = Contract(f"{RI}::RunInfo.init_store", params={"self": RunInfoLV}, returns=TObj, trusted=True, pure=True,
                         note="the store (name -> storage array / path / direct value) of a recorded run")
lo_lfs = Contract("pipefunc/map/_run.py::_load_from_store", params={"output_name": TStr, "store": TObj}, returns=StoredLV,
                  trusted=True, pure=True,
                  note="here only: a deterministic function of (name, store); its own, strong contract is proved in "
                       "contracts/store.py (C05)")
lo_maybe = Contract("pipefunc/map/_run.py::_maybe_load_array", params={"x": TObj}, returns=TObj, trusted=True, pure=True,
                    note="a storage array is read into a masked array, anything else is handed through (C07)")


def _lo_value(S, a, i):
    """What the statement demands for the i-th requested name."""
    if S.symbolic:
        store = S.uf("fn:RunInfo.init_store", TObj, S.uf("fn:RunInfo.load", RunInfoLV, S.uf("fn:Path", TObj, a.run_folder)))
        return S.uf("fn:_maybe_load_array", TObj, S.uf("fn:_load_from_store", StoredLV, a.output_names[i], store).value)
    return ("maybe", ("stored", a.output_names[i], ("store", ("path", a.run_folder))))


load_outputs_real = Contract(
    f"{LO}::load_outputs", params={"output_names": SStr, "run_folder": TObj}, vararg="output_names", returns=TLoaded,
    ensures=lambda S, a, r, post: ({
        "one name: what the folder holds for it": S.implies(S.len(a.output_names) == 1, lambda: S.and_(
            S.is_tag(r, "one"), lambda: S.eq(S.untag(r, "one"), _lo_value(S, a, 0)))),
        "otherwise: a list with one entry per name, in the order asked": S.implies(S.len(a.output_names) != 1, lambda: S.and_(
            S.is_tag(r, "list"), lambda: S.len(S.untag(r, "list")) == S.len(a.output_names),
            lambda: S.forall(0, S.len(a.output_names), lambda i: S.eq(S.untag(r, "list")[i], _lo_value(S, a, i))))),
    } if S.symbolic else {
        "per name, in the order asked (a single name unwrapped)": r == (
            _lo_value(S, a, 0) if len(a.output_names) == 1 else [_lo_value(S, a, i) for i in range(len(a.output_names))]),
    }),
)
LOAD_OUTPUTS = [lo_path, lo_runinfo_load, lo_init_store, lo_lfs, lo_maybe, load_outputs_real]


def lo_gen(rng, tier):
    for q in range(200 if tier == "quick" else 2000):
        yield {"output_names": tuple(rng.choice("abcd") for _ in range(rng.choice((0, 1, 1, 2, 3)))), "run_folder": f"folder{q % 4}"}


def lo_call(fn, a):
    from types import SimpleNamespace as NS
    import pipefunc.map._load as L
    saved = (L.Path, L.RunInfo, L._load_from_store, L._maybe_load_array)
    L.Path = lambda p: ("path", p)
    L.RunInfo = NS(load=lambda folder: NS(init_store=lambda: ("store", folder)))
    L._load_from_store = lambda name, store: NS(value=("stored", name, store))
    L._maybe_load_array = lambda o: ("maybe", o)
    try:
        return fn(*a["output_names"], run_folder=a["run_folder"])
    finally:
        L.Path, L.RunInfo, L._load_from_store, L._maybe_load_array = saved


# ---- pipefunc/_utils.py::equal_dicts (C05 / C12: is this request the run that the folder holds?) -------------------------
# map(cleanup=False) compares the new inputs and defaults with the recorded ones through this function: True / False
# decide "resume" / "refuse", None ("could not compare") resumes with a warning.  _is_equal (a dispatch on dynamic types
# that may raise for exotic values) is an assumed pure partial relation.
UT = "pipefunc/_utils.py"
DSO2 = TDict(TStr, TObj)

is_equal_c = Contract(f"{UT}::_is_equal", params={"a": TObj, "b": TObj}, returns=TBool, trusted=True, pure=True,
                      raises=[("Exception", lambda S, a: S.uf("spec:is_equal-raises", TBool, a.a, a.b) if S.symbolic else False)],
                      note="value comparison by kind of value (dict, ndarray, set, float, str, list/tuple, ==): an assumed "
                           "deterministic partial relation; where it raises is uninterpreted")
print_c = Contract("builtins::print", params={"msg": TStr}, returns=TObj, trusted=True, pure=True, note="diagnostic output")
warn_c = Contract("warnings::warnings.warn", params={"msg": TStr, "stacklevel": TInt}, returns=TObj, trusted=True, pure=True,
                  static=True, note="diagnostic output")


def _ie(S, x, y):
    if S.symbolic:
        return S.uf("spec:is_equal-raises", TBool, x, y), S.uf("fn:_is_equal", TBool, x, y)
    import warnings
    from pipefunc._utils import _is_equal as real
    try:
        with warnings.catch_warnings():
            warnings.simplefilter("ignore")
            return False, bool(real(x, y))
    except Exception:  # noqa: BLE001
        return True, False


def _ed_same_keys(S, a):
    if S.symbolic:  # (the key sets as such: extensional equality of the two domains)
        return DSO2.dom(a.d1.t) == DSO2.dom(a.d2.t)
    return S.and_(S.forall_in_dict(a.d1, lambda k: S.has(a.d2, k)), lambda: S.forall_in_dict(a.d2, lambda k: S.has(a.d1, k)))


def _ed_differs(S, a):
    """Some key whose two values can be compared and are not equal."""
    return S.exists_in_dict(a.d1, lambda k: S.and_(S.has(a.d2, k), lambda: S.and_(
        S.not_(_ie(S, a.d1[k], a.d2[k])[0]), lambda: S.not_(_ie(S, a.d1[k], a.d2[k])[1]))))


def _ed_ensures(S, a, r, post):
    same = _ed_same_keys(S, a)
    differs = _ed_differs(S, a)
    errs = S.exists_in_dict(a.d1, lambda k: S.and_(S.has(a.d2, k), lambda: _ie(S, a.d1[k], a.d2[k])[0]))
    return {
        "other key sets: not equal": S.implies(S.not_(same), lambda: S.and_(S.not_(S.is_none(r)), lambda: S.not_(S.some(r)))),
        "same keys, a comparable pair of values differs: not equal (whatever else could not be compared)": S.implies(
            S.and_(same, lambda: differs), lambda: S.and_(S.not_(S.is_none(r)), lambda: S.not_(S.some(r)))),
        "same keys, nothing differs, something could not be compared: undecided (None)": S.implies(
            S.and_(same, lambda: S.and_(S.not_(differs), lambda: errs)), lambda: S.is_none(r)),
        "same keys, every pair compared and equal: equal": S.implies(
            S.and_(same, lambda: S.and_(S.not_(differs), lambda: S.not_(errs))),
            lambda: S.and_(S.not_(S.is_none(r)), lambda: S.some(r))),
    }


def _ed_inv(S, a, v, k):
    key = v._okey
    pair = lambda i: _ie(S, a.d1[key(i)], a.d2[key(i)])  # noqa: E731
    return {
        "every pair so far could not be compared or is equal": S.forall(0, k, lambda i: S.or_(pair(i)[0], lambda: pair(i)[1])),
        "errors were noted exactly for the pairs that could not be compared": S.iff(
            S.len(v.errors) > 0, S.exists(0, k, lambda i: pair(i)[0])),
    }


equal_dicts = Contract(
    f"{UT}::equal_dicts", params={"d1": DSO2, "d2": DSO2, "verbose": TBool}, defaults={"verbose": False}, returns=TOpt(TBool),
    ensures=_ed_ensures, loops={0: LoopSpec(_ed_inv)}, locals_={"errors": TSeq(TObj)},
    # assumed about Python, not about the code: len of a dict is the number of its keys, so dicts with the same key set
    # have the same len (the dict model of the encoding has no cardinality; the pigeonhole argument is not within SMT reach)
    axioms=lambda S, a: [S.implies(_ed_same_keys(S, a), S.len(a.d1) == S.len(a.d2))],
    note="assumes: dicts with equal key sets have equal len (semantics of len, stated as an axiom of this contract)",
)
EQUAL_DICTS = [is_equal_c, print_c, warn_c, equal_dicts]


class _Incomparable:
    def __eq__(self, other):
        raise TypeError("cannot compare")

    __hash__ = None  # type: ignore[assignment]


def ed_gen(rng, tier):
    import numpy as np
    vals = [1, 1.0, "a", [1, 2], (1, 2), {"k": 1}, {1, 2}, None, 2, "b", [1, 3], np.array([1, 2]), np.array([1, 3])]
    for _ in range(400 if tier == "quick" else 4000):
        keys = [k for k in "abcd" if rng.random() < 0.6]
        d1 = {k: rng.choice(vals) for k in keys}
        d2 = {}
        for k in keys:
            r = rng.random()
            d2[k] = d1[k] if r < 0.7 else (rng.choice(vals) if r < 0.9 else _Incomparable())
            if r >= 0.95:
                d1[k] = _Incomparable()
        if rng.random() < 0.15 and keys:
            d2.pop(rng.choice(keys))
        if rng.random() < 0.15:
            d2["z"] = 1
        items = list(d2.items())
        rng.shuffle(items)
        yield {"d1": d1, "d2": dict(items), "verbose": rng.random() < 0.3}


def ed_call(fn, a):
    import contextlib
    import io
    import warnings
    with warnings.catch_warnings(), contextlib.redirect_stdout(io.StringIO()):
        warnings.simplefilter("ignore")
        return fn(a["d1"], a["d2"], verbose=a["verbose"])


# ---- pipefunc/map/_run_info.py::_compare_to_previous_run_info (C05 / C12: may this request continue the folder's run?) --
# map(cleanup=False) asks this function; it refuses (ValueError) exactly when the folder holds a run description and
# that description cannot be read, or differs in internal shapes, MapSpecs or shapes, or inputs / defaults are
# *decidedly* different (equal_dicts == False); an undecided comparison (None) continues.  Nothing is written here.
from pyvc.types import TTuple  # noqa: E402
OldRunV = TRec("OldRunV", {"internal_shapes": TObj, "mapspecs_as_strings": TObj, "shapes": TObj, "inputs": TObj, "defaults": TObj})
PathFV = TRec("PathFV", {"pid": TObj})
PathFV.identity = "pid"
PipeCmpV = TRec("PipeCmpV", {"pid": TObj, "mapspecs_as_strings": TObj, "defaults": TObj})
PipeCmpV.identity = "pid"
DShapesU = TDict(TStr, TObj)

cmp_path = Contract(f"{RI}::RunInfo.path", params={"run_folder": TObj}, returns=PathFV, trusted=True, pure=True, static=True,
                    note="where the run description of a folder lives")
cmp_is_file = Contract(f"{RI}::PathFV.is_file", params={"self": PathFV}, returns=TBool, trusted=True, pure=True,
                       note="file system query")
cmp_load = Contract(f"{RI}::RunInfo.load", params={"run_folder": TObj}, returns=OldRunV, trusted=True, pure=True, static=True,
                    raises=[("Exception", lambda S, a: S.uf("spec:load-fails", TBool, a.run_folder) if S.symbolic else False)],
                    note="the recorded run description; where reading it fails is uninterpreted")
cmp_cis = Contract(f"{RI}::_construct_internal_shapes", params={"internal_shapes": TOpt(DShapesU), "pipeline": PipeCmpV},
                   returns=TObj, trusted=True, pure=True,
                   note="here only a function of its arguments; its own contract is proved (C01)")
cmp_map_shapes = Contract("pipefunc/map/_shapes.py::map_shapes",
                          params={"pipeline": PipeCmpV, "inputs": TObj, "internal_shapes": TObj}, returns=TTuple([TObj, TObj]),
                          trusted=True, pure=True,
                          ensures=lambda S, a, r, post: ({"shapes are a function of the arguments": r.t[0].t == S.uf(
                              "spec:map_shapes", TObj, a.pipeline, a.inputs, a.internal_shapes).t} if S.symbolic else {}),
                          note="the shapes implied by the inputs (C08's contracts)")
cmp_equal_dicts = Contract(f"{UT}::equal_dicts", params={"d1": TObj, "d2": TObj, "verbose": TBool}, defaults={"verbose": False},
                           returns=TOpt(TBool), trusted=True, pure=True,
                           ensures=lambda S, a, r, post: ({"a function of the two dicts": r.t == S.uf(
                               "spec:equal_dicts", TOpt(TBool), a.d1, a.d2).t} if S.symbolic else {}),
                           note="here only a function of the two dicts (verbose only prints); its own contract is proved above")
cmp_print = Contract("builtins::print", params={"msg": TStr}, returns=TObj, trusted=True, pure=True, note="diagnostic output")


def _cmp_parts(S, a):
    """(file present, load fails, shapes differ, mapspecs differ, map shapes differ, inputs verdict, defaults verdict)."""
    if S.symbolic:
        file = S.uf("fn:PathFV.is_file", TBool, S.uf("fn:RunInfo.path", PathFV, a.run_folder))
        fails = S.uf("spec:load-fails", TBool, a.run_folder)
        old = S.uf("fn:RunInfo.load", OldRunV, a.run_folder)
        nis = S.uf("fn:_construct_internal_shapes", TObj, a.internal_shapes, a.pipeline)
        shp = S.uf("spec:map_shapes", TObj, a.pipeline, a.inputs, nis)
        ei = S.uf("spec:equal_dicts", TOpt(TBool), a.inputs, old.inputs)
        ed = S.uf("spec:equal_dicts", TOpt(TBool), a.pipeline.defaults, old.defaults)
        return (file, fails, S.not_(S.eq(nis, old.internal_shapes)),
                S.not_(S.eq(a.pipeline.mapspecs_as_strings, old.mapspecs_as_strings)), S.not_(S.eq(shp, old.shapes)), ei, ed)
    sc = a.run_folder  # (bounded rung: the folder object carries the scenario)
    return (sc.has_file, sc.load_fails, sc.internal_differ, sc.mapspecs_differ, sc.shapes_differ, sc.inputs_verdict,
            sc.defaults_verdict)


def _cmp_refuses(S, a):
    file, fails, d_int, d_ms, d_shp, ei, ed = _cmp_parts(S, a)
    is_false = (lambda v: S.and_(S.not_(S.is_none(v)), lambda: S.not_(S.some(v)))) if S.symbolic else (lambda v: v is False)
    is_true = (lambda v: S.and_(S.not_(S.is_none(v)), lambda: S.some(v))) if S.symbolic else (lambda v: v is True)
    return S.and_(file, lambda: S.or_(fails, lambda: S.and_(S.not_(fails), lambda: S.or_(
        d_int, d_ms, d_shp, lambda: is_false(ei), lambda: S.and_(is_true(ei), lambda: is_false(ed))))))


compare_to_previous = Contract(
    f"{RI}::_compare_to_previous_run_info",
    params={"pipeline": PipeCmpV, "run_folder": TObj, "inputs": TObj, "internal_shapes": TOpt(DShapesU)},
    defaults={"internal_shapes": None}, returns=None, raises=[("ValueError", _cmp_refuses)],
)
COMPARE_PREVIOUS = [cmp_path, cmp_is_file, cmp_load, cmp_cis, cmp_map_shapes, cmp_equal_dicts, cmp_print, compare_to_previous]


def cmp_gen(rng, tier):
    from types import SimpleNamespace as NS
    for q in range(400 if tier == "quick" else 4000):
        sc = NS(has_file=rng.random() < 0.85, load_fails=rng.random() < 0.15, internal_differ=rng.random() < 0.2,
                mapspecs_differ=rng.random() < 0.2, shapes_differ=rng.random() < 0.2,
                inputs_verdict=rng.choice((True, True, False, None)), defaults_verdict=rng.choice((True, True, False, None)), q=q)
        yield {"pipeline": NS(pid=q, mapspecs_as_strings=("ms", q), defaults=("defaults", q)), "run_folder": sc,
               "inputs": ("inputs", q), "internal_shapes": None if rng.random() < 0.5 else {"y": (3,)}}


def cmp_call(fn, a):
    import contextlib
    import io
    from types import SimpleNamespace as NS
    import pipefunc.map._run_info as R
    sc = a["run_folder"]
    old = NS(internal_shapes=("cis", sc.q, sc.internal_differ), shapes=("shapes", sc.q, sc.shapes_differ),
             mapspecs_as_strings=("ms", sc.q) if not sc.mapspecs_differ else ("ms-other", sc.q),
             inputs=("old-inputs", sc.q), defaults=("old-defaults", sc.q))

    def load(folder):
        if folder.load_fails:
            raise OSError("cannot read run_info.json")
        return old

    def eq(d1, d2, verbose=False):
        return sc.inputs_verdict if d1 == ("inputs", sc.q) else sc.defaults_verdict
    saved = (R.RunInfo, R._construct_internal_shapes, R.map_shapes, R.equal_dicts)
    R.RunInfo = NS(path=lambda folder: NS(is_file=lambda: folder.has_file), load=load)
    R._construct_internal_shapes = lambda given, pipeline: ("cis", sc.q, False)
    R.map_shapes = lambda pipeline, inputs, nis: (("shapes", sc.q, False), None)
    R.equal_dicts = eq
    try:
        with contextlib.redirect_stdout(io.StringIO()):
            return fn(a["pipeline"], sc, a["inputs"], a["internal_shapes"])
    finally:
        R.RunInfo, R._construct_internal_shapes, R.map_shapes, R.equal_dicts = saved


# ---- pipefunc/map/_run.py::_maybe_parallel_map (C03: every index of a mapped function is processed exactly once) --------
from .misc import DOutObj2, PipeFuncOut, executor_for_func, _empty_name  # noqa: E402
RUN = "pipefunc/map/_run.py"


class _IndexFn:
    """The per-index worker of the bounded rung: remembers what it was called with."""

    def __init__(self, fid, wrapped=None):
        self.fid, self.wrapped = fid, wrapped

    def __call__(self, i):
        return ("processed", self.fid, i) if self.wrapped is None else ("with-status", self.wrapped(i))

    def __eq__(self, other):
        return isinstance(other, _IndexFn) and (self.fid, self.wrapped) == (other.fid, other.wrapped)

    __hash__ = None  # type: ignore[assignment]


IndexFnV = TRec("IndexFn", {"fid": TObj}, to_py=lambda d: _IndexFn(d["fid"]), from_py=lambda o: {"fid": id(o)})
IndexFnV.identity = "fid"
SInt = TSeq(TInt)
STok = TSeq(TObj)

pmap_call = Contract(f"{RUN}::IndexFn.__call__", params={"self": IndexFnV, "i": TInt}, returns=TObj, trusted=True, pure=True,
                    note="processing one index (the user function runs in there): an opaque function of (worker, index)")
pmap_submit = Contract(f"{RUN}::_submit", params={"func": IndexFnV, "executor": TObj, "status": TOpt(TObj),
                                                 "progress": TOpt(TObj), "i": TInt}, returns=TObj, trusted=True, pure=True,
                      note="one submission of worker(i) to the executor: the future is an opaque function of the arguments")
pmap_slurm = Contract("pipefunc/map/_adaptive_scheduler_slurm_executor.py::maybe_update_slurm_executor_map",
                     params={"func": PipeFuncOut, "ex": TObj, "executor": DOutObj2, "process_index": IndexFnV, "seq": SInt},
                     returns=TObj, trusted=True, pure=True, note="the executor to use (a per-function SlurmExecutor or ex itself)")
pmap_wrap = Contract(f"{RUN}::_wrap_with_status_update", params={"func": IndexFnV, "status": TObj, "progress": TObj},
                    returns=IndexFnV, trusted=True, pure=True, note="the worker with progress bookkeeping around it")


def _pmap_ex(S, a):
    """(an executor applies, the executor that _executor_for_func picks)."""
    d = S.some(a.executor)
    own = S.has(d, a.func.output_name)
    return S.not_(S.is_none(a.executor)), S.ite(own, lambda: d[a.func.output_name], lambda: d[_empty_name(S)])


def _pmap_no_entry(S, a):
    return S.and_(S.not_(S.is_none(a.executor)), lambda: S.and_(
        S.not_(S.has(S.some(a.executor), a.func.output_name)), S.not_(S.has(S.some(a.executor), _empty_name(S)))))


def _pmap_ensures(S, a, r, post):
    if S.symbolic:
        par, ex = _pmap_ex(S, a)
        ex2 = lambda: S.uf("fn:maybe_update_slurm_executor_map", TObj, a.func, ex, S.some(a.executor), a.process_index, a.indices)  # noqa: E731
        worker = lambda: S.ite(S.is_none(a.status), lambda: a.process_index, lambda: S.uf(  # noqa: E731
            "fn:_wrap_with_status_update", IndexFnV, a.process_index, S.some(a.status), S.some(a.progress)))
        return {
            "one result per index, in the order of the indices": S.len(r) == S.len(a.indices),
            "with an executor: worker(i) is submitted once for every index i": S.implies(par, lambda: S.forall(
                0, S.len(a.indices), lambda j: S.eq(r[j], S.uf("fn:_submit", TObj, a.process_index, ex2(), a.status,
                                                              a.progress, a.indices[j])))),
            "without: worker(i) is run here, once for every index i": S.implies(S.not_(par), lambda: S.forall(
                0, S.len(a.indices), lambda j: S.eq(r[j], S.uf("fn:IndexFn.__call__", TObj, worker(), a.indices[j])))),
        }
    if a.executor is not None:
        ex = a.executor.get(a.func.output_name, a.executor.get(""))
        want = [("submitted", a.process_index.fid, ("slurm?", ex), a.status, a.progress, i) for i in a.indices]
    elif a.status is None:
        want = [("processed", a.process_index.fid, i) for i in a.indices]
    else:
        want = [("with-status", ("processed", a.process_index.fid, i)) for i in a.indices]
    return {"one result per index, in order, from the executor that applies": list(r) == want}


maybe_parallel_map = Contract(
    f"{RUN}::_maybe_parallel_map",
    params={"func": PipeFuncOut, "process_index": IndexFnV, "indices": SInt, "executor": TOpt(DOutObj2),
            "status": TOpt(TObj), "progress": TOpt(TObj)}, returns=STok,
    raises=[("ValueError", _pmap_no_entry),
            ("AssertionError", lambda S, a: S.and_(S.is_none(a.executor), lambda: S.and_(
                S.not_(S.is_none(a.status)), S.is_none(a.progress))))],
    ensures=_pmap_ensures,
)
PARALLEL_MAP = [executor_for_func, pmap_call, pmap_submit, pmap_slurm, pmap_wrap, maybe_parallel_map]


def pmap_gen(rng, tier):
    from types import SimpleNamespace as NS
    for q in range(300 if tier == "quick" else 3000):
        out = rng.choice(("a", "b", ("a", "b")))
        r = rng.random()
        executor = None if r < 0.4 else {k: f"ex_{k}_{q}" for k in ("a", ("a", "b"), "") if rng.random() < 0.5}
        status = None if rng.random() < 0.5 else f"status{q}"
        progress = None if (status is None and rng.random() < 0.5) or rng.random() < 0.1 else f"progress{q}"
        yield {"func": NS(output_name=out), "process_index": _IndexFn(q), "indices": [rng.randrange(6) for _ in range(rng.randint(0, 4))],
               "executor": executor, "status": status, "progress": progress}


def pmap_call_real(fn, a):
    import pipefunc.map._run as R
    saved = (R._submit, R.maybe_update_slurm_executor_map, R._wrap_with_status_update)
    R._submit = lambda pi, ex, status, progress, i: ("submitted", pi.fid, ex, status, progress, i)
    R.maybe_update_slurm_executor_map = lambda func, ex, executor, pi, seq: ("slurm?", ex)
    R._wrap_with_status_update = lambda pi, status, progress: _IndexFn(pi.fid, wrapped=pi)
    try:
        return fn(a["func"], a["process_index"], a["indices"], a["executor"], a["status"], a["progress"])
    finally:
        R._submit, R.maybe_update_slurm_executor_map, R._wrap_with_status_update = saved


# ---- pipefunc/map/xarray.py::load_xarray_dataset (C19: the dataset of a folder is the same construction as the one from
# results - _xarray_dataset on the recorded MapSpecs and inputs - reading each value from the folder) -----------------------
RunInfoNamesV = TRec("RunInfoNames", {"rid": TObj, "all_output_names": TObj})
RunInfoNamesV.identity = "rid"
xl_load = Contract(f"{RI}::RunInfo.load", params={"run_folder": TObj}, returns=RunInfoNamesV, trusted=True, pure=True, static=True,
                   note="the run description recorded in the folder")
xl_sorted = Contract("builtins::sorted", params={"xs": TObj}, returns=TSeq(TStr), trusted=True, pure=True,
                     note="sorted(...): a function of its argument")
xl_partial = Contract("functools::partial", params={"func": TObj, "run_folder": TObj}, returns=TObj, trusted=True, pure=True,
                      note="functools.partial(_data_loader, run_folder=...): the loader that reads each value from the folder")
xl_dataset = Contract(f"{XR}::_xarray_dataset",
                      params={"mapspecs": TObj, "inputs": TObj, "data_loader": TObj, "output_names": TSeq(TStr),
                              "load_intermediate": TBool}, defaults={"load_intermediate": True}, returns=TObj, trusted=True,
                      pure=True, note="the construction of the dataset (C19's bounded check)")


def _xl_ensures(S, a, r, post):
    if not S.symbolic:
        return {"built by _xarray_dataset from the folder's loader and the requested (or all recorded) names": r == (
            "dataset", a.mapspecs, a.inputs, ("partial", "_data_loader", a.run_folder),
            tuple(a.output_names) if a.output_names else ("sorted", ("all-names", a.run_folder)), a.load_intermediate)}
    from pyvc.types import Val
    import z3
    loader = S.uf("fn:partial", TObj, Val(TObj, z3.Const("global:_data_loader", TObj.sort())), a.run_folder)
    given = S.and_(S.not_(S.is_none(a.output_names)), lambda: S.len(S.some(a.output_names)) != 0)
    names = S.ite(given, lambda: S.some(a.output_names), lambda: S.uf(
        "fn:sorted", TSeq(TStr), S.uf("fn:RunInfo.load", RunInfoNamesV, a.run_folder).all_output_names))
    return {"built by _xarray_dataset from the folder's loader and the requested (or, without a request, all recorded) names":
            S.eq(r, S.uf("fn:_xarray_dataset", TObj, a.mapspecs, a.inputs, loader, names, a.load_intermediate))}


xr_load_dataset = Contract(
    f"{XR}::load_xarray_dataset",
    params={"mapspecs": TObj, "inputs": TObj, "run_folder": TObj, "output_names": TOpt(TSeq(TStr)), "load_intermediate": TBool},
    defaults={"output_names": None, "load_intermediate": True}, returns=TObj, ensures=_xl_ensures,
    locals_={"_data_loader": TObj},
)
XR_LOAD = [xl_load, xl_sorted, xl_partial, xl_dataset, xr_load_dataset]


def xl_gen(rng, tier):
    for q in range(200 if tier == "quick" else 2000):
        names = None if rng.random() < 0.3 else [rng.choice("abc") for _ in range(rng.randint(0, 3))]
        yield {"mapspecs": ("mapspecs", q), "inputs": ("inputs", q), "run_folder": f"folder{q % 3}", "output_names": names,
               "load_intermediate": rng.random() < 0.5}


def xl_call(fn, a):
    from types import SimpleNamespace as NS
    import pipefunc.map.xarray as X
    saved = (X.RunInfo, X.partial, X._xarray_dataset, X._data_loader)
    X.RunInfo = NS(load=lambda folder: NS(all_output_names=("all-names", folder)))
    X.partial = lambda f, run_folder: ("partial", f, run_folder)
    X._data_loader = "_data_loader"
    X._xarray_dataset = lambda mapspecs, inputs, data_loader, output_names, load_intermediate=True: (
        "dataset", mapspecs, inputs, data_loader, tuple(output_names) if isinstance(output_names, list) else output_names,
        load_intermediate)
    real_sorted = sorted
    X.sorted = lambda xs: ("sorted", xs)
    try:
        return fn(a["mapspecs"], a["inputs"], run_folder=a["run_folder"], output_names=a["output_names"],
                  load_intermediate=a["load_intermediate"])
    finally:
        X.RunInfo, X.partial, X._xarray_dataset, X._data_loader = saved
        del X.sorted


# ---- pipefunc/map/xarray.py::xarray_dataset_from_results (C19: the twin entry point) ----------------------------------------
PipeXV = TRec("PipeXV", {"pid": TObj, "defaults": TObj})
PipeXV.identity = "pid"
ResultsXV = TRec("ResultsXV", {"rid": TObj})
ResultsXV.identity = "rid"
xf_mapspecs = Contract("pipefunc/_pipeline/_base.py::PipeXV.mapspecs", params={"self": PipeXV}, returns=TObj, trusted=True,
                       pure=True, note="the MapSpecs of the pipeline")
xf_keys = Contract("builtins::ResultsXV.keys", params={"self": ResultsXV}, returns=TObj, trusted=True, pure=True,
                   note="the names of the results of a run")
xf_partial = Contract("functools::partial", params={"func": TObj, "data": ResultsXV}, returns=TObj, trusted=True, pure=True,
                      note="functools.partial(_data_loader, data=...): the loader that reads each value from the results")


def _xf_ensures(S, a, r, post):
    if not S.symbolic:
        return {"built by _xarray_dataset from the pipeline's MapSpecs, defaults | inputs, the results' loader and all result "
                "names, sorted": r == ("dataset", ("mapspecs", a.pipeline.pid), ("or", a.pipeline.defaults.tag, a.inputs),
                                       ("partial", "_data_loader", a.results.rid), ("sorted", ("keys", a.results.rid)),
                                       a.load_intermediate)}
    from pyvc.types import Val
    import z3
    loader = S.uf("fn:partial", TObj, Val(TObj, z3.Const("global:_data_loader", TObj.sort())), a.results)
    names = S.uf("fn:sorted", TSeq(TStr), S.uf("fn:ResultsXV.keys", TObj, a.results))
    return {"built by _xarray_dataset from the pipeline's MapSpecs, defaults | inputs, the results' loader and all result "
            "names, sorted": S.eq(r, S.uf("fn:_xarray_dataset", TObj, S.uf("fn:PipeXV.mapspecs", TObj, a.pipeline),
                                          S.uf("spec:or", TObj, a.pipeline.defaults, a.inputs), loader, names,
                                          a.load_intermediate))}


xr_from_results = Contract(
    f"{XR}::xarray_dataset_from_results",
    params={"inputs": TObj, "results": ResultsXV, "pipeline": PipeXV, "load_intermediate": TBool},
    defaults={"load_intermediate": True}, returns=TObj, ensures=_xf_ensures, locals_={"_data_loader": TObj},
)
XR_FROM = [xf_mapspecs, xf_keys, xl_sorted, xf_partial, xl_dataset, xr_from_results]


class _TagDict:
    """A stand-in for a dict that is only handed on: `a | b` is recorded, not computed."""

    def __init__(self, tag):
        self.tag = tag

    def __or__(self, other):
        return ("or", self.tag, other)

    def __eq__(self, other):
        return isinstance(other, _TagDict) and self.tag == other.tag

    __hash__ = None  # type: ignore[assignment]


def xf_gen(rng, tier):
    from types import SimpleNamespace as NS
    for q in range(200 if tier == "quick" else 2000):
        yield {"inputs": ("inputs", q), "results": NS(rid=q, keys=lambda q=q: ("keys", q)),
               "pipeline": NS(pid=q, defaults=_TagDict(("defaults", q)), mapspecs=lambda q=q: ("mapspecs", q)),
               "load_intermediate": rng.random() < 0.5}


def xf_call(fn, a):
    import pipefunc.map.xarray as X
    saved = (X.partial, X._xarray_dataset, X._data_loader)
    X.partial = lambda f, data: ("partial", f, data.rid)
    X._data_loader = "_data_loader"
    X._xarray_dataset = lambda mapspecs, inputs, data_loader, output_names, load_intermediate=True: (
        "dataset", mapspecs, inputs, data_loader, output_names, load_intermediate)
    X.sorted = lambda xs: ("sorted", xs)
    try:
        return fn(a["inputs"], a["results"], a["pipeline"], load_intermediate=a["load_intermediate"])
    finally:
        X.partial, X._xarray_dataset, X._data_loader = saved
        del X.sorted
