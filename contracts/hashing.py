"""Contracts for the structural helpers of to_hashable (pipefunc/cache.py, C15): a sequence is keyed component by
component, in order (unless sorting is requested); a mapping is keyed item by item.  to_hashable itself (a dispatch on
dynamic types with recursion) and _sorted (mixed-type ordering) are assumed here and checked on the bounded rung."""
from __future__ import annotations

from pyvc.engine import Contract
from pyvc.types import TBool, TObj, TSeq

F = "pipefunc/cache.py"
SO = TSeq(TObj)

to_hashable2 = Contract(f"{F}::to_hashable", params={"obj": TObj, "fallback_to_pickle": TBool}, defaults={"fallback_to_pickle": True},
                        returns=TObj, trusted=True, pure=True,
                        note="the key function H(obj, fallback): deterministic; its injectivity is C15's bounded check")
sorted_items = Contract(f"{F}::_sorted", params={"items": SO}, returns=SO, trusted=True, pure=True,
                        note="a sorted copy (mixed types ordered by type name and repr): assumed deterministic")


def _H(S, x, fb):
    if S.symbolic:
        return S.uf("fn:to_hashable", TObj, x, fb)
    from pipefunc.cache import to_hashable
    return to_hashable(x, fb)


def _src(S, a):
    if S.symbolic:
        return S.ite(a.sort, lambda: S.uf("fn:_sorted", SO, a.iterable), lambda: a.iterable)
    from pipefunc.cache import _sorted
    return _sorted(a.iterable) if a.sort else list(a.iterable)


hashable_iterable = Contract(
    f"{F}::_hashable_iterable", params={"iterable": SO, "fallback_to_pickle": TBool, "sort": TBool}, defaults={"sort": False},
    returns=SO,
    ensures=lambda S, a, r, post: {
        "one key component per item, in the order of the (sorted, if requested) items": S.and_(
            S.len(r) == S.len(_src(S, a)),
            lambda: S.forall(0, S.len(r), lambda i: S.eq(r[i], _H(S, _src(S, a)[i], a.fallback_to_pickle)))),
    },
)
ALL = [to_hashable2, sorted_items, hashable_iterable]


def hi_gen(rng, tier):
    pool = [1, "a", (1, 2), [3], None, 2.5, ("a", 1), b"x"]
    for _ in range(300 if tier == "quick" else 3000):
        items = [rng.choice(pool) for _ in range(rng.randint(0, 4))]
        sort = rng.random() < 0.4
        if sort and len({type(x) for x in items}) > 1 and rng.random() < 0.5:
            items = [x for x in items if isinstance(x, (int, float))]
        yield {"iterable": tuple(items) if rng.random() < 0.5 else items, "fallback_to_pickle": True, "sort": sort}
