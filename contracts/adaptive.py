"""Contracts for pipefunc/map/adaptive.py (C06): the learners a map is cut into."""
from __future__ import annotations

from pyvc.engine import Contract
from pyvc.types import TInt, TObj, TRec, TSeq

F = "pipefunc/map/adaptive.py"
# what is read of an adaptive.SequenceLearner: the function it evaluates and the sequence of flat indices it covers
LearnerV = TRec("SequenceLearnerV", {"_original_function": TObj, "sequence": TSeq(TInt)})

sequence_learner = Contract(
    f"{F}::SequenceLearner", params={"function": TObj, "sequence": TSeq(TInt)}, returns=LearnerV, trusted=True, pure=True,
    ensures=lambda S, a, r, post: {
        "holds the function": S.eq(r._original_function, a.function),
        "covers the given sequence": S.and_(S.len(r.sequence) == S.len(a.sequence), lambda: S.forall(
            0, S.len(a.sequence), lambda i: r.sequence[i] == a.sequence[i])),
    },
    note="constructor of adaptive.SequenceLearner (external library): assumed to store its two arguments",
)


def _ensures(S, a, r, post):
    seq = a.learner.sequence
    n = S.len(seq)
    return {
        "a single element: the learner itself": S.implies(n == 1, lambda: S.and_(S.len(r) == 1, lambda: S.eq(r[0], a.learner))),
        "otherwise one learner per selected flat index, in order, each covering exactly that index with the same function":
            S.implies(n != 1, lambda: S.and_(S.len(r) == n, lambda: S.forall(0, n, lambda i: S.and_(
                S.eq(r[i]._original_function, a.learner._original_function),
                lambda: S.len(r[i].sequence) == 1, lambda: r[i].sequence[0] == seq[i])))),
    }


split_sequence_learner = Contract(
    f"{F}::_split_sequence_learner", params={"learner": LearnerV}, returns=TSeq(LearnerV), pure=True, ensures=_ensures,
)
ALL = [sequence_learner, split_sequence_learner]


class _L:
    """Stand-in with the two attributes (the real class needs a callable that loads run data)."""

    def __init__(self, function, sequence):
        self._original_function, self.sequence = function, list(sequence)

    def __eq__(self, other):
        return isinstance(other, _L) and (self._original_function, self.sequence) == (other._original_function, other.sequence)

    def __repr__(self):
        return f"L({self._original_function!r}, {self.sequence!r})"


def gen(rng, tier):
    for _ in range(300 if tier == "quick" else 3000):
        n = rng.randint(0, 5)
        yield {"learner": _L("fn", rng.sample(range(12), n))}


def call(fn, args):
    """The real function builds adaptive.SequenceLearner objects: read the two attributes back into the stand-in."""
    out = fn(**args)
    return [x if isinstance(x, _L) else _L(x._original_function, list(x.sequence)) for x in out]
