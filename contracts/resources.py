"""Contracts for pipefunc/resources.py (C20)."""
from __future__ import annotations

from pyvc.engine import Contract, LoopSpec
from pyvc.spec import CONC_IMPL
from pyvc.types import TBool, TDict, TInt, TNone, TObj, TOpt, TReal, TRec, TSeq, TStr
from specs import resources_ref as ref

F = "pipefunc/resources.py"
OptInt = TOpt(TInt)
OptStr = TOpt(TStr)
DSO = TDict(TStr, TObj)

FIELDS = {"cpus": OptInt, "cpus_per_node": OptInt, "nodes": OptInt, "memory": OptStr, "gpus": OptInt, "time": OptStr,
          "partition": OptStr, "extra_args": DSO, "parallelization_mode": TStr}


def _mk_resources(d):
    from pipefunc.resources import Resources
    return Resources(**d)


RES = TRec("Resources", FIELDS, to_py=_mk_resources)
SRES = TSeq(RES)
MAXDATA = TRec("MaxData", {"cpus": OptInt, "gpus": OptInt, "memory": OptStr, "time": OptStr, "partition": OptStr,
                           "extra_args": DSO})

CONC_IMPL.update(valid_mem=ref.valid_mem, valid_time=ref.valid_time, memsize=lambda s: float(ref.memsize(s)),
                 duration=ref.duration)


def valid_mem(S, s):
    return S.uf("valid_mem", TBool, s)


def valid_time(S, s):
    return S.uf("valid_time", TBool, s)


def memsize(S, s):
    return S.uf("memsize", TReal, s)


def duration(S, s):
    return S.uf("duration", TInt, s)


def _set(S, x):
    return S.not_(S.is_none(x))


def invalid_fields(S, f):
    """The rejection condition of the statement: non-positive counts, malformed strings, exclusive combinations."""
    pos = lambda x: S.and_(_set(S, x), lambda: S.some(x) <= 0)  # noqa: E731
    nz = lambda x: S.and_(_set(S, x), lambda: S.some(x) != 0)  # noqa: E731
    return S.or_(
        pos(f.cpus),
        S.and_(_set(S, f.gpus), lambda: S.some(f.gpus) < 0),
        pos(f.nodes), pos(f.cpus_per_node),
        S.and_(_set(S, f.memory), lambda: S.not_(valid_mem(S, S.some(f.memory)))),
        S.and_(_set(S, f.time), lambda: S.not_(valid_time(S, S.some(f.time)))),
        S.and_(nz(f.nodes), nz(f.cpus)),
        S.and_(nz(f.cpus_per_node), S.not_(nz(f.nodes))),
    )


is_valid_memory = Contract(
    f"{F}::Resources._is_valid_memory", params={"memory": TStr}, returns=TBool, static=True, trusted=True,
    ensures=lambda S, a, r, post: {"decides-valid_mem": r == valid_mem(S, a.memory)},
    note="regular-expression matching is outside the proof rung; checked on the bounded rung against the reference parser",
)
is_valid_wall_time = Contract(
    f"{F}::Resources._is_valid_wall_time", params={"time": TStr}, returns=TBool, static=True, trusted=True,
    ensures=lambda S, a, r, post: {"decides-valid_time": r == valid_time(S, a.time)},
    note="regular-expression matching is outside the proof rung; bounded against the reference parser",
)
convert_to_gb = Contract(
    f"{F}::Resources._convert_to_gb", params={"memory": TStr}, returns=TReal, static=True, trusted=True,
    raises=[("ValueError", lambda S, a: S.not_(valid_mem(S, a.memory)))],
    ensures=lambda S, a, r, post: ({"size": abs(r - memsize(S, a.memory)) <= 1e-9 * max(1.0, abs(r))} if not S.symbolic
                                   else {"size": r == memsize(S, a.memory), "non-negative": r >= 0}),
    note="float arithmetic treated as real; regex parsing bounded against the reference parser",
)
wall_time_to_seconds = Contract(
    f"{F}::Resources._wall_time_to_seconds", params={"time": TStr}, returns=TInt, static=True, trusted=True,
    requires=lambda S, a: {"valid": valid_time(S, a.time)},
    ensures=lambda S, a, r, post: {"duration": r == duration(S, a.time), "non-negative": r >= 0},
    note="str.split/int parsing outside the proof rung; bounded against the reference parser",
)

post_init = Contract(
    f"{F}::Resources.__post_init__", params={"self": RES}, returns=TNone,
    raises=[("ValueError", lambda S, a: invalid_fields(S, a.self))],
    ensures=lambda S, a, r, post: {},
)

# the dataclass-generated constructor = field assignment + __post_init__ (assumed; __post_init__ is verified above)
constructor = Contract(
    f"{F}::Resources", params=dict(FIELDS), returns=RES, trusted=True,
    defaults={"cpus": None, "cpus_per_node": None, "nodes": None, "memory": None, "gpus": None, "time": None,
              "partition": None, "extra_args": {}, "parallelization_mode": "external"},
    raises=[("ValueError", lambda S, a: invalid_fields(S, a))],
    ensures=lambda S, a, r, post: {"fields": S.and_(*[S.eq(getattr(r, f), getattr(a, f)) for f in FIELDS])},
    note="dataclass __init__ (generated code): stores the fields and runs __post_init__",
)


def _valid_res(S, r):
    return S.not_(invalid_fields(S, r))


def _dominates(S, m, r):
    """m (fields cpus/gpus/memory/time) is at least as large as operand r in every quantity r sets."""
    return S.and_(
        S.implies(_set(S, r.cpus), lambda: S.and_(_set(S, m.cpus), lambda: S.some(m.cpus) >= S.some(r.cpus))),
        S.implies(_set(S, r.gpus), lambda: S.and_(_set(S, m.gpus), lambda: S.some(m.gpus) >= S.some(r.gpus))),
        S.implies(_set(S, r.memory), lambda: S.and_(_set(S, m.memory), lambda: memsize(S, S.some(m.memory))
                                                    >= memsize(S, S.some(r.memory)))),
        S.implies(_set(S, r.time), lambda: S.and_(_set(S, m.time), lambda: duration(S, S.some(m.time))
                                                  >= duration(S, S.some(r.time)))),
    )


def _md_valid(S, m):
    return S.and_(
        S.implies(_set(S, m.cpus), lambda: S.some(m.cpus) > 0),
        S.implies(_set(S, m.gpus), lambda: S.some(m.gpus) >= 0),
        S.implies(_set(S, m.memory), lambda: valid_mem(S, S.some(m.memory))),
        S.implies(_set(S, m.time), lambda: valid_time(S, S.some(m.time))),
    )


combine_max = Contract(
    f"{F}::Resources.combine_max", params={"resources_list": SRES}, returns=RES, static=True,
    requires=lambda S, a: {"operands-valid": S.forall(0, S.len(a.resources_list),
                                                      lambda i: _valid_res(S, a.resources_list[i]))},
    ensures=lambda S, a, r, post: {
        "at-least-every-operand": S.forall(0, S.len(a.resources_list),
                                           lambda i: _dominates(S, r, a.resources_list[i])),
        "result-valid": _valid_res(S, r),
    },
    loops={
        0: LoopSpec(lambda S, a, v, k: {
            "dominates-prefix": S.forall(0, k, lambda i: _dominates(S, v.max_data, a.resources_list[i])),
            "fields-valid": _md_valid(S, v.max_data),
        }),
        1: LoopSpec(lambda S, a, v, k: {
            "only-extra_args-change": S.and_(*[S.eq(getattr(v.max_data, f), getattr(v._entry.max_data, f))
                                               for f in ("cpus", "gpus", "memory", "time", "partition")]),
        }),
    },
    locals_={"max_data": MAXDATA},
)

ALL = [is_valid_memory, is_valid_wall_time, convert_to_gb, wall_time_to_seconds, post_init, constructor, combine_max]
