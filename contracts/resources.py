"""Contracts for pipefunc/resources.py (C20)."""
from __future__ import annotations

from pyvc.engine import Contract, LoopSpec
from pyvc.spec import CONC_IMPL
from pyvc.types import TBool, TDict, TInt, TNone, TObj, TOpt, TReal, TRec, TSeq, TStr
from specs import resources_ref as ref

F = "pipefunc/resources.py"
OptInt = TOpt(TInt)
OptStr = TOpt(TStr)
DSO = TDict(TStr, TObj)

FIELDS = {"cpus": OptInt, "cpus_per_node": OptInt, "nodes": OptInt, "memory": OptStr, "gpus": OptInt, "time": OptStr,
          "partition": OptStr, "extra_args": DSO, "parallelization_mode": TStr}


def _mk_resources(d):
    from pipefunc.resources import Resources
    return Resources(**d)


RES = TRec("Resources", FIELDS, to_py=_mk_resources)
SRES = TSeq(RES)
MAXDATA = TRec("MaxData", {"cpus": OptInt, "gpus": OptInt, "memory": OptStr, "time": OptStr, "partition": OptStr,
                           "extra_args": DSO})

CONC_IMPL.update(valid_mem=ref.valid_mem, valid_time=ref.valid_time, memsize=lambda s: float(ref.memsize(s)),
                 duration=ref.duration)


def valid_mem(S, s):
    return S.uf("valid_mem", TBool, s)


def valid_time(S, s):
    return S.uf("valid_time", TBool, s)


def memsize(S, s):
    return S.uf("memsize", TReal, s)


def duration(S, s):
    return S.uf("duration", TInt, s)


def _set(S, x):
    return S.not_(S.is_none(x))


def invalid_fields(S, f):
    """The rejection condition of the statement: non-positive counts, malformed strings, exclusive combinations."""
    pos = lambda x: S.and_(_set(S, x), lambda: S.some(x) <= 0)  # noqa: E731
    nz = lambda x: S.and_(_set(S, x), lambda: S.some(x) != 0)  # noqa: E731
    return S.or_(
        pos(f.cpus),
        S.and_(_set(S, f.gpus), lambda: S.some(f.gpus) < 0),
        pos(f.nodes), pos(f.cpus_per_node),
        S.and_(_set(S, f.memory), lambda: S.not_(valid_mem(S, S.some(f.memory)))),
        S.and_(_set(S, f.time), lambda: S.not_(valid_time(S, S.some(f.time)))),
        S.and_(nz(f.nodes), nz(f.cpus)),
        S.and_(nz(f.cpus_per_node), S.not_(nz(f.nodes))),
    )


is_valid_memory = Contract(
    f"{F}::Resources._is_valid_memory", params={"memory": TStr}, returns=TBool, static=True, trusted=True,
    ensures=lambda S, a, r, post: {"decides-valid_mem": r == valid_mem(S, a.memory)},
    note="regular-expression matching is outside the proof rung; checked on the bounded rung against the reference parser",
)
is_valid_wall_time = Contract(
    f"{F}::Resources._is_valid_wall_time", params={"time": TStr}, returns=TBool, static=True, trusted=True,
    ensures=lambda S, a, r, post: {"decides-valid_time": r == valid_time(S, a.time)},
    note="regular-expression matching is outside the proof rung; bounded against the reference parser",
)
convert_to_gb = Contract(
    f"{F}::Resources._convert_to_gb", params={"memory": TStr}, returns=TReal, static=True, trusted=True,
    raises=[("ValueError", lambda S, a: S.not_(valid_mem(S, a.memory)))],
    ensures=lambda S, a, r, post: ({"size": abs(r - memsize(S, a.memory)) <= 1e-9 * max(1.0, abs(r))} if not S.symbolic
                                   else {"size": r == memsize(S, a.memory), "non-negative": r >= 0}),
    note="float arithmetic treated as real; regex parsing bounded against the reference parser",
)
wall_time_to_seconds = Contract(
    f"{F}::Resources._wall_time_to_seconds", params={"time": TStr}, returns=TInt, static=True, trusted=True,
    requires=lambda S, a: {"valid": valid_time(S, a.time)},
    ensures=lambda S, a, r, post: {"duration": r == duration(S, a.time), "non-negative": r >= 0},
    note="str.split/int parsing outside the proof rung; bounded against the reference parser",
)

post_init = Contract(
    f"{F}::Resources.__post_init__", params={"self": RES}, returns=TNone,
    raises=[("ValueError", lambda S, a: invalid_fields(S, a.self))],
    ensures=lambda S, a, r, post: {},
)

# the dataclass-generated constructor = field assignment + __post_init__ (assumed; __post_init__ is verified above)
constructor = Contract(
    f"{F}::Resources", params=dict(FIELDS), returns=RES, trusted=True,
    defaults={"cpus": None, "cpus_per_node": None, "nodes": None, "memory": None, "gpus": None, "time": None,
              "partition": None, "extra_args": {}, "parallelization_mode": "external"},
    raises=[("ValueError", lambda S, a: invalid_fields(S, a))],
    ensures=lambda S, a, r, post: {"fields": S.and_(*[S.eq(getattr(r, f), getattr(a, f)) for f in FIELDS])},
    note="dataclass __init__ (generated code): stores the fields and runs __post_init__",
)


def _valid_res(S, r):
    return S.not_(invalid_fields(S, r))


def _dominates(S, m, r):
    """m (fields cpus/gpus/memory/time) is at least as large as operand r in every quantity r sets."""
    return S.and_(
        S.implies(_set(S, r.cpus), lambda: S.and_(_set(S, m.cpus), lambda: S.some(m.cpus) >= S.some(r.cpus))),
        S.implies(_set(S, r.gpus), lambda: S.and_(_set(S, m.gpus), lambda: S.some(m.gpus) >= S.some(r.gpus))),
        S.implies(_set(S, r.memory), lambda: S.and_(_set(S, m.memory), lambda: memsize(S, S.some(m.memory))
                                                    >= memsize(S, S.some(r.memory)))),
        S.implies(_set(S, r.time), lambda: S.and_(_set(S, m.time), lambda: duration(S, S.some(m.time))
                                                  >= duration(S, S.some(r.time)))),
    )


def _md_valid(S, m):
    return S.and_(
        S.implies(_set(S, m.cpus), lambda: S.some(m.cpus) > 0),
        S.implies(_set(S, m.gpus), lambda: S.some(m.gpus) >= 0),
        S.implies(_set(S, m.memory), lambda: valid_mem(S, S.some(m.memory))),
        S.implies(_set(S, m.time), lambda: valid_time(S, S.some(m.time))),
    )


combine_max = Contract(
    f"{F}::Resources.combine_max", params={"resources_list": SRES}, returns=RES, static=True,
    requires=lambda S, a: {"operands-valid": S.forall(0, S.len(a.resources_list),
                                                      lambda i: _valid_res(S, a.resources_list[i]))},
    ensures=lambda S, a, r, post: {
        "at-least-every-operand": S.forall(0, S.len(a.resources_list),
                                           lambda i: _dominates(S, r, a.resources_list[i])),
        "result-valid": _valid_res(S, r),
    },
    loops={
        0: LoopSpec(lambda S, a, v, k: {
            "dominates-prefix": S.forall(0, k, lambda i: _dominates(S, v.max_data, a.resources_list[i])),
            "fields-valid": _md_valid(S, v.max_data),
        }),
        1: LoopSpec(lambda S, a, v, k: {
            "only-extra_args-change": S.and_(*[S.eq(getattr(v.max_data, f), getattr(v._entry.max_data, f))
                                               for f in ("cpus", "gpus", "memory", "time", "partition")]),
        }),
    },
    locals_={"max_data": MAXDATA},
)

ALL = [is_valid_memory, is_valid_wall_time, convert_to_gb, wall_time_to_seconds, post_init, constructor, combine_max]


# ---- resources that are only known at run time (a callable) combined with defaults ------------------------------------------
# _delayed_resources_with_defaults(kwargs, *, _resources, _default_resources): exactly what the eager path does, applied to
# the Resources the callable returns for these keyword arguments.  Resources objects are opaque here; with_defaults
# itself (dataclass plumbing: asdict / **dict) is an assumed pure function whose content is C20's bounded check.
ResObjV = TRec("ResourcesObj", {"rid": TObj})
ResFnV = TRec("ResourcesFn", {"fid": TObj})


class _ResFn:
    """The callable of the bounded rung: returns a fixed Resources, whatever the keyword arguments."""

    def __init__(self, res):
        self.res, self.fid = res, id(res)

    def __call__(self, kwargs):
        return self.res

    def __deepcopy__(self, memo):
        return self


resfn_call = Contract(
    f"{F}::ResourcesFn.__call__", params={"self": ResFnV, "kwargs": DSO}, returns=ResObjV, trusted=True, pure=True,
    note="the user's resources callable: deterministic in the keyword arguments")
resobj_with_defaults = Contract(
    f"{F}::ResourcesObj.with_defaults", params={"self": ResObjV, "default_resources": ResObjV}, returns=ResObjV, trusted=True,
    pure=True, note="Resources.with_defaults (eager path): assumed deterministic here; what it computes is C20's bounded check")


def _wd(S, r, d):
    return S.uf("fn:ResourcesObj.with_defaults", ResObjV, r, d) if S.symbolic else r.with_defaults(d)


def _call(S, f, kw):
    return S.uf("fn:ResourcesFn.__call__", ResObjV, f, kw) if S.symbolic else f(kw)


delayed_with_defaults = Contract(
    f"{F}::_delayed_resources_with_defaults",
    params={"kwargs": DSO, "_resources": ResFnV, "_default_resources": ResObjV}, returns=ResObjV,
    ensures=lambda S, a, r, post: {
        "the Resources the callable returns for these arguments, combined with the defaults exactly as in the eager path":
            S.eq(r, _wd(S, _call(S, a._resources, a.kwargs), a._default_resources)),
    },
)
DELAYED = [resfn_call, resobj_with_defaults, delayed_with_defaults]


def delayed_gen(rng, tier):
    from pipefunc.resources import Resources
    def res():
        kw = {}
        if rng.random() < 0.6:
            kw["cpus"] = rng.choice((1, 2, 8))
        if rng.random() < 0.6:
            kw["gpus"] = rng.choice((0, 0, 1, 3))
        if rng.random() < 0.5:
            kw["memory"] = rng.choice(("1GB", "500MB"))
        if rng.random() < 0.3:
            kw["extra_args"] = {"qos": "x"}
        return Resources(**kw)
    for _ in range(300 if tier == "quick" else 3000):
        yield {"kwargs": {"x": 1}, "_resources": _ResFn(res()), "_default_resources": res()}


def delayed_call(fn, a):
    return fn(a["kwargs"], _resources=a["_resources"], _default_resources=a["_default_resources"])
