"""Contracts for pipefunc/cache.py (C14): LRUCache, SimpleCache, HybridCache in non-shared mode.

Abstract view of an LRUCache: the recency-ordered queue of keys plus the key->value map.  Representation invariant
`wf` (ghost position witness `pos`, DESIGN 2.1.3): the queue is duplicate-free, enumerates exactly the keys of the dict,
and is no longer than max_size.  Every public operation requires wf and ensures wf plus a postcondition over the
*whole* view (all other entries unchanged), and no operation raises.
"""
from __future__ import annotations

import z3

from pyvc.engine import Contract, LoopSpec
from pyvc.types import TBool, TDict, TInt, TNone, TObj, TOpaque, TOpt, TReal, TRec, TSeq, fresh_name
from vf.driver import ProofItem

F = "pipefunc/cache.py"
TLock = TOpaque("Lock")
OptObj = TOpt(TObj)
DOO = TDict(TObj, OptObj)  # cached values may be None
SO = TSeq(TObj)

LRU = TRec("LRUCache", {"max_size": TInt, "shared": TBool, "_allow_cloudpickle": TBool, "_cache_dict": DOO,
                        "_cache_queue": SO, "_cache_lock": TLock})

_POS = z3.Function("lru_pos", LRU.sort(), TObj.sort(), z3.IntSort())  # ghost: position of a key in the queue


def _q(S, c):
    return c._cache_queue


def lru_wf(S, c, pos=None):
    """Representation invariant.  `pos(k)`: ghost position witness."""
    if not S.symbolic:
        q, d = list(c._cache_queue), c._cache_dict
        return {"wf": len(q) == len(set(q)) == len(d) and set(q) == set(d.keys()) and len(q) <= c.max_size
                and c.max_size >= 1 and not c.shared}
    q, d = c._cache_queue, c._cache_dict
    n = S.len(q)
    pos = pos or (lambda k: _POS(_rec_term(c), k))
    return {
        "non-shared": S.not_(c.shared),
        "size": S.and_(n == S.len(d), n <= c.max_size, c.max_size >= 1),
        "queue-in-dom": S.forall(0, n, lambda i: S.and_(S.has(d, q[i]), pos(_t(q[i])) == i),
                                 pattern=lambda i: _sel(q, i)),
        "dom-in-queue": S.forall_key(TObj, lambda k: S.implies(S.has(d, k), S.and_(0 <= pos(_t(k)), pos(_t(k)) < n,
                                                                                    S.eq(q[pos(_t(k))], k))),
                                     pattern=lambda k: [pos(_t(k)), S.has(d, k)]),
    }


def _t(x):
    return x.t if hasattr(x, "t") else x


def _sel(q, i):
    return z3.Select(q.ty.arr(q.t), i)


def _rec_term(c):
    # the namespace object handed to contracts is a Val for records
    return c.t


def _fresh_pos():
    return z3.Function(fresh_name("pos1"), TObj.sort(), z3.IntSort())


def _same_elsewhere(S, d0, d1, *changed):
    return S.forall_key(TObj, lambda k: S.implies(S.and_(*[S.not_(S.eq(k, c)) for c in changed]),
                                                  S.and_(S.has(d1, k) == S.has(d0, k),
                                                         S.implies(S.has(d0, k), lambda: S.eq(d1[k], d0[k])))))


def _conc_view(c):
    return [(k, c._cache_dict[k]) for k in c._cache_queue]


def lru_put_ensures(S, a, r, post):
    c0, c1 = a.self, post.self
    if not S.symbolic:
        v0 = _conc_view(c0)
        keys0 = [k for k, _ in v0]
        if a.key in keys0:
            want = [(k, v) for k, v in v0 if k != a.key] + [(a.key, a.value)]
        elif len(v0) < c0.max_size:
            want = v0 + [(a.key, a.value)]
        else:
            want = v0[1:] + [(a.key, a.value)]
        return {"view": _conc_view(c1) == want, **lru_wf(S, c1)}
    q0, d0, q1, d1 = c0._cache_queue, c0._cache_dict, c1._cache_queue, c1._cache_dict
    n = S.len(q0)
    k, v = a.key, a.value
    p = _POS(c0.t, _t(k))
    resident = S.has(d0, k)
    full = n >= c0.max_size
    pos1 = _fresh_pos()
    # witness for the new position function (definitional: the goal is "exists pos'. wf'")
    i_ = z3.Const(fresh_name("x"), TObj.sort())
    old = _POS(c0.t, i_)
    defn = z3.ForAll([i_], pos1(i_) == z3.If(i_ == _t(k), z3.If(resident, n - 1, z3.If(full, n - 1, n)),
                                             z3.If(resident, z3.If(old > p, old - 1, old),
                                                   z3.If(full, old - 1, old))), patterns=[pos1(i_)])
    wf1 = lru_wf(S, c1, pos=lambda x: pos1(x))
    out = {
        "frame-config": S.and_(c1.max_size == c0.max_size, c1.shared == c0.shared),
        "value-stored": S.and_(S.has(d1, k), S.eq(d1[k], v)),
        "resident: moved to back, nothing evicted": S.implies(resident, S.and_(
            S.len(q1) == n, S.eq(q1[n - 1], k),
            S.forall(0, n - 1, lambda i: S.eq(q1[i], S.ite(i < p, q0[i], q0[i + 1]))),
            _same_elsewhere(S, d0, d1, k))),
        "new, not full: appended": S.implies(S.and_(S.not_(resident), S.not_(full)), S.and_(
            S.len(q1) == n + 1, S.eq(q1[n], k), S.forall(0, n, lambda i: S.eq(q1[i], q0[i])),
            _same_elsewhere(S, d0, d1, k))),
        "new, full: least recently used evicted": S.implies(S.and_(S.not_(resident), full), S.and_(
            S.len(q1) == n, S.eq(q1[n - 1], k), S.forall(0, n - 1, lambda i: S.eq(q1[i], q0[i + 1])),
            S.not_(S.has(d1, q0[0])), _same_elsewhere(S, d0, d1, k, q0[0]))),
    }
    for name, cl in wf1.items():
        out["wf':" + name] = z3.Implies(defn, cl)
    return out


lru_put = Contract(
    f"{F}::LRUCache.put", params={"self": LRU, "key": TObj, "value": OptObj}, returns=TNone, modifies=("self",),
    requires=lambda S, a: lru_wf(S, a.self), ensures=lru_put_ensures, pure=False,
)


def lru_get_ensures(S, a, r, post):
    c0, c1 = a.self, post.self
    if not S.symbolic:
        v0 = _conc_view(c0)
        if a.key in c0._cache_dict:
            want = [(k, v) for k, v in v0 if k != a.key] + [(a.key, c0._cache_dict[a.key])]
            return {"value": r == c0._cache_dict[a.key], "view": _conc_view(c1) == want, **lru_wf(S, c1)}
        return {"value": r is None, "view": _conc_view(c1) == v0, **lru_wf(S, c1)}
    q0, d0, q1, d1 = c0._cache_queue, c0._cache_dict, c1._cache_queue, c1._cache_dict
    n = S.len(q0)
    k = a.key
    p = _POS(c0.t, _t(k))
    resident = S.has(d0, k)
    pos1 = _fresh_pos()
    i_ = z3.Const(fresh_name("x"), TObj.sort())
    old = _POS(c0.t, i_)
    defn = z3.ForAll([i_], pos1(i_) == z3.If(resident, z3.If(i_ == _t(k), n - 1, z3.If(old > p, old - 1, old)), old),
                     patterns=[pos1(i_)])
    wf1 = lru_wf(S, c1, pos=lambda x: pos1(x))
    out = {
        "frame-config": S.and_(c1.max_size == c0.max_size, c1.shared == c0.shared),
        "absent: None and unchanged": S.implies(S.not_(resident), S.and_(
            S.is_none(r), S.len(q1) == n, S.forall(0, n, lambda i: S.eq(q1[i], q0[i])), _same_elsewhere(S, d0, d1))),
        "resident: value, moved to back": S.implies(resident, S.and_(
            S.eq(r, d0[k]), S.len(q1) == n, S.eq(q1[n - 1], k),
            S.forall(0, n - 1, lambda i: S.eq(q1[i], S.ite(i < p, q0[i], q0[i + 1]))), _same_elsewhere(S, d0, d1))),
    }
    for name, cl in wf1.items():
        out["wf':" + name] = z3.Implies(defn, cl)
    return out


lru_get = Contract(
    f"{F}::LRUCache.get", params={"self": LRU, "key": TObj}, returns=OptObj, modifies=("self",),
    requires=lambda S, a: lru_wf(S, a.self), ensures=lru_get_ensures, pure=False,
)

lru_contains = Contract(
    f"{F}::LRUCache.__contains__", params={"self": LRU, "key": TObj}, returns=TBool,
    requires=lambda S, a: lru_wf(S, a.self),
    ensures=lambda S, a, r, post: {"present-iff-in-view": r == S.has(a.self._cache_dict, a.key)},
)

lru_len = Contract(
    f"{F}::LRUCache.__len__", params={"self": LRU}, returns=TInt,
    requires=lambda S, a: lru_wf(S, a.self),
    ensures=lambda S, a, r, post: {"len-is-view-size": r == S.len(a.self._cache_queue),
                                   "len<=max_size": r <= a.self.max_size},
)


def lru_clear_ensures(S, a, r, post):
    c1 = post.self
    if not S.symbolic:
        return {"empty": len(c1._cache_dict) == 0 and len(c1._cache_queue) == 0}
    return {"empty-queue": S.len(c1._cache_queue) == 0, "empty-dict": S.len(c1._cache_dict) == 0,
            "nothing-present": S.forall_key(TObj, lambda k: S.not_(S.has(c1._cache_dict, k))),
            "frame-config": S.and_(c1.max_size == a.self.max_size, c1.shared == a.self.shared)}


lru_clear = Contract(
    f"{F}::LRUCache.clear", params={"self": LRU}, returns=TNone, modifies=("self",), pure=False,
    requires=lambda S, a: lru_wf(S, a.self), ensures=lru_clear_ensures,
    loops={0: LoopSpec(lambda S, a, v, k: {
        # after k iterations exactly the first k keys of the snapshot are gone
        "removed-prefix": S.forall(0, k, lambda i: S.not_(S.has(v.self._cache_dict, v.keys[i]))),
        "rest-present": S.forall(k, S.len(v.keys), lambda i: S.has(v.self._cache_dict, v.keys[i])),
        "size": S.len(v.self._cache_dict) == S.len(v.keys) - k,
        "only-snapshot-keys": S.forall_key(TObj, lambda x: S.implies(S.has(v.self._cache_dict, x),
                                                                    S.has(a.self._cache_dict, x))),
        "frame": S.and_(v.self.max_size == a.self.max_size, v.self.shared == a.self.shared,
                        S.eq(v.self._cache_queue, a.self._cache_queue)),
    })},
)

# ---- SimpleCache ------------------------------------------------------------------------------------------
SIMPLE = TRec("SimpleCache", {"_cache_dict": DOO})

simple_put = Contract(
    f"{F}::SimpleCache.put", params={"self": SIMPLE, "key": TObj, "value": OptObj}, returns=TNone, modifies=("self",),
    pure=False,
    ensures=lambda S, a, r, post: (
        {"stored": post.self._cache_dict.get(a.key, object()) == a.value and
         {k: v for k, v in post.self._cache_dict.items() if k != a.key} ==
         {k: v for k, v in a.self._cache_dict.items() if k != a.key}} if not S.symbolic else
        {"stored": S.and_(S.has(post.self._cache_dict, a.key), S.eq(post.self._cache_dict[a.key], a.value)),
         "others-unchanged": _same_elsewhere(S, a.self._cache_dict, post.self._cache_dict, a.key)}),
)
simple_get = Contract(
    f"{F}::SimpleCache.get", params={"self": SIMPLE, "key": TObj}, returns=OptObj,
    ensures=lambda S, a, r, post: (
        {"value": r == a.self._cache_dict.get(a.key)} if not S.symbolic else
        {"present": S.implies(S.has(a.self._cache_dict, a.key), S.eq(r, a.self._cache_dict[a.key])),
         "absent": S.implies(S.not_(S.has(a.self._cache_dict, a.key)), S.is_none(r))}),
)
simple_contains = Contract(
    f"{F}::SimpleCache.__contains__", params={"self": SIMPLE, "key": TObj}, returns=TBool,
    ensures=lambda S, a, r, post: {"iff": r == S.has(a.self._cache_dict, a.key)},
)
simple_len = Contract(
    f"{F}::SimpleCache.__len__", params={"self": SIMPLE}, returns=TInt,
    ensures=lambda S, a, r, post: {"len": r == S.len(a.self._cache_dict)},
)

ALL = [lru_put, lru_get, lru_contains, lru_len, lru_clear, simple_put, simple_get, simple_contains, simple_len]


# ---- bounded evaluation of the same contracts on real objects -------------------------------------------------
def _mk_lru(state):
    from pipefunc.cache import LRUCache
    c = LRUCache(max_size=state["max_size"], shared=False)
    for k, v in state["view"]:
        c._cache_dict[k] = v
        c._cache_queue.append(k)
    return c


def _lru_gen(with_value):
    def gen(rng, tier):
        import itertools
        keys = ("a", "b", "c")
        for ms in (1, 2, 3):
            for n in range(0, ms + 1):
                for perm in itertools.permutations(keys, n):
                    view = [(k, None if (k == "a" and ms > 1) else f"v_{k}") for k in perm]
                    for k in keys:
                        d = {"self": _mk_lru({"max_size": ms, "view": view}), "key": k}
                        if with_value:
                            for val in ("new", None):
                                yield {**d, "self": _mk_lru({"max_size": ms, "view": view}), "value": val}
                        else:
                            yield d
    return gen


def _lru_gen_noarg(rng, tier):
    for case in _lru_gen(False)(rng, tier):
        yield {"self": case["self"]}


def _mk_simple(d):
    from pipefunc.cache import SimpleCache
    c = SimpleCache()
    c._cache_dict.update(d)
    return c


def _simple_gen(with_key, with_value):
    def gen(rng, tier):
        for d in ({}, {"a": 1}, {"a": 1, "b": None}, {"b": 2, "c": 3, "a": 4}):
            if not with_key:
                yield {"self": _mk_simple(d)}
                continue
            for k in ("a", "b", "z"):
                case = {"self": _mk_simple(d), "key": k}
                if with_value:
                    case["value"] = "new"
                yield case
    return gen


def _call_method(name):
    def call(fn, a):
        a = dict(a)
        self = a.pop("self")
        return getattr(type(self), name)(self, **a)
    return call


def proof_items():
    return [
        ProofItem(lru_put, gen=_lru_gen(True)),
        ProofItem(lru_get, gen=_lru_gen(False)),
        ProofItem(lru_contains, gen=_lru_gen(False)),
        ProofItem(lru_len, gen=_lru_gen_noarg),
        ProofItem(lru_clear, gen=_lru_gen_noarg),
        ProofItem(simple_put, gen=_simple_gen(True, True)),
        ProofItem(simple_get, gen=_simple_gen(True, False)),
        ProofItem(simple_contains, gen=_simple_gen(True, False)),
        ProofItem(simple_len, gen=_simple_gen(False, False)),
    ]


# ---- HybridCache (non-shared) ---------------------------------------------------------------------------------
DOI = TDict(TObj, TInt)
DOR = TDict(TObj, TReal)
HYB = TRec("HybridCache", {"max_size": TInt, "access_weight": TReal, "duration_weight": TReal, "shared": TBool,
                           "_allow_cloudpickle": TBool, "_cache_dict": DOO, "_access_counts": DOI,
                           "_computation_durations": DOR, "_cache_lock": TLock})
_VICTIM = z3.Function("hybrid_victim", HYB.sort(), TObj.sort())  # ghost: the key _expire removes


def hyb_wf(S, c):
    if not S.symbolic:
        return {"wf": set(c._cache_dict) == set(c._access_counts) == set(c._computation_durations)
                and len(c._cache_dict) <= c.max_size and c.max_size >= 1 and not c.shared
                and all(v >= 1 for v in c._access_counts.values())}
    d, ac, du = c._cache_dict, c._access_counts, c._computation_durations
    return {
        "non-shared": S.not_(c.shared),
        "size": S.and_(S.len(d) <= c.max_size, c.max_size >= 1, S.len(d) == S.len(ac), S.len(d) == S.len(du),
                       S.len(d) >= 0),
        "same-domains": S.forall_key(TObj, lambda k: S.and_(S.has(ac, k) == S.has(d, k), S.has(du, k) == S.has(d, k))),
        "counts>=1": S.forall_key(TObj, lambda k: S.implies(S.has(ac, k), lambda: ac[k] >= 1)),
    }


def _hyb_frame(S, c0, c1):
    return S.and_(c1.max_size == c0.max_size, c1.shared == c0.shared, c1.access_weight == c0.access_weight,
                  c1.duration_weight == c0.duration_weight, c1._allow_cloudpickle == c0._allow_cloudpickle)


def _dict_minus(S, d0, d1, e):
    """d1 = d0 without key e."""
    return S.and_(S.not_(S.has(d1, e)), S.len(d1) == S.len(d0) - 1,
                  S.forall_key(TObj, lambda k: S.implies(S.not_(S.eq(k, e)), S.and_(
                      S.has(d1, k) == S.has(d0, k), S.implies(S.has(d0, k), lambda: S.eq(d1[k], d0[k]))))))


def hyb_expire_ensures(S, a, r, post):
    c0, c1 = a.self, post.self
    if not S.symbolic:
        gone = set(c0._cache_dict) - set(c1._cache_dict)
        ok = len(gone) == 1
        if ok:
            (e,) = gone
            from specs.cache_models import HybridModel
            m = HybridModel(c0.max_size, c0.access_weight, c0.duration_weight)
            m.val, m.cnt, m.dur = dict(c0._cache_dict), dict(c0._access_counts), dict(c0._computation_durations)
            ok = e in m.victims()
            rest = {k for k in c0._cache_dict if k != e}
            ok = ok and all(c1._cache_dict[k] == c0._cache_dict[k] and c1._access_counts[k] == c0._access_counts[k]
                            and c1._computation_durations[k] == c0._computation_durations[k] for k in rest)
            ok = ok and set(c1._access_counts) == rest and set(c1._computation_durations) == rest
        return {"evicts-one-lowest-score-entry": ok}
    e = _VICTIM(c0.t)
    return {"victim-was-resident": S.has(c0._cache_dict, e),
            "removed-from-cache": _dict_minus(S, c0._cache_dict, c1._cache_dict, e),
            "removed-from-counts": _dict_minus(S, c0._access_counts, c1._access_counts, e),
            "removed-from-durations": _dict_minus(S, c0._computation_durations, c1._computation_durations, e),
            "frame": _hyb_frame(S, c0, c1)}


hyb_expire = Contract(
    f"{F}::HybridCache._expire", params={"self": HYB}, returns=TNone, modifies=("self",), pure=False,
    requires=lambda S, a: {**hyb_wf(S, a.self), "non-empty": S.len(a.self._cache_dict) >= 1},
    ensures=hyb_expire_ensures, trusted=True,
    note="assumed at the call in HybridCache.put; the body (sums, float division, min with key=) is outside the proof "
         "rung and is checked on the bounded rung against the score model, incl. zero total duration",
)


def hyb_put_ensures(S, a, r, post):
    c0, c1 = a.self, post.self
    if not S.symbolic:
        d1 = c1._cache_dict
        return {"stored": a.key in d1 and d1[a.key] == a.value and c1._access_counts[a.key] == 1
                and c1._computation_durations[a.key] == a.duration, **hyb_wf(S, c1),
                "at-most-one-evicted": len(set(c0._cache_dict) - set(d1)) <= 1,
                "no-eviction-when-not-full": len(c0._cache_dict) >= c0.max_size or
                set(c0._cache_dict) <= set(d1)}
    d1 = c1._cache_dict
    k = a.key
    out = {"stored": S.and_(S.has(d1, k), S.eq(d1[k], a.value), S.has(c1._access_counts, k),
                            c1._access_counts[k] == 1, S.has(c1._computation_durations, k),
                            c1._computation_durations[k] == a.duration),
           "frame": _hyb_frame(S, c0, c1),
           "no-eviction-when-not-full": S.implies(S.len(c0._cache_dict) < c0.max_size, S.forall_key(
               TObj, lambda x: S.implies(S.has(c0._cache_dict, x), S.has(d1, x)))),
           "others-keep-their-value": S.forall_key(TObj, lambda x: S.implies(
               S.and_(S.has(d1, x), S.not_(S.eq(x, k))), lambda: S.and_(S.has(c0._cache_dict, x),
                                                                       S.eq(d1[x], c0._cache_dict[x]))))}
    for n_, cl in hyb_wf(S, c1).items():
        out["wf':" + n_] = cl
    return out


hyb_put = Contract(
    f"{F}::HybridCache.put", params={"self": HYB, "key": TObj, "value": OptObj, "duration": TReal}, returns=TNone,
    modifies=("self",), pure=False, requires=lambda S, a: hyb_wf(S, a.self), ensures=hyb_put_ensures,
)


def hyb_get_ensures(S, a, r, post):
    c0, c1 = a.self, post.self
    if not S.symbolic:
        if a.key in c0._cache_dict:
            return {"value": r == c0._cache_dict[a.key],
                    "count+1": c1._access_counts[a.key] == c0._access_counts[a.key] + 1,
                    "rest": c1._cache_dict == c0._cache_dict and c1._computation_durations == c0._computation_durations}
        return {"none": r is None, "unchanged": c1._cache_dict == c0._cache_dict and
                c1._access_counts == c0._access_counts}
    k = a.key
    res = S.has(c0._cache_dict, k)
    out = {"absent": S.implies(S.not_(res), S.and_(S.is_none(r), S.eq(c1, c0))),
           "resident": S.implies(res, S.and_(S.eq(r, c0._cache_dict[k]), S.has(c1._access_counts, k),
                                             c1._access_counts[k] == c0._access_counts[k] + 1,
                                             S.eq(c1._cache_dict, c0._cache_dict),
                                             S.eq(c1._computation_durations, c0._computation_durations))),
           "frame": _hyb_frame(S, c0, c1)}
    for n_, cl in hyb_wf(S, c1).items():
        out["wf':" + n_] = cl
    return out


hyb_get = Contract(
    f"{F}::HybridCache.get", params={"self": HYB, "key": TObj}, returns=OptObj, modifies=("self",), pure=False,
    requires=lambda S, a: hyb_wf(S, a.self), ensures=hyb_get_ensures,
)
hyb_contains = Contract(
    f"{F}::HybridCache.__contains__", params={"self": HYB, "key": TObj}, returns=TBool,
    requires=lambda S, a: hyb_wf(S, a.self),
    ensures=lambda S, a, r, post: {"iff": r == S.has(a.self._cache_dict, a.key)},
)
hyb_len = Contract(
    f"{F}::HybridCache.__len__", params={"self": HYB}, returns=TInt, requires=lambda S, a: hyb_wf(S, a.self),
    ensures=lambda S, a, r, post: {"len": r == S.len(a.self._cache_dict), "len<=max_size": r <= a.self.max_size},
)



def hyb_clear_ensures(S, a, r, post):
    c1 = post.self
    if not S.symbolic:
        return {"everything is gone: values, access counts and computation durations": len(c1._cache_dict) == 0
                and len(c1._access_counts) == 0 and len(c1._computation_durations) == 0}
    out = {"no value, no access count and no computation duration remains (a later eviction scores only what is resident)":
           S.and_(S.len(c1._cache_dict) == 0, S.len(c1._access_counts) == 0, S.len(c1._computation_durations) == 0,
                  lambda: S.forall_key(TObj, lambda k: S.and_(S.not_(S.has(c1._cache_dict, k)), S.not_(S.has(c1._access_counts, k)),
                                                               S.not_(S.has(c1._computation_durations, k))))),
           "configuration unchanged": _hyb_frame(S, a.self, c1)}
    for name, cl in hyb_wf(S, c1).items():
        out[f"still well-formed: {name}"] = cl
    return out


hyb_clear = Contract(
    f"{F}::HybridCache.clear", params={"self": HYB}, returns=TNone, modifies=("self",), pure=False,
    requires=lambda S, a: hyb_wf(S, a.self), ensures=hyb_clear_ensures,
)
ALL += [hyb_expire, hyb_put, hyb_get, hyb_contains, hyb_len, hyb_clear]


def _mk_hyb(ms, entries):
    from pipefunc.cache import HybridCache
    c = HybridCache(max_size=ms, shared=False)
    for k, (v, n, d) in entries.items():
        c._cache_dict[k] = v
        c._access_counts[k] = n
        c._computation_durations[k] = d
    return c


def _hyb_gen(kind):
    def gen(rng, tier):
        import itertools
        keys = ("a", "b", "c")
        for ms in (1, 2, 3):
            for n in range(0, ms + 1):
                for ks in itertools.combinations(keys, n):
                    for _ in range(6):
                        ent = {k: (None if rng.random() < 0.2 else f"v{k}", rng.choice((1, 1, 2, 5)),
                                   rng.choice((0.0, 0.0, 1.0, 2.5))) for k in ks}
                        if kind == "expire":
                            if ent:
                                yield {"self": _mk_hyb(ms, ent)}
                        elif kind == "noarg":
                            yield {"self": _mk_hyb(ms, ent)}
                        else:
                            for k in keys:
                                case = {"self": _mk_hyb(ms, ent), "key": k}
                                if kind == "put":
                                    case.update(value=rng.choice(("new", None)), duration=rng.choice((0.0, 1.0, 4.0)))
                                yield case
    return gen


_lru_items = proof_items


def proof_items():  # noqa: F811
    return _lru_items() + [
        ProofItem(hyb_expire, gen=_hyb_gen("expire"), bounded_only=True,
                  why_bounded="sums over dict values, float division and min(key=lambda) are outside the engine's subset"),
        ProofItem(hyb_put, gen=_hyb_gen("put")),
        ProofItem(hyb_get, gen=_hyb_gen("get")),
        ProofItem(hyb_contains, gen=_hyb_gen("get")),
        ProofItem(hyb_len, gen=_hyb_gen("noarg")),
        ProofItem(hyb_clear, gen=_hyb_gen("noarg")),
    ]
