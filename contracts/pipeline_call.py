"""Contracts for the call path of pipefunc/_pipeline/_base.py (C02, C18): how the result of a function is entered
into the results of one evaluation - routed by output name through the function's output_picker."""
from __future__ import annotations

from pyvc.engine import Contract, LoopSpec
from pyvc.types import TBool, TDict, TObj, TRec, TSeq, TStr

from .misc import TOut

F = "pipefunc/_pipeline/_base.py"
SS = TSeq(TStr)
DRes = TDict(TOut, TObj)
PipeFuncOutView = TRec("PipeFuncOutView", {"output_name": TOut, "output_picker": TObj})


class _PF:
    """The two attributes of a PipeFunc that _update_all_results reads (real objects on the bounded rung)."""

    def __init__(self, output_name, picker):
        self.output_name, self.output_picker = output_name, picker


def tagging_picker(r, name):
    return ("picked", r, name)


picker = Contract(
    f"{F}::PipeFuncOutView.output_picker", params={"self": PipeFuncOutView, "output": TObj, "name": TStr}, returns=TObj,
    trusted=True, pure=True, note="the function's output_picker: deterministic in (result, name); user code",
)
lazy_node = Contract(
    f"{F}::_LazyFunction", params={"func": TObj, "args": TSeq(TObj)}, returns=TObj, trusted=True, pure=True,
    note="constructor of a deferred call; its evaluation is the contract of _LazyFunction.evaluate (C18)",
)


def _pick(S, a, name):
    if S.symbolic:
        return S.uf("fn:PipeFuncOutView.output_picker", TObj, a.func, a.r, name)
    return a.func.output_picker(a.r, name)


def _is_multi_single(S, a):
    return S.and_(S.is_tag(a.func.output_name, "tuple"), S.not_(S.is_tag(a.output_name, "tuple")))


def _uar_ensures(S, a, r, post):
    R0, R1 = a.all_results, post.all_results
    names = S.untag(a.func.output_name, "tuple")
    key = lambda n: S.inject(TOut, "str", n)  # noqa: E731
    one_of = lambda k: S.and_(S.is_tag(k, "str"), lambda: S.contains(names, S.untag(k, "str")))  # noqa: E731
    return {
        "tuple output, one element requested: every element is entered under its own name, picked by that name":
            S.implies(S.and_(_is_multi_single(S, a), S.not_(a.lazy)), lambda: S.and_(
                S.forall(0, S.len(names), lambda i: S.and_(S.has(R1, key(names[i])), lambda: S.eq(
                    R1[key(names[i])], _pick(S, a, names[i])))),
                lambda: S.forall_key(TOut, lambda k: S.implies(S.not_(one_of(k)), lambda: S.and_(
                    S.has(R1, k) == S.has(R0, k), lambda: S.implies(S.has(R0, k), lambda: S.eq(R1[k], R0[k])))),
                    domain=() if S.symbolic else list(R0) + list(R1)))),
        "otherwise the result is entered whole under the function's output name": S.implies(
            S.not_(_is_multi_single(S, a)), lambda: S.and_(
                S.has(R1, a.func.output_name), lambda: S.eq(R1[a.func.output_name], a.r),
                lambda: S.forall_key(TOut, lambda k: S.implies(S.not_(S.eq(k, a.func.output_name)), lambda: S.and_(
                    S.has(R1, k) == S.has(R0, k), lambda: S.implies(S.has(R0, k), lambda: S.eq(R1[k], R0[k])))),
                    domain=() if S.symbolic else list(R0) + list(R1)))),
        "lazy: every name gets an entry (a deferred pick), nothing else changes": S.implies(
            S.and_(_is_multi_single(S, a), a.lazy), lambda: S.and_(
                S.forall(0, S.len(names), lambda i: S.has(R1, key(names[i]))),
                lambda: S.forall_key(TOut, lambda k: S.implies(S.not_(one_of(k)), lambda: S.and_(
                    S.has(R1, k) == S.has(R0, k), lambda: S.implies(S.has(R0, k), lambda: S.eq(R1[k], R0[k])))),
                    domain=() if S.symbolic else list(R0) + list(R1)))),
    }


def _uar_inv(S, a, v, k):
    R0, R = a.all_results, v.all_results
    names = S.untag(a.func.output_name, "tuple")
    key = lambda n: S.inject(TOut, "str", n)  # noqa: E731
    done = lambda kk: S.and_(S.is_tag(kk, "str"), lambda: S.exists(0, k, lambda i: S.eq(names[i], S.untag(kk, "str"))))  # noqa: E731
    return {
        "entered so far": S.forall(0, k, lambda i: S.and_(S.has(R, key(names[i])), lambda: S.implies(
            S.not_(a.lazy), lambda: S.eq(R[key(names[i])], _pick(S, a, names[i]))))),
        "others unchanged": S.forall_key(TOut, lambda kk: S.implies(S.not_(done(kk)), lambda: S.and_(
            S.has(R, kk) == S.has(R0, kk), lambda: S.implies(S.has(R0, kk), lambda: S.eq(R[kk], R0[kk]))))),
    }


update_all_results = Contract(
    f"{F}::_update_all_results",
    params={"func": PipeFuncOutView, "r": TObj, "output_name": TOut, "all_results": DRes, "lazy": TBool},
    returns=None, modifies=("all_results",), pure=False,
    ensures=_uar_ensures, loops={0: LoopSpec(_uar_inv)},
)
ALL = [picker, lazy_node, update_all_results]


def gen(rng, tier):
    for _ in range(400 if tier == "quick" else 4000):
        multi = rng.random() < 0.6
        out = tuple(rng.sample(["a", "b", "c"], rng.randint(2, 3))) if multi else rng.choice(["a", "b"])
        req = rng.choice(list(out)) if multi and rng.random() < 0.7 else out
        pre = {k: f"old_{k}" for k in rng.sample(["a", "b", "c", "x", ("a", "b")], rng.randint(0, 3))}
        yield {"func": _PF(out, tagging_picker), "r": f"result{rng.randint(0, 9)}", "output_name": req,
               "all_results": pre, "lazy": rng.random() < 0.3}
