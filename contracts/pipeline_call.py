"""Contracts for the call path of pipefunc/_pipeline/_base.py (C02, C18): how the result of a function is entered
into the results of one evaluation - routed by output name through the function's output_picker."""
from __future__ import annotations

from pyvc.engine import Contract, LoopSpec
from pyvc.types import TBool, TDict, TObj, TRec, TSeq, TStr

from .misc import TOut

F = "pipefunc/_pipeline/_base.py"
SS = TSeq(TStr)
DRes = TDict(TOut, TObj)
DSO = TDict(TStr, TObj)
# what the call path reads of a PipeFunc / of a Pipeline (one record sort each, shared by all contracts below)
PipeFuncV = TRec("PipeFuncV", {"output_name": TOut, "output_picker": TObj, "parameters": SS, "_bound": DSO, "cache": TBool,
                               "fid": TObj})
PipeFuncOutView = PipeFuncV


class _PF:
    """The two attributes of a PipeFunc that _update_all_results reads (real objects on the bounded rung)."""

    def __init__(self, output_name, picker, parameters=(), bound=None, cache=False, fid=None):
        self.output_name, self.output_picker = output_name, picker
        self.parameters, self._bound, self.cache = tuple(parameters), dict(bound or {}), cache
        self.fid = fid if fid is not None else f"f{output_name!r}"
        self.__name__ = str(self.fid)

    def __call__(self, **kwargs):  # the user's function: its result names what it received
        return ("called", self.fid, tuple(sorted(kwargs.items(), key=lambda kv: kv[0])))

    def __deepcopy__(self, memo):
        return self  # (immutable for the purposes of these checks; identity is compared through fid)

    def __repr__(self):
        return f"PF{self.output_name!r}{self.parameters!r}"


def tagging_picker(r, name):
    return ("picked", r, name)


picker = Contract(
    f"{F}::PipeFuncV.output_picker", params={"self": PipeFuncV, "output": TObj, "name": TStr}, returns=TObj,
    trusted=True, pure=True, note="the function's output_picker: deterministic in (result, name); user code",
)
lazy_node = Contract(
    f"{F}::_LazyFunction", params={"func": TObj, "args": TSeq(TObj)}, returns=TObj, trusted=True, pure=True,
    note="constructor of a deferred call; its evaluation is the contract of _LazyFunction.evaluate (C18)",
)


def _pick(S, a, name):
    if S.symbolic:
        return S.uf("fn:PipeFuncV.output_picker", TObj, a.func, a.r, name)
    return a.func.output_picker(a.r, name)


def _is_multi_single(S, a):
    return S.and_(S.is_tag(a.func.output_name, "tuple"), S.not_(S.is_tag(a.output_name, "tuple")))


def _uar_ensures(S, a, r, post):
    R0, R1 = a.all_results, post.all_results
    names = S.untag(a.func.output_name, "tuple")
    key = lambda n: S.inject(TOut, "str", n)  # noqa: E731
    one_of = lambda k: S.and_(S.is_tag(k, "str"), lambda: S.contains(names, S.untag(k, "str")))  # noqa: E731
    return {
        "tuple output, one element requested: every element is entered under its own name, picked by that name":
            S.implies(S.and_(_is_multi_single(S, a), S.not_(a.lazy)), lambda: S.and_(
                S.forall(0, S.len(names), lambda i: S.and_(S.has(R1, key(names[i])), lambda: S.eq(
                    R1[key(names[i])], _pick(S, a, names[i])))),
                lambda: S.forall_key(TOut, lambda k: S.implies(S.not_(one_of(k)), lambda: S.and_(
                    S.has(R1, k) == S.has(R0, k), lambda: S.implies(S.has(R0, k), lambda: S.eq(R1[k], R0[k])))),
                    domain=() if S.symbolic else list(R0) + list(R1)))),
        "otherwise the result is entered whole under the function's output name": S.implies(
            S.not_(_is_multi_single(S, a)), lambda: S.and_(
                S.has(R1, a.func.output_name), lambda: S.eq(R1[a.func.output_name], a.r),
                lambda: S.forall_key(TOut, lambda k: S.implies(S.not_(S.eq(k, a.func.output_name)), lambda: S.and_(
                    S.has(R1, k) == S.has(R0, k), lambda: S.implies(S.has(R0, k), lambda: S.eq(R1[k], R0[k])))),
                    domain=() if S.symbolic else list(R0) + list(R1)))),
        "lazy: every name gets an entry (a deferred pick), nothing else changes": S.implies(
            S.and_(_is_multi_single(S, a), a.lazy), lambda: S.and_(
                S.forall(0, S.len(names), lambda i: S.has(R1, key(names[i]))),
                lambda: S.forall_key(TOut, lambda k: S.implies(S.not_(one_of(k)), lambda: S.and_(
                    S.has(R1, k) == S.has(R0, k), lambda: S.implies(S.has(R0, k), lambda: S.eq(R1[k], R0[k])))),
                    domain=() if S.symbolic else list(R0) + list(R1)))),
    }


def _uar_inv(S, a, v, k):
    R0, R = a.all_results, v.all_results
    names = S.untag(a.func.output_name, "tuple")
    key = lambda n: S.inject(TOut, "str", n)  # noqa: E731
    done = lambda kk: S.and_(S.is_tag(kk, "str"), lambda: S.exists(0, k, lambda i: S.eq(names[i], S.untag(kk, "str"))))  # noqa: E731
    return {
        "entered so far": S.forall(0, k, lambda i: S.and_(S.has(R, key(names[i])), lambda: S.implies(
            S.not_(a.lazy), lambda: S.eq(R[key(names[i])], _pick(S, a, names[i]))))),
        "others unchanged": S.forall_key(TOut, lambda kk: S.implies(S.not_(done(kk)), lambda: S.and_(
            S.has(R, kk) == S.has(R0, kk), lambda: S.implies(S.has(R0, kk), lambda: S.eq(R[kk], R0[kk]))))),
    }


update_all_results = Contract(
    f"{F}::_update_all_results",
    params={"func": PipeFuncOutView, "r": TObj, "output_name": TOut, "all_results": DRes, "lazy": TBool},
    returns=None, modifies=("all_results",), pure=False,
    raises=[("AssertionError", lambda S, a: S.and_(_is_multi_single(S, a), lambda: S.is_none(a.func.output_picker)))],
    ensures=_uar_ensures, loops={0: LoopSpec(_uar_inv)},
)
ALL = [picker, lazy_node, update_all_results]


def gen(rng, tier):
    for _ in range(400 if tier == "quick" else 4000):
        multi = rng.random() < 0.6
        out = tuple(rng.sample(["a", "b", "c"], rng.randint(2, 3))) if multi else rng.choice(["a", "b"])
        req = rng.choice(list(out)) if multi and rng.random() < 0.7 else out
        pre = {k: f"old_{k}" for k in rng.sample(["a", "b", "c", "x", ("a", "b")], rng.randint(0, 3))}
        yield {"func": _PF(out, tagging_picker), "r": f"result{rng.randint(0, 9)}", "output_name": req,
               "all_results": pre, "lazy": rng.random() < 0.3}


# ---- Pipeline._get_func_args: the resolution order of C02 ---------------------------------------------------------------
from pyvc.types import TOpt, TSet  # noqa: E402

PipelineV = TRec("PipelineV", {"output_to_func": TDict(TOut, PipeFuncV), "defaults": DSO, "lazy": TBool})
PipelineArgsView = PipelineV
PipeFuncArgsView = PipeFuncV
UsedT = TSet(TOpt(TStr))


def _upstream(S, a, arg):
    """The value the pipeline computes for the upstream output `arg` under these keyword arguments (spec function)."""
    if not S.symbolic and arg in getattr(a, "all_results", {}):
        return a.all_results[arg]  # bounded rung: already computed in this evaluation
    return S.uf("spec:upstream-value", TObj, a.self, arg, a.flat_scope_kwargs)


run_upstream = Contract(
    f"{F}::PipelineV._run",
    params={"self": PipelineArgsView, "output_name": TOut, "flat_scope_kwargs": DSO, "all_results": DRes,
            "full_output": TBool, "used_parameters": UsedT},
    returns=TObj, trusted=True, pure=False, modifies=("all_results", "used_parameters"),
    ensures=lambda S, a, r, post: ({
        "value": S.implies(S.is_tag(a.output_name, "str"), lambda: S.eq(r, S.uf(
            "spec:upstream-value", TObj, a.self, S.untag(a.output_name, "str"), a.flat_scope_kwargs))),
        "used-parameters only grow": S.forall_key(TOpt(TStr), lambda k: S.implies(
            S.in_set(a.used_parameters, k), lambda: S.in_set(post.used_parameters, k))),
    } if S.symbolic else {}),
    note="Pipeline._run on an upstream output: the recursive evaluation (its value is the spec function "
         "upstream-value; it may enter results and mark parameters as used)",
)


def _some_str(S, x):
    if S.symbolic:
        from pyvc.types import Val, unwrap, wrap
        o = TOpt(TStr)
        return unwrap(Val(o, o.some(wrap(x).t)))
    return x


def _resolvable(S, a, arg):
    return S.or_(S.has(a.func._bound, arg), S.has(a.flat_scope_kwargs, arg),
                 S.has(a.self.output_to_func, S.inject(TOut, "str", arg)), S.has(a.self.defaults, arg))


def _resolved(S, a, arg):
    return S.ite(S.has(a.func._bound, arg), lambda: a.func._bound[arg], lambda: S.ite(
        S.has(a.flat_scope_kwargs, arg), lambda: a.flat_scope_kwargs[arg], lambda: S.ite(
            S.has(a.self.output_to_func, S.inject(TOut, "str", arg)), lambda: _upstream(S, a, arg),
            lambda: a.self.defaults[arg])))


get_func_args = Contract(
    f"{F}::Pipeline._get_func_args",
    params={"self": PipelineArgsView, "func": PipeFuncArgsView, "flat_scope_kwargs": DSO, "all_results": DRes,
            "full_output": TBool, "used_parameters": UsedT},
    returns=DSO, modifies=("all_results", "used_parameters"), pure=False,
    raises=[("ValueError", lambda S, a: S.exists(0, S.len(a.func.parameters), lambda i: S.not_(
        _resolvable(S, a, a.func.parameters[i]))))],
    ensures=lambda S, a, r, post: {
        "one argument per parameter": S.forall_key(TStr, lambda k: S.has(r, k) == S.contains(a.func.parameters, k),
                                                   domain=() if S.symbolic else list(r) + list(a.func.parameters)),
        "each argument: bound value, else supplied keyword, else upstream output, else default": S.forall(
            0, S.len(a.func.parameters), lambda i: S.eq(r[a.func.parameters[i]], _resolved(S, a, a.func.parameters[i]))),
        "every parameter is marked as used (the marks only grow)": S.and_(
            S.forall(0, S.len(a.func.parameters), lambda i: S.in_set(post.used_parameters, _some_str(S, a.func.parameters[i]))),
            lambda: S.forall_key(TOpt(TStr), lambda k: S.implies(S.in_set(a.used_parameters, k),
                                                                 lambda: S.in_set(post.used_parameters, k)),
                                 domain=() if S.symbolic else list(a.used_parameters))),
    },
    loops={0: LoopSpec(lambda S, a, v, k: {
        "args so far": S.forall_key(TStr, lambda kk: S.has(v.func_args, kk) == S.exists(
            0, k, lambda i: S.eq(a.func.parameters[i], kk))),
        "values so far": S.forall(0, k, lambda i: S.and_(_resolvable(S, a, a.func.parameters[i]), lambda: S.eq(
            v.func_args[a.func.parameters[i]], _resolved(S, a, a.func.parameters[i])))),
        "marked so far": S.and_(
            S.forall(0, k, lambda i: S.in_set(v.used_parameters, _some_str(S, a.func.parameters[i]))),
            lambda: S.forall_key(TOpt(TStr), lambda kk: S.implies(S.in_set(a.used_parameters, kk),
                                                                  lambda: S.in_set(v.used_parameters, kk)))),
    })},
    locals_={"func_args": DSO},
)
ALL += [run_upstream, get_func_args]

from pyvc.spec import CONC_IMPL  # noqa: E402

CONC_IMPL["spec:upstream-value"] = lambda self, arg, kwargs: ("upstream-value-of", arg, tuple(sorted(kwargs)))


class _FakePipeline:
    """What _get_func_args reads of a Pipeline, with a _run that returns a value naming the upstream output."""

    def __init__(self, output_to_func, defaults, lazy=False):
        self.output_to_func, self.defaults, self.lazy = output_to_func, defaults, lazy
        self.run_calls = []

    def _run(self, *, output_name, flat_scope_kwargs, all_results, full_output, used_parameters):
        self.run_calls.append(output_name)
        used_parameters.add("seen-by-upstream")
        return CONC_IMPL["spec:upstream-value"](self, output_name, flat_scope_kwargs)


def _FakeFunc(parameters, bound):
    return _PF("out", tagging_picker, parameters, bound)


def gfa_gen(rng, tier):
    names = ["x", "y", "z", "u"]
    for _ in range(600 if tier == "quick" else 6000):
        params = rng.sample(names, rng.randint(0, 4))
        pick = lambda p: {k: f"{p}:{k}" for k in names if rng.random() < 0.35}  # noqa: E731
        o2f = {k: _PF(k, tagging_picker) for k in names if rng.random() < 0.3}
        if rng.random() < 0.2:
            o2f[("p", "q")] = _PF(("p", "q"), tagging_picker)
        yield {"self": _FakePipeline(o2f, pick("default")), "func": _FakeFunc(params, pick("bound")),
               "flat_scope_kwargs": pick("kwarg"), "all_results": {}, "full_output": rng.random() < 0.5,
               "used_parameters": set()}


# ---- Pipeline._run without a cache: one evaluation computes every needed output once ---------------------------------------
from pyvc.types import TReal  # noqa: E402

PipelineRunV = PipelineV

current_cache = Contract(f"{F}::PipelineV._current_cache", params={"self": PipelineV}, returns=TOpt(TObj), trusted=True,
                         pure=True, note="the cache object in use, or None")
task_graph = Contract("pipefunc/lazy.py::task_graph", params={}, returns=TOpt(TObj), trusted=True, pure=True,
                      note="the active task graph of construct_dag(), or None (global state, read-only here)")
root_args = Contract(f"{F}::PipelineV.root_args", params={"self": PipelineV, "output_name": TOut}, returns=SS, trusted=True,
                     pure=True, note="networkx ancestors of the output")
perf_counter = Contract("time::time.perf_counter", params={}, returns=TReal, trusted=True, pure=False, static=True)
execute_func = Contract(
    f"{F}::_execute_func", params={"func": PipeFuncV, "func_args": DSO, "lazy": TBool}, returns=TObj, trusted=True, pure=True,
    note="calls the user's function with the resolved arguments (or defers the call in lazy mode): deterministic in "
         "(function, arguments); its failures are C13's business",
)


def _exec(S, f, args, lazy):
    return S.uf("fn:_execute_func", TObj, f, args, lazy)


def _no_cache(S, a):
    return S.and_(S.is_none(S.uf("fn:PipelineV._current_cache", TOpt(TObj), a.self)),
                  S.is_none(S.uf("fn:task_graph", TOpt(TObj)))) if S.symbolic else True


def _run_ensures(S, a, r, post):
    R0, R1 = a.all_results, post.all_results
    memo = S.has(R0, a.output_name)
    return {
        "already computed in this evaluation: returned as it is, nothing is executed or changed": S.implies(memo, lambda: S.and_(
            S.eq(r, R0[a.output_name]), S.eq(R1, R0) if S.symbolic else True)),
        "otherwise the producer's entry is made and returned": S.implies(S.not_(memo), lambda: S.and_(
            S.has(R1, a.output_name), lambda: S.eq(r, R1[a.output_name]))),
        "it is the producer's result for the resolved arguments (one element of it for a tuple output)":
            S.implies(S.not_(memo), lambda: _run_value(S, a, r, post)),
    }


def _run_value(S, a, r, post):
    f = a.self.output_to_func[a.output_name]
    if S.symbolic:
        if not hasattr(post._locals, "func_args"):
            return True  # an exit before the arguments were resolved (the memo path: the implication holds trivially)
        args = post._locals.func_args  # ghost witness: the dict _get_func_args returned (its contract constrains it)
        ns = _with_func(a, f)
        res = _exec(S, f, args, a.self.lazy)
        picked = S.ite(S.and_(S.is_tag(f.output_name, "tuple"), S.not_(S.is_tag(a.output_name, "tuple"))),
                       lambda: S.uf("fn:PipeFuncV.output_picker", TObj, f, res, S.untag(a.output_name, "str")), lambda: res)
        return S.and_(
            S.forall_key(TStr, lambda k: S.has(args, k) == S.contains(f.parameters, k)),
            S.forall(0, S.len(f.parameters), lambda i: S.eq(args[f.parameters[i]], _resolved(S, ns, f.parameters[i]))),
            S.implies(S.not_(a.self.lazy), lambda: S.eq(r, picked)))
    # bounded rung: the fake function tags its result with the arguments it received
    want_args = {p_: _resolved(S, _with_func(a, f), p_) for p_ in f.parameters}
    res = ("called", f.fid, tuple(sorted(want_args.items(), key=lambda kv: kv[0])))
    if isinstance(f.output_name, tuple) and not isinstance(a.output_name, tuple):
        res = f.output_picker(res, a.output_name)
    return a.self.lazy or r == res


run = Contract(
    f"{F}::Pipeline._run",
    params={"self": PipelineV, "output_name": TOut, "flat_scope_kwargs": DSO, "all_results": DRes, "full_output": TBool,
            "used_parameters": UsedT},
    returns=TObj, modifies=("all_results", "used_parameters"), pure=False,
    requires=lambda S, a: {
        "no cache and no task graph (the cached path is C09's, bounded)": _no_cache(S, a),
        "a function with several output names has an output picker (PipeFunc.__init__ installs the default one)":
            S.forall_key(TOut, lambda k: S.implies(S.and_(S.has(a.self.output_to_func, k), lambda: S.is_tag(
                a.self.output_to_func[k].output_name, "tuple")), lambda: S.not_(S.is_none(a.self.output_to_func[k].output_picker))),
                domain=() if S.symbolic else list(a.self.output_to_func)),
        "a function is registered under each of its output names": S.forall_key(TOut, lambda k: S.implies(
            S.has(a.self.output_to_func, k), lambda: S.or_(
                S.eq(a.self.output_to_func[k].output_name, k),
                lambda: S.and_(S.is_tag(k, "str"), S.is_tag(a.self.output_to_func[k].output_name, "tuple"),
                               lambda: S.contains(S.untag(a.self.output_to_func[k].output_name, "tuple"), S.untag(k, "str"))))),
            domain=() if S.symbolic else list(a.self.output_to_func)),
    },
    raises=[("KeyError", lambda S, a: S.and_(S.not_(S.has(a.all_results, a.output_name)),
                                             S.not_(S.has(a.self.output_to_func, a.output_name)))),
            ("ValueError", lambda S, a: S.and_(
                S.not_(S.has(a.all_results, a.output_name)), S.has(a.self.output_to_func, a.output_name),
                lambda: S.exists(0, S.len(a.self.output_to_func[a.output_name].parameters), lambda i: S.not_(_resolvable(
                    S, _with_func(a, a.self.output_to_func[a.output_name]), a.self.output_to_func[a.output_name].parameters[i])))))],
    ensures=_run_ensures,
)


def _with_func(a, f):
    from types import SimpleNamespace
    return SimpleNamespace(self=a.self, func=f, flat_scope_kwargs=a.flat_scope_kwargs, all_results=a.all_results)


ALL += [current_cache, task_graph, root_args, perf_counter, execute_func, run]


def registry_entries() -> dict:
    """name -> contract, incl. the names under which methods are looked up through the record sorts."""
    reg = {**{c.short: c for c in ALL}, **{c.name: c for c in ALL}}
    reg["PipelineV._get_func_args"] = get_func_args
    reg["PipelineV._run"] = run_upstream  # (inside _get_func_args the recursive call is the assumed contract)
    return reg


class _RunPipeline:
    """A minimal object on which the real Pipeline._run / _get_func_args run: no cache, no task graph."""

    def __init__(self, output_to_func, defaults, lazy=False):
        from pipefunc._pipeline._base import Pipeline
        self.output_to_func, self.defaults, self.lazy, self.cache = output_to_func, defaults, lazy, None
        self._run = Pipeline._run.__get__(self)
        self._get_func_args = Pipeline._get_func_args.__get__(self)

    def _current_cache(self):
        return None

    def root_args(self, output_name):
        return ()

    def __deepcopy__(self, memo):
        import copy
        return _RunPipeline(dict(self.output_to_func), copy.deepcopy(self.defaults), self.lazy)


def run_gen(rng, tier):
    names = ["x", "y", "z", "u"]
    for _ in range(500 if tier == "quick" else 5000):
        pick = lambda p, pr=0.35: {k: f"{p}:{k}" for k in names if rng.random() < pr}  # noqa: E731
        multi = rng.random() < 0.4
        out = ("o1", "o2") if multi else "o1"
        f = _PF(out, tagging_picker, rng.sample(names, rng.randint(0, 3)), pick("bound", 0.2), fid="F")
        o2f = {out: f}
        if multi:
            o2f.update({"o1": f, "o2": f})
        ups = [k for k in names if rng.random() < 0.3]
        for k in ups:
            o2f[k] = _PF(k, tagging_picker, (), {}, fid=f"U{k}")
        all_results = {k: f"computed:{k}" for k in ups}  # upstream outputs already computed in this evaluation
        if rng.random() < 0.25:
            all_results[rng.choice(["o1", out])] = "memo"
        req = rng.choice(["o1", "o2"]) if multi and rng.random() < 0.7 else (out if rng.random() < 0.9 else "nope")
        yield {"self": _RunPipeline(o2f, pick("default")), "output_name": req, "flat_scope_kwargs": pick("kwarg"),
               "all_results": all_results, "full_output": rng.random() < 0.5, "used_parameters": set()}


# ---- get_result_from_cache: a resident entry is used instead of executing (C09) -----------------------------------------------
from types import SimpleNamespace as _NS  # noqa: E402

from pyvc.types import TTuple  # noqa: E402

from .misc import CacheKey  # noqa: E402

FC = "pipefunc/_pipeline/_cache.py"
CacheV = TRec("CacheV", {"cid": TObj})
OptKey = TOpt(CacheKey)

cache_contains = Contract(f"{FC}::CacheV.__contains__", params={"self": CacheV, "key": CacheKey}, returns=TBool, trusted=True,
                          pure=True, note="membership of a key in the cache (the containers' own contracts are C14)")
cache_get = Contract(f"{FC}::CacheV.get", params={"self": CacheV, "key": CacheKey}, returns=TObj, trusted=True, pure=True,
                     note="the stored value; the cache is only read here")


class _DictCache:
    """A cache object for the bounded rung (what get_result_from_cache uses of it)."""

    def __init__(self, d):
        self.d, self.cid = dict(d), "cache"

    def __contains__(self, k):
        return k in self.d

    def get(self, k):
        return self.d.get(k)


def _hit(S, a):
    if S.symbolic:
        return S.and_(S.not_(S.is_none(a.cache_key)), lambda: S.uf("fn:CacheV.__contains__", TBool, a.cache, S.some(a.cache_key)))
    return a.cache_key is not None and a.cache_key in a.cache


def _cached_value(S, a):
    return S.uf("fn:CacheV.get", TObj, a.cache, S.some(a.cache_key)) if S.symbolic else a.cache.get(a.cache_key)


def _grc_ensures(S, a, r, post):
    ret_now, from_cache = (r.t[0].t, r.t[1].t) if S.symbolic and hasattr(r, "t") else (r[0], r[1])
    hit = _hit(S, a)
    entered = _uar_ensures(S, _NS(func=a.func, r=_cached_value(S, a) if (S.symbolic or (a.cache_key is not None and a.cache_key in a.cache)) else None,
                                  output_name=a.output_name, all_results=a.all_results, lazy=a.lazy), None,
                           _NS(all_results=post.all_results))
    none_key = S.none_of(TOpt(TStr)) if S.symbolic else None
    out = {
        "hit <=> the key is not None and resident": from_cache == hit,
        "returns at once exactly for a hit without full_output": ret_now == S.and_(hit, S.not_(a.full_output)),
        "miss: nothing is entered or marked": S.implies(S.not_(hit), lambda: S.and_(
            S.eq(post.all_results, a.all_results) if S.symbolic else post.all_results == a.all_results,
            S.eq(post.used_parameters, a.used_parameters) if S.symbolic else post.used_parameters == a.used_parameters)),
        "hit without full_output: the None mark is added (result came from the cache)": S.implies(
            S.and_(hit, S.not_(a.full_output)), lambda: S.in_set(post.used_parameters, none_key)),
    }
    for k_, v_ in entered.items():
        out["hit: the cached value is entered like a computed one - " + k_] = S.implies(hit, lambda v_=v_: v_)
    return out


get_result_from_cache = Contract(
    f"{FC}::get_result_from_cache",
    params={"func": PipeFuncV, "cache": CacheV, "cache_key": OptKey, "output_name": TOut, "all_results": DRes,
            "full_output": TBool, "used_parameters": UsedT, "lazy": TBool},
    defaults={"lazy": False}, returns=TTuple([TBool, TBool]), modifies=("all_results", "used_parameters"), pure=False,
    requires=lambda S, a: {
        "a function with several output names has an output picker (PipeFunc.__init__ installs the default one)":
            S.implies(S.is_tag(a.func.output_name, "tuple"), lambda: S.not_(S.is_none(a.func.output_picker)))},
    ensures=_grc_ensures,
)
ALL += [cache_contains, cache_get, get_result_from_cache]


def grc_gen(rng, tier):
    for _ in range(500 if tier == "quick" else 5000):
        multi = rng.random() < 0.5
        out = tuple(rng.sample(["a", "b", "c"], 2)) if multi else rng.choice(["a", "b"])
        req = rng.choice(list(out)) if multi and rng.random() < 0.7 else out
        key = None if rng.random() < 0.2 else (out, (("x", rng.randint(0, 2)),))
        store = {(out, (("x", v),)): f"cached{v}" for v in range(3) if rng.random() < 0.5}
        pre = {k: f"old_{k}" for k in rng.sample(["a", "b", "c", "x"], rng.randint(0, 2))}
        yield {"func": _PF(out, tagging_picker), "cache": _DictCache(store), "cache_key": key, "output_name": req,
               "all_results": pre, "full_output": rng.random() < 0.5, "used_parameters": set(rng.sample(["x", "y"], rng.randint(0, 2))),
               "lazy": False}
