"""Contracts for the slice expansion of the storage backends (C07: a key with ':' / slices reads the block a numpy
masked array would give; C04: a dump under a slice key writes every addressed element).

`DictArray._slice_indices(key, shape)` and `FileArray._slice_indices(key, for_dump=)` turn a (normalised) key into one
`range` per key position: an integer k addresses exactly position k, a slice s addresses `range(*s.indices(size))`
where `size` is the size of the axis that this key position indexes - for a read key of a FileArray the interleaving of
the external and internal shape under the mask, for a dump key the external shape.  `slice.indices` is Python's own
(three uninterpreted functions of the slice and the size).
"""
from __future__ import annotations

from pyvc.engine import Contract, LoopSpec
from pyvc.spec import CONC_IMPL
from pyvc.types import TBool, TInt, TRange, TRec, TSeq

from .storage import _axis_size, interleave_at, normalize_key, valid_geometry, _in_range, _nk_expected_rank, _nk_bad_index, _norm
from .ty import SB, SI, SK

SR = TSeq(TRange)
for _i in range(3):
    CONC_IMPL[f"slice.indices#{_i}"] = (lambda i: lambda s, n: s.indices(n)[i])(_i)


CONC_IMPL["slice.step-is-zero"] = lambda s: s.step == 0


def _zero_step_somewhere(S, key):
    return S.exists(0, S.len(key), lambda p: S.and_(S.is_tag(key[p], "slice"), lambda: S.uf(
        "slice.step-is-zero", TBool, S.untag(key[p], "slice"))))


def _sidx(S, s, n, i):
    return S.uf(f"slice.indices#{i}", TInt, s, n)


def _range_is(S, r, start, stop, step):
    return S.and_(r.start == start, r.stop == stop, r.step == step)


def _expansion(S, r, k, size):
    """r is the expansion of key entry k along an axis of `size` elements."""
    return S.ite(S.is_tag(k, "int"),
                 lambda: _range_is(S, r, S.untag(k, "int"), S.untag(k, "int") + 1, 1),
                 lambda: _range_is(S, r, _sidx(S, S.untag(k, "slice"), size, 0), _sidx(S, S.untag(k, "slice"), size, 1),
                                   _sidx(S, S.untag(k, "slice"), size, 2)))


# ---- DictArray._slice_indices ----------------------------------------------------------------------------------------
DictArrayV = TRec("DictArrayV", {"shape": SI})


class _DA:
    def __init__(self, shape=()):
        self.shape = tuple(shape)

    def __repr__(self):
        return "DictArray(...)"


DictArrayV.to_py = lambda d: _DA(d["shape"])

dict_slice_indices = Contract(
    "pipefunc/map/_storage_array/_dict.py::DictArray._slice_indices",
    params={"self": DictArrayV, "key": SK, "shape": SI}, returns=SR,
    raises=[("AssertionError", lambda S, a: S.len(a.key) != S.len(a.shape)),
            ("ValueError", lambda S, a: _zero_step_somewhere(S, a.key))],
    ensures=lambda S, a, r, post: {
        "one range per key position": S.len(r) == S.len(a.key),
        "an integer addresses itself, a slice what slice.indices gives for the size of its axis": S.forall(
            0, S.len(a.key), lambda p: _expansion(S, r[p], a.key[p], a.shape[p])),
    },
    loops={0: LoopSpec(lambda S, a, v, k: {
        "len": S.len(v.slice_indices) == k,
        "prefix": S.forall(0, k, lambda p: _expansion(S, v.slice_indices[p], a.key[p], a.shape[p])),
        "no zero-step slice so far": S.forall(0, k, lambda p: S.implies(S.is_tag(a.key[p], "slice"), lambda: S.not_(S.uf(
            "slice.step-is-zero", TBool, S.untag(a.key[p], "slice"))))),
    })},
    locals_={"slice_indices": SR},
)


def dsi_gen(rng, tier):
    for _ in range(400 if tier == "quick" else 4000):
        n = rng.randint(0, 3)
        shape = tuple(rng.randint(0, 4) for _ in range(n))
        key = tuple(rng.choice([rng.randint(-1, 4), slice(None), slice(1, None), slice(None, None, 2), slice(3, 0, -1), slice(0, 2, 0)])
                    for _ in range(n if rng.random() < 0.9 else rng.randint(0, 3)))
        yield {"self": _DA(shape), "key": key, "shape": shape}


# ---- FileArray._slice_indices ------------------------------------------------------------------------------------------
FileArrayKV = TRec("FileArrayKV", {"shape": SI, "internal_shape": SI, "shape_mask": SB})

fa_normalize_key = Contract(
    "pipefunc/map/_storage_array/_file.py::FileArrayKV._normalize_key",
    params={"self": FileArrayKV, "key": SK, "for_dump": TBool}, defaults={"for_dump": False}, returns=SK, pure=True,
    trusted=True,
    raises=[("IndexError", lambda S, a: S.or_(
        S.len(a.key) != _rank(S, a), S.exists(0, S.min(S.len(a.key), _rank(S, a)), lambda j: _bad(S, a, j))))],
    ensures=lambda S, a, r, post: ({
        "len": S.len(r) == S.len(a.key),
        "slices-unchanged": S.forall(0, S.len(a.key), lambda j: S.implies(S.is_tag(a.key[j], "slice"), S.eq(r[j], a.key[j]))),
        "ints-normalised": S.forall(0, S.len(a.key), lambda j: S.implies(S.is_tag(a.key[j], "int"), lambda: S.and_(
            S.is_tag(r[j], "int"), S.untag(r[j], "int") == _norm(S, S.untag(a.key[j], "int"), _size(S, a, j))))),
    } if S.symbolic else {}),
    note="FileArray._normalize_key delegates to normalize_key(key, self.shape, self.internal_shape, self.shape_mask, "
         "for_dump=...), whose contract (proved under C07/C01) is restated here for the receiver's geometry",
)


def _size(S, a, j):
    fa = a.self
    return S.ite(a.for_dump, lambda: fa.shape[j], lambda: interleave_at(S, fa.shape_mask, fa.shape, fa.internal_shape, j))


def _rank(S, a):
    return S.ite(a.for_dump, S.len(a.self.shape), S.len(a.self.shape_mask))


def _bad(S, a, j):
    return S.and_(S.is_tag(a.key[j], "int"), lambda: S.not_(_in_range(S, S.untag(a.key[j], "int"), _size(S, a, j))))


def _fsi_entry(S, a, r, p):
    """Key position p: an in-range integer is normalised (negative indices wrap) and addresses itself; a slice addresses
    what slice.indices gives for the size of the axis that position p indexes."""
    k, size = a.key[p], _size(S, a, p)
    return S.ite(S.is_tag(k, "int"),
                 lambda: _range_is(S, r[p], _norm(S, S.untag(k, "int"), size), _norm(S, S.untag(k, "int"), size) + 1, 1),
                 lambda: _range_is(S, r[p], _sidx(S, S.untag(k, "slice"), size, 0), _sidx(S, S.untag(k, "slice"), size, 1),
                                   _sidx(S, S.untag(k, "slice"), size, 2)))


def _fsi_inv(S, a, v, k):
    fa = a.self
    m = lambda j: S.ite(a.for_dump, True, lambda: fa.shape_mask[j]) if not S.symbolic else S.or_(a.for_dump, fa.shape_mask[j])  # noqa: E731
    return {
        "len": S.len(v.slice_indices) == k,
        "external cursor": S.implies(S.not_(a.for_dump), lambda: v.shape_index == S.cnt(fa.shape_mask, k)),
        "external cursor (dump)": S.implies(a.for_dump, lambda: v.shape_index == k),
        "internal cursor": S.implies(S.not_(a.for_dump), lambda: v.internal_shape_index == k - S.cnt(fa.shape_mask, k)),
        "prefix": S.forall(0, k, lambda p: _fsi_entry(S, a, v.slice_indices, p)),
        "no zero-step slice so far": S.forall(0, k, lambda p: S.implies(S.is_tag(a.key[p], "slice"), lambda: S.not_(S.uf(
            "slice.step-is-zero", TBool, S.untag(a.key[p], "slice"))))),
    }


file_slice_indices = Contract(
    "pipefunc/map/_storage_array/_file.py::FileArray._slice_indices",
    params={"self": FileArrayKV, "key": SK, "for_dump": TBool}, defaults={"for_dump": False}, returns=SR,
    requires=lambda S, a: valid_geometry(S, a.self.shape, a.self.internal_shape, a.self.shape_mask),
    raises=[("IndexError", lambda S, a: S.or_(
        S.len(a.key) != _rank(S, a), S.exists(0, S.min(S.len(a.key), _rank(S, a)), lambda j: _bad(S, a, j)))),
        ("ValueError", lambda S, a: _zero_step_somewhere(S, a.key))],
    ensures=lambda S, a, r, post: {
        "one range per key position": S.len(r) == S.len(a.key),
        "entries": S.forall(0, S.len(a.key), lambda p: _fsi_entry(S, a, r, p)),
    },
    loops={0: LoopSpec(_fsi_inv)},
    locals_={"slice_indices": SR},
    cases={"read": lambda S, a: S.not_(a.for_dump), "dump": lambda S, a: a.for_dump},
)
import dataclasses  # noqa: E402

# the same contract on the real method (FileArray._normalize_key is a one-line delegation): discharged against the
# proved contract of normalize_key, so that the restatement above is not an assumption of its own
fa_normalize_key_real = dataclasses.replace(
    fa_normalize_key, qualname="pipefunc/map/_storage_array/_file.py::FileArray._normalize_key", trusted=False,
    requires=lambda S, a: valid_geometry(S, a.self.shape, a.self.internal_shape, a.self.shape_mask),
    note="the delegation itself: normalize_key's contract, for the receiver's geometry")
ALL = [dict_slice_indices, fa_normalize_key, file_slice_indices]
NK_REAL = [normalize_key, fa_normalize_key_real]


def fnk_gen(rng, tier):
    for c in fsi_gen(rng, tier):
        yield c


def fsi_gen(rng, tier):
    from pipefunc.map._storage_array._file import FileArray
    from .misc import _scratch_dir
    tmp = _scratch_dir("vf_fsi_")
    for q in range(500 if tier == "quick" else 5000):
        mask = tuple(rng.random() < 0.6 for _ in range(rng.randint(0, 4)))
        shape = tuple(rng.randint(1, 3) for m in mask if m)
        ishape = tuple(rng.randint(1, 3) for m in mask if not m)
        fa = FileArray(f"{tmp}/{q % 5}", shape, ishape or None, mask)
        for_dump = rng.random() < 0.4
        full = tuple(shape[sum(mask[:j])] if m else ishape[j - sum(mask[:j])] for j, m in enumerate(mask))
        sizes = shape if for_dump else full
        n = len(sizes) if rng.random() < 0.9 else rng.randint(0, 4)
        key = tuple(rng.choice([rng.randint(-(sizes[j] if j < len(sizes) else 1) - 1, (sizes[j] if j < len(sizes) else 1)),
                                slice(None), slice(1, None), slice(None, None, 2), slice(None, None, -1), slice(None, None, 0)])
                    for j in range(n))
        yield {"self": fa, "key": key, "for_dump": for_dump}


FileArrayKV.from_py = lambda o: o if isinstance(o, dict) else {"shape": o.shape, "internal_shape": o.internal_shape,
                                                                 "shape_mask": o.shape_mask}


def fsi_call(fn, a):
    return fn(a["self"], a["key"], for_dump=a["for_dump"])
