"""Contracts for pipefunc/map/_storage_array/_file.py: where an element lives on disk (C04, C05, C07).

`_key_to_file(key)` = `_index_to_file(sum(k*s for k, s in zip(key, strides)))`.  The contract says the file is the one of
the row-major linear index of `key`, and - the fact the run loop relies on - that for the key `output_key(shape, l)`
(the unravelled linear index l, which is what _update_array dumps under) it is the file of l itself, i.e. the file
that has_index(l), get_from_index(l) and mask_linear()[l] look at.  The second clause uses lemma L4 (ravel o unravel =
id, proved by induction in pyvc/lemmas.py on every run) instantiated at this call's terms.

`_index_to_file` (Path / str.format) is outside the proof: assumed pure.
"""
from __future__ import annotations

import z3

from pyvc.engine import Contract
from pyvc.types import TInt, TObj, TRec, TStr

from .mapspec import all_pos
from .ty import SB, SI


def _mk_filearray(d):
    import tempfile
    from pipefunc.map._storage_array._file import FileArray
    from .misc import _scratch_dir
    return FileArray(_scratch_dir("vf_fa_"), tuple(d["shape"]))


FileArrayT = TRec("FileArray", {"folder": TObj, "shape": SI, "strides": SI, "filename_template": TStr},
                  to_py=_mk_filearray,
                  from_py=lambda o: {"folder": str(o.folder), "shape": o.shape, "strides": o.strides,
                                     "filename_template": o.filename_template})

index_to_file = Contract(
    "pipefunc/map/_storage_array/_file.py::FileArray._index_to_file", params={"self": FileArrayT, "index": TInt},
    returns=TObj, trusted=True, pure=True,
    note="folder / filename_template.format(index): pathlib and str.format are outside the proof; assumed to be a "
         "function of (folder, template, index)",
)
_I2F = z3.Function("fn:FileArray._index_to_file", FileArrayT.sort(), z3.IntSort(), TObj.sort())


def _wf(S, fa):
    """The cached `strides` are shape_to_strides(shape) (that function's own contract is proved under C01/C08)."""
    n = S.len(fa.shape)
    return S.and_(S.len(fa.strides) == n, S.forall(0, n, lambda i: fa.strides[i] == S.prod(fa.shape, i + 1, n)))


def _file_of(S, fa, index):
    if S.symbolic:
        from pyvc.types import Val, unwrap
        return unwrap(Val(TObj, _I2F(fa.t, index)))
    return fa._index_to_file(index)


def _is_unravel_of(S, fa, key, l):
    n = S.len(fa.shape)
    return S.and_(S.len(key) == n, 0 <= l, l < S.prod(fa.shape, 0, n),
                  lambda: S.forall(0, n, lambda i: key[i] == S.mod(S.div(l, fa.strides[i]), fa.shape[i])))


def _l4(S, a):
    from pyvc.lemmas import l4_instance
    fa = a.self
    return [l4_instance(fa.shape.ty.arr(fa.shape.t), fa.strides.ty.arr(fa.strides.t), a.key.ty.arr(a.key.t), a.l,
                        fa.shape.ty.len(fa.shape.t))]


key_to_file = Contract(
    "pipefunc/map/_storage_array/_file.py::FileArray._key_to_file",
    params={"self": FileArrayT, "key": SI, "l": TInt},  # l: ghost - the linear index the key was unravelled from, if any
    returns=TObj,
    requires=lambda S, a: {"strides-are-those-of-the-shape": _wf(S, a.self), "positive-dims": all_pos(S, a.self.shape),
                           "key-rank": S.len(a.key) == S.len(a.self.shape)},
    axioms=_l4,
    ensures=lambda S, a, r, post: {
        "file of the row-major index": S.eq(r, _file_of(S, a.self, S.dot(a.key, a.self.strides, S.len(a.key)))),
        "for the unravelled key of l: the file of l": S.implies(_is_unravel_of(S, a.self, a.key, a.l),
                                                                lambda: S.eq(r, _file_of(S, a.self, a.l))),
    },
    note="ghost parameter l is not an argument of the real method",
)
key_to_file.ghost_params = ("l",)

ALL = [index_to_file, key_to_file]


def gen(rng, tier):
    import numpy as np
    from pipefunc.map._storage_array._file import FileArray
    from .misc import _scratch_dir
    tmp = _scratch_dir("vf_fa_")
    n = 300 if tier == "quick" else 3000
    for q in range(n):
        shape = tuple(rng.randint(1, 4) for _ in range(rng.randint(0, 3)))
        fa = FileArray(f"{tmp}/{q % 7}", shape)
        size = int(np.prod(shape)) if shape else 1
        l = rng.randrange(size)
        if rng.random() < 0.6:
            key = tuple(int(x) for x in np.unravel_index(l, shape)) if shape else ()
        else:
            key = tuple(rng.randrange(d) for d in shape)
            if rng.random() < 0.5:
                l = rng.randrange(-2, size + 2)
        yield {"self": fa, "key": key, "l": l}


def call(fn, a):
    return fn(a["self"], a["key"])
