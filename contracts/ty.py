"""Sorts shared by the sidecar contracts (python <-> z3 mapping of the repo's data types)."""
from __future__ import annotations

from pyvc.types import (TBool, TDict, TInt, TNone, TObj, TOpaque, TOpt, TReal, TRec, TSeq, TSet, TSlice, TStr, TTuple,
                        TUnion, Tagged)

SI = TSeq(TInt)  # tuple[int, ...]
SB = TSeq(TBool)  # tuple[bool, ...]
SS = TSeq(TStr)
OptStr = TOpt(TStr)
Axes = TSeq(OptStr)


def _key_to_py(t: Tagged):
    if t.tag == "int":
        return t.value
    v = t.value
    return v if isinstance(v, slice) else slice(None)


def _key_from_py(x):
    if isinstance(x, slice):
        return Tagged("slice", repr(x))
    return Tagged("int", int(x))


TKey = TUnion("Key", [("int", TInt), ("slice", TSlice)], to_py=_key_to_py, from_py=_key_from_py)
SK = TSeq(TKey)


def _mk_arrayspec(d):
    from pipefunc.map._mapspec import ArraySpec
    return ArraySpec(d["name"], tuple(d["axes"]))


ArraySpecT = TRec("ArraySpec", {"name": TStr, "axes": Axes}, to_py=_mk_arrayspec)
SArraySpec = TSeq(ArraySpecT)


def _mk_mapspec(d):
    from pipefunc.map._mapspec import MapSpec
    return MapSpec(tuple(d["inputs"]), tuple(d["outputs"]))


MapSpecT = TRec("MapSpec", {"inputs": SArraySpec, "outputs": SArraySpec}, to_py=_mk_mapspec)
