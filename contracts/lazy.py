"""Contract for pipefunc/lazy.py::_LazyFunction.evaluate (C18: a lazy node calls its function at most once, and
evaluates to the function applied to its evaluated arguments).

Abstract view of a node: (_evaluated, _result, func, args, kwargs) plus the ghost counter `calls` = how often this
node's stored callable has been called.  The stored callable and `evaluate_lazy` on the arguments are outside the
proof (assumed contracts below); on the bounded rung the same contract is evaluated on real _LazyFunction objects whose
callable counts its calls and returns a value that names the arguments it received.
"""
from __future__ import annotations

from pyvc.engine import Contract
from pyvc.spec import CONC_IMPL
from pyvc.types import TBool, TInt, TObj, TRec

F = "pipefunc/lazy.py"


class CountingFn:
    """The callable stored in a test node: counts calls, result names the arguments it was given."""

    def __init__(self, name, fail_none=False):
        self.name, self.n, self.none = name, 0, fail_none

    def __call__(self, *args, **kwargs):
        self.n += 1
        return None if self.none else ("app", self.name, args, tuple(sorted(kwargs.items())))

    def __deepcopy__(self, memo):
        c = CountingFn(self.name, self.none)
        c.n = self.n
        return c


def _mk_lazy(d):
    from pipefunc.lazy import _LazyFunction
    fn = CountingFn(str(d["func"]))
    node = _LazyFunction(fn, d["args"] if isinstance(d["args"], tuple) else (d["args"],),
                         d["kwargs"] if isinstance(d["kwargs"], dict) else {"k": d["kwargs"]})
    node._evaluated = d["_evaluated"]
    node._result = d["_result"]
    fn.n = d["calls"]
    return node


LazyT = TRec("_LazyFunction", {"_evaluated": TBool, "_result": TObj, "func": TObj, "args": TObj, "kwargs": TObj,
                               "calls": TInt}, to_py=_mk_lazy,
             from_py=lambda o: {"_evaluated": o._evaluated, "_result": o._result, "func": o.func, "args": o.args,
                                "kwargs": o.kwargs, "calls": o.func.n})


def _calls(S, node):
    return node.calls if S.symbolic else node.func.n


def _el(S, x):
    return S.uf("spec:evaluate_lazy", TObj, x)


def _app(S, f, args, kwargs):
    return S.uf("spec:apply", TObj, f, args, kwargs)


def _conc_el(x):
    from pipefunc.lazy import evaluate_lazy
    return evaluate_lazy(x)


CONC_IMPL["spec:evaluate_lazy"] = _conc_el
CONC_IMPL["spec:apply"] = lambda f, args, kwargs: None if f.none else ("app", f.name, tuple(args),
                                                                       tuple(sorted(kwargs.items())))

def _ref_evaluate(x):
    """Reference for evaluate_lazy, from its docstring-level meaning: the same structure (same container types) with
    every lazy node replaced by its value."""
    from pipefunc.lazy import _LazyFunction
    if isinstance(x, _LazyFunction):
        return x.evaluate()
    if isinstance(x, dict):
        return {k: _ref_evaluate(v) for k, v in x.items()}
    if isinstance(x, tuple):
        return tuple(_ref_evaluate(v) for v in x)
    if isinstance(x, list):
        return [_ref_evaluate(v) for v in x]
    if isinstance(x, set):
        return {_ref_evaluate(v) for v in x}
    return x


def _shape_of(x):
    if isinstance(x, dict):
        return ("dict", tuple((k, _shape_of(v)) for k, v in x.items()))
    if isinstance(x, (tuple, list)):
        return (type(x).__name__, tuple(_shape_of(v) for v in x))
    if isinstance(x, set):
        return ("set", len(x))
    return type(x).__name__


evaluate_lazy = Contract(
    f"{F}::evaluate_lazy", params={"x": TObj}, returns=TObj, trusted=True, pure=True,
    ensures=lambda S, a, r, post: ({"is-the-evaluated-structure": S.eq(r, _el(S, a.x))} if S.symbolic else {
        "same structure with lazies replaced by their values": r == _ref_evaluate(a.x)
        and _shape_of(r) == _shape_of(_ref_evaluate(a.x))}),
    note="evaluating the arguments forces the upstream nodes (each under this same contract); assumed not to re-enter "
         "the node being evaluated - a node's arguments exist before the node, so the structure is acyclic",
)

stored_callable = Contract(
    f"{F}::_LazyFunction.func", params={"self": LazyT, "args": TObj, "kwargs": TObj}, returns=TObj, trusted=True,
    pure=False, star_call=True, modifies=("self",),
    ensures=lambda S, a, r, post: ({
        "one more call of this node's function": post.self.calls == a.self.calls + 1,
        "nothing else of the node changes": S.and_(post.self._evaluated == a.self._evaluated,
                                                   S.eq(post.self._result, a.self._result),
                                                   S.eq(post.self.func, a.self.func),
                                                   S.eq(post.self.args, a.self.args),
                                                   S.eq(post.self.kwargs, a.self.kwargs)),
        "result": S.eq(r, _app(S, a.self.func, a.args, a.kwargs)),
    } if S.symbolic else {}),
    note="the user's function: deterministic in its arguments (spec:apply), its only modelled effect is the ghost call "
         "counter of the node that stores it",
)


def _evaluate_ensures(S, a, r, post):
    n0, n1 = a.self, post.self
    want = _app(S, n0.func, _el(S, n0.args), _el(S, n0.kwargs)) if S.symbolic else None
    if not S.symbolic:
        # the value the stored callable returns for the evaluated arguments (computed without calling it)
        want = CONC_IMPL["spec:apply"](n0.func, _conc_el(n0.args), _conc_el(n0.kwargs))
    return {
        "already evaluated: no call, stored value returned": S.implies(
            n0._evaluated, lambda: S.and_(_calls(S, n1) == _calls(S, n0), S.eq(r, n0._result),
                                          S.eq(n1._result, n0._result), n1._evaluated)),
        "first evaluation: exactly one call, on the evaluated arguments; value stored": S.implies(
            S.not_(n0._evaluated), lambda: S.and_(_calls(S, n1) == _calls(S, n0) + 1, S.eq(r, want),
                                                  S.eq(n1._result, r), n1._evaluated)),
        "node identity unchanged": S.and_(S.eq(n1.func, n0.func), S.eq(n1.args, n0.args),
                                          S.eq(n1.kwargs, n0.kwargs)) if S.symbolic else
        # (pre and post objects are separate copies: compare what identifies them)
        (n1.func.name == n0.func.name and len(n1.args) == len(n0.args) and list(n1.kwargs) == list(n0.kwargs)),
    }


evaluate = Contract(
    f"{F}::_LazyFunction.evaluate", params={"self": LazyT}, returns=TObj, modifies=("self",), pure=False,
    ensures=_evaluate_ensures,
)

ALL = [evaluate_lazy, stored_callable, evaluate]


def gen(rng, tier):
    """Real nodes: fresh / already evaluated, None-valued results, nested lazy arguments (tuples, lists, dicts)."""
    from pipefunc.lazy import _LazyFunction
    n = 300 if tier == "quick" else 3000
    for q in range(n):
        def leaf():
            return rng.choice([1, "s", None, (1, 2), [3], {"k": 4}])

        def lazy_leaf():
            f = CountingFn(f"up{rng.randint(0, 9)}", fail_none=rng.random() < 0.2)
            node = _LazyFunction(f, (leaf(),), {})
            if rng.random() < 0.5:
                node.evaluate()
            return node
        args = tuple(rng.choice([leaf, lazy_leaf])() for _ in range(rng.randint(0, 3)))
        if rng.random() < 0.3:
            args += ([lazy_leaf(), leaf()],)
        kwargs = {f"k{j}": rng.choice([leaf, lazy_leaf])() for j in range(rng.randint(0, 2))}
        fn = CountingFn(f"f{q}", fail_none=rng.random() < 0.25)
        node = _LazyFunction(fn, args, kwargs)
        for _ in range(rng.randint(0, 2)):  # 0, 1 or 2 earlier evaluations
            node.evaluate()
        yield {"self": node}


def el_gen(rng, tier):
    """Nested structures of every container kind holding plain values and lazy nodes."""
    from pipefunc.lazy import _LazyFunction
    n = 300 if tier == "quick" else 3000

    def node():
        f = CountingFn(f"n{rng.randint(0, 9)}")
        return _LazyFunction(f, (rng.randint(0, 3),), {})

    def build(depth):
        kind = rng.choice(("leaf", "lazy", "tuple", "list", "dict", "set") if depth < 3 else ("leaf", "lazy"))
        if kind == "leaf":
            return rng.choice([1, "s", None, 2.5])
        if kind == "lazy":
            return node()
        if kind == "tuple":
            return tuple(build(depth + 1) for _ in range(rng.randint(0, 3)))
        if kind == "list":
            return [build(depth + 1) for _ in range(rng.randint(0, 3))]
        if kind == "dict":
            return {f"k{j}": build(depth + 1) for j in range(rng.randint(0, 3))}
        return {rng.choice([1, 2, "a", "b"]) for _ in range(rng.randint(0, 3))}
    for _ in range(n):
        yield {"x": build(0)}
