"""Contracts for MapSpec.shape (C08, C12): the output shape implied by the input shapes.

Named spec predicates keep the VCs small: has_axis / some_input_has (mapspec.py), dim_along (every position of an array
that carries an index has a given size), all_dims (all inputs), zip_mismatch (two inputs disagree along an index).
`_get_common_dim` (nested def + starred unpacking of a generator) was an assumed contract until the engine learned to keep
the assumptions made before a raise point inside a comprehension and the source-side trigger of `first, *rest`; it is proved now.
"""
from __future__ import annotations

from pyvc.engine import Contract, LoopSpec
from pyvc.types import TInt, TOpt, TStr, TTuple

from .mapspec import (F, ShapeDict, _has_axis, _some_input_has, _vs_raises)
from .ty import SB, SI, SS, ArraySpecT, MapSpecT, SArraySpec


def _dim_along(S, x, index, shapes, r):
    """x does not carry `index`, or every position of x that carries it has size r (named spec predicate)."""
    return S.opaque("spec:dim_along", [x, index, shapes, r], lambda x_, ix_, sh_, r_: S.forall(
        0, S.len(x_.axes), lambda q: S.implies(
            S.and_(S.not_(S.is_none(x_.axes[q])), lambda: S.eq(S.some(x_.axes[q]), ix_)), lambda: sh_[x_.name][q] == r_)))


def _at_most_once(S, x, index):
    return S.opaque("spec:at_most_once", [x, index], lambda x_, ix_: S.forall(0, S.len(x_.axes), lambda q1: S.forall(
        0, S.len(x_.axes), lambda q2: S.implies(S.and_(
            q1 != q2, S.not_(S.is_none(x_.axes[q1])), S.not_(S.is_none(x_.axes[q2])),
            lambda: S.eq(S.some(x_.axes[q1]), ix_)), lambda: S.not_(S.eq(S.some(x_.axes[q2]), ix_))))))


def _all_dims(S, arrays, index, shapes, r):
    return S.opaque("spec:all_dims", [arrays, index, shapes, r], lambda ar_, ix_, sh_, r_: S.forall(
        0, S.len(ar_), lambda i: _dim_along(S, ar_[i], ix_, sh_, r_)))


def _mismatch(S, arrays, index, shapes):
    """No single size fits all arrays along `index` (named spec predicate)."""
    return S.opaque("spec:zip_mismatch", [arrays, index, shapes], lambda ar_, ix_, sh_: S.exists(
        0, S.len(ar_), lambda i: S.exists(0, S.len(ar_), lambda j: S.exists(
            0, S.len(ar_[i].axes), lambda q1: S.and_(
                S.not_(S.is_none(ar_[i].axes[q1])), lambda: S.eq(S.some(ar_[i].axes[q1]), ix_),
                lambda: S.exists(0, S.len(ar_[j].axes), lambda q2: S.and_(
                    S.not_(S.is_none(ar_[j].axes[q2])), lambda: S.eq(S.some(ar_[j].axes[q2]), ix_),
                    lambda: sh_[ar_[i].name][q1] != sh_[ar_[j].name][q2])))))))


get_common_dim = Contract(
    f"{F}::_get_common_dim", params={"arrays": SArraySpec, "index": TStr, "input_shapes": ShapeDict}, returns=TInt,
    requires=lambda S, a: {
        "at least one array": S.len(a.arrays) >= 1,
        "every array carries the index and has a shape of its rank": S.forall(0, S.len(a.arrays), lambda i: S.and_(
            _has_axis(S, a.arrays[i], a.index), S.has(a.input_shapes, a.arrays[i].name),
            lambda: S.len(a.input_shapes[a.arrays[i].name]) == S.len(a.arrays[i].axes))),
        "an array names the index at most once": S.forall(0, S.len(a.arrays), lambda i: _at_most_once(S, a.arrays[i], a.index)),
    },
    raises=[("ValueError", lambda S, a: _mismatch(S, a.arrays, a.index, a.input_shapes))],
    ensures=lambda S, a, r, post: {"the common size along the index": _all_dims(S, a.arrays, a.index, a.input_shapes, r)},
    note="nested helper (inlined) + starred unpacking of a generator. (For an array that names the index twice the first "
         "position counts; MapSpecs name an index once per array.)",
)
ALL = [get_common_dim]


# ---- MapSpec.shape ------------------------------------------------------------------------------------------------------
def _out(S, a):
    return a.self.outputs[0]


def _idx(S, a, p):
    return S.some(_out(S, a).axes[p])


def _mapped(S, a, p):
    return _some_input_has(S, a.self, _idx(S, a, p))


def _Mmask(S, a):
    """spec array: output axis p is carried by some input."""
    n = S.len(_out(S, a).axes)
    return S.defarray("spec:mapped-axes", [a.self] if S.symbolic else [], lambda p: S.and_(
        0 <= p, p < n, lambda: _mapped(S, a, p)), n)


def _int_dims(S, a):
    nm = _out(S, a).name
    if not S.symbolic:
        return len(a.internal_shapes[nm]) if a.internal_shapes and nm in a.internal_shapes else 0
    return S.ite(S.and_(S.not_(S.is_none(a.internal_shapes)), lambda: S.has(S.some(a.internal_shapes), nm)),
                 lambda: S.len(S.some(a.internal_shapes)[nm]), 0)


def _int_dim(S, a, j):
    return S.some(a.internal_shapes)[_out(S, a).name][j]


def _shape_wf(S, a):
    outs = a.self.outputs
    ins = a.self.inputs
    return {"has an output whose axes are all named": S.and_(S.len(outs) >= 1, lambda: S.forall(
        0, S.len(outs[0].axes), lambda p: S.not_(S.is_none(outs[0].axes[p])))),
        "an input names an index at most once": S.forall(0, S.len(ins), lambda i: S.forall_key(
            TStr, lambda nm: _at_most_once(S, ins[i], nm),
            domain=() if S.symbolic else [x for x in ins[i].axes if x is not None]))}


def _bad_axis(S, a, M, p):
    return S.ite(_mapped(S, a, p), lambda: _mismatch(S, a.self.inputs, _idx(S, a, p), a.input_shapes),
                 lambda: S.not_(p - S.cnt(M, p) < _int_dims(S, a)))


def _shape_ensures(S, a, r, post):
    shape, mask = (r.t[0], r.t[1]) if S.symbolic and hasattr(r, "t") else (r[0], r[1])
    n = S.len(_out(S, a).axes)
    M = _Mmask(S, a)[0]
    return {
        "one entry per output axis": S.and_(S.len(shape) == n, S.len(mask) == n),
        "mask[p] <=> some input carries output axis p": S.forall(0, n, lambda p: mask[p] == _mapped(S, a, p)),
        "mapped axis: the size every input has along it": S.forall(0, n, lambda p: S.implies(
            _mapped(S, a, p), lambda: _all_dims(S, a.self.inputs, _idx(S, a, p), a.input_shapes, shape[p]))),
        "internal axis: the next entry of the output's internal shape": S.forall(0, n, lambda p: S.implies(
            S.not_(_mapped(S, a, p)), lambda: shape[p] == _int_dim(S, a, p - S.cnt(M, p)))),
    }


def _shape_inv(S, a, v, k):
    M = _Mmask(S, a)[0]
    return {
        "lens": S.and_(S.len(v.shape) == k, S.len(v.mask) == k, v.internal_shape_index == k - S.cnt(M, k)),
        "mask": S.forall(0, k, lambda p: v.mask[p] == _mapped(S, a, p)),
        "mapped": S.forall(0, k, lambda p: S.implies(_mapped(S, a, p), lambda: S.and_(
            S.not_(_mismatch(S, a.self.inputs, _idx(S, a, p), a.input_shapes)),
            _all_dims(S, a.self.inputs, _idx(S, a, p), a.input_shapes, v.shape[p])))),
        "internal": S.forall(0, k, lambda p: S.implies(S.not_(_mapped(S, a, p)), lambda: S.and_(
            p - S.cnt(M, p) < _int_dims(S, a), lambda: v.shape[p] == _int_dim(S, a, p - S.cnt(M, p))))),
    }


def _shape_hints(S, a, v, k):
    ins, rel, ix, sh = a.self.inputs, v.relevant_arrays, S.some(v.index), a.input_shapes
    nonempty = S.len(rel) > 0
    return {
        "every carrier of the index is among the relevant arrays": S.forall(0, S.len(ins), lambda i: S.implies(
            _has_axis(S, ins[i], ix), lambda: S.exists(0, S.len(rel), lambda t: S.eq(rel[t], ins[i])))),
        "every relevant array is a carrier among the inputs": S.forall(0, S.len(rel), lambda t: S.exists(
            0, S.len(ins), lambda i: S.and_(S.eq(rel[t], ins[i]), lambda: _has_axis(S, ins[i], ix)))),
        "relevant arrays exist iff the axis is mapped": nonempty == _some_input_has(S, a.self, ix),
        "... in the invariant's words": nonempty == _mapped(S, a, k),
        "the common size fits every carrier": S.implies(nonempty, lambda: S.forall(0, S.len(ins), lambda i: S.implies(
            _has_axis(S, ins[i], ix), lambda: _dim_along(S, ins[i], ix, sh, v.dim)))),
        "and, trivially, every non-carrier": S.forall(0, S.len(ins), lambda i: S.implies(
            S.not_(_has_axis(S, ins[i], ix)), lambda: _dim_along(S, ins[i], ix, sh, v.dim))),
        "the common size fits every input": S.implies(nonempty, lambda: _all_dims(S, ins, ix, sh, v.dim)),
        "no two inputs disagree": S.implies(nonempty, lambda: S.not_(_mismatch(S, ins, ix, sh))),
    }


mapspec_shape = Contract(
    f"{F}::MapSpec.shape", params={"self": MapSpecT, "input_shapes": ShapeDict, "internal_shapes": TOpt(ShapeDict)},
    defaults={"internal_shapes": None}, returns=TTuple([SI, SB]),
    requires=_shape_wf,
    axioms=lambda S, a: [_Mmask(S, a)[1]],
    raises=[("ValueError", lambda S, a: S.or_(
        _vs_bad(S, a),
        lambda: S.exists(0, S.len(_out(S, a).axes), lambda p: _bad_axis(S, a, _Mmask(S, a)[0], p))))],
    ensures=_shape_ensures,
    loops={0: LoopSpec(_shape_inv, hints=_shape_hints)},
    locals_={"shape": SI, "mask": SB, "relevant_arrays": SArraySpec, "internal_shapes": ShapeDict},
)


def _vs_bad(S, a):
    """What _validate_shapes rejects, in terms of the MapSpec itself."""
    ins, outs, sh = a.self.inputs, a.self.outputs, a.input_shapes
    is_input = lambda k: S.exists(0, S.len(ins), lambda i: S.eq(ins[i].name, k))  # noqa: E731
    is_output = lambda k: S.exists(0, S.len(outs), lambda j: S.eq(outs[j].name, k))  # noqa: E731
    return S.or_(
        S.exists_in_dict(sh, lambda k: S.not_(is_input(k))),
        S.exists(0, S.len(ins), lambda i: S.not_(S.has(sh, ins[i].name))),
        S.exists(0, S.len(ins), lambda i: S.and_(S.has(sh, ins[i].name), lambda: S.len(sh[ins[i].name]) != S.len(ins[i].axes))),
        S.and_(S.not_(S.is_none(a.internal_shapes)), lambda: S.exists_in_dict(
            S.some(a.internal_shapes), lambda k: S.not_(is_output(k)))))


ALL += [mapspec_shape]


def shape_gen(rng, tier):
    """MapSpec.shape on well-formed specs with fitting shapes and with single faults (rank, zipped size, missing /
    surplus arrays, internal shapes missing / short / for a non-output); input-shape dicts in any order."""
    from specs import mapspec_ref as ref
    from pipefunc.map._mapspec import ArraySpec, MapSpec

    def mk(spec):
        return MapSpec(tuple(ArraySpec(n, tuple(ax)) for n, ax in spec["inputs"]),
                       tuple(ArraySpec(n, tuple(ax)) for n, ax in spec["outputs"]))
    specs = ref.all_small_specs()[:200] + ref.gen_specs(rng, 100 if tier == "quick" else 1000)
    for spec in specs:
        if any(len([a for a in ax if a is not None]) != len({a for a in ax if a is not None}) for _, ax in spec["inputs"]):
            continue  # an input naming an index twice is outside the contract's precondition
        ms = mk(spec)
        idx = ref.output_indices(spec)
        sizes = {x: rng.choice((1, 2, 3, 4)) for x in idx}
        ins = {n: tuple(sizes[x] if x is not None else rng.choice((1, 2, 3)) for x in ax) for n, ax in spec["inputs"]}
        ext = set(ref.external_indices(spec))
        dims = tuple(sizes[x] for x in idx if x not in ext)
        internal = {spec["outputs"][0][0]: dims} if dims else rng.choice((None, {}))
        yield {"self": ms, "input_shapes": ins, "internal_shapes": internal}
        names = list(ins)
        if names:
            n0 = rng.choice(names)
            bad = list(ins[n0])
            if bad:
                q = rng.randrange(len(bad))
                bad[q] += 1
                yield {"self": ms, "input_shapes": {**ins, n0: tuple(bad)}, "internal_shapes": internal}
            yield {"self": ms, "input_shapes": {**ins, n0: ins[n0] + (2,)}, "internal_shapes": internal}
            yield {"self": ms, "input_shapes": {k: ins[k] for k in reversed(names) if k != n0}, "internal_shapes": internal}
            yield {"self": ms, "input_shapes": {**ins, "zz": (1,)}, "internal_shapes": internal}
        if dims:
            on = spec["outputs"][0][0]
            yield {"self": ms, "input_shapes": ins, "internal_shapes": {on: dims[:-1]}}
            yield {"self": ms, "input_shapes": ins, "internal_shapes": None}
            yield {"self": ms, "input_shapes": ins, "internal_shapes": {**internal, "nope": (2,)}}


def gcd_gen(rng, tier):
    from pipefunc.map._mapspec import ArraySpec
    for _ in range(300 if tier == "quick" else 3000):
        k = rng.randint(1, 3)
        arrays, shapes = [], {}
        size = rng.choice((1, 2, 3))
        for j in range(k):
            axes = ["i"] + [rng.choice([None, "j", "k"]) for _ in range(rng.randint(0, 2))]
            axes = [a for q, a in enumerate(axes) if a is None or a not in axes[:q]]
            rng.shuffle(axes)
            arrays.append(ArraySpec(f"a{j}", tuple(axes)))
            shapes[f"a{j}"] = tuple((size if rng.random() < 0.85 else size + 1) if a == "i" else rng.choice((1, 2)) for a in axes)
        yield {"arrays": arrays, "index": "i", "input_shapes": shapes}
