"""WIP contracts (not imported by any check yet)."""
from __future__ import annotations

from pyvc.engine import Contract, LoopSpec
from pyvc.types import TBool, TDict, TInt, TOpt, TSeq, TSet, TStr, TTuple

from .mapspec import (F, ShapeDict, _has_axis, _indices_clauses, _named, _oi, _some_input_has, all_pos)
from .ty import SB, SI, SS, ArraySpecT, MapSpecT, SArraySpec




# ---- _get_common_dim (assumed; nested def + starred unpacking of a generator are outside the engine's subset) ------------
def _dim_along(S, x, index, shapes, r):
    """Every position of x that carries `index` has size r (named spec predicate)."""
    return S.opaque("spec:dim_along", [x, index, shapes, r], lambda x_, ix_, sh_, r_: S.forall(
        0, S.len(x_.axes), lambda q: S.implies(
            S.and_(S.not_(S.is_none(x_.axes[q])), lambda: S.eq(S.some(x_.axes[q]), ix_)), lambda: sh_[x_.name][q] == r_)))


def _gcd_wellformed(S, a):
    return {
        "at least one array": S.len(a.arrays) >= 1,
        "every array carries the index, once, and has a shape of its rank": S.forall(0, S.len(a.arrays), lambda i: S.and_(
            _has_axis(S, a.arrays[i], a.index), S.has(a.input_shapes, a.arrays[i].name),
            lambda: S.len(a.input_shapes[a.arrays[i].name]) == S.len(a.arrays[i].axes),
            lambda: S.forall(0, S.len(a.arrays[i].axes), lambda q1: S.forall(0, S.len(a.arrays[i].axes), lambda q2: S.implies(
                S.and_(q1 != q2, S.not_(S.is_none(a.arrays[i].axes[q1])), S.not_(S.is_none(a.arrays[i].axes[q2]))),
                lambda: S.not_(S.eq(S.some(a.arrays[i].axes[q1]), S.some(a.arrays[i].axes[q2])))))))),
    }


def _gcd_mismatch(S, a):
    """Two of the arrays have different sizes along the index."""
    def size_differs(i, j):
        xi, xj = a.arrays[i], a.arrays[j]
        return S.exists(0, S.len(xi.axes), lambda q1: S.and_(
            S.not_(S.is_none(xi.axes[q1])), lambda: S.eq(S.some(xi.axes[q1]), a.index),
            lambda: S.exists(0, S.len(xj.axes), lambda q2: S.and_(
                S.not_(S.is_none(xj.axes[q2])), lambda: S.eq(S.some(xj.axes[q2]), a.index),
                lambda: a.input_shapes[xi.name][q1] != a.input_shapes[xj.name][q2]))))
    return S.exists(0, S.len(a.arrays), lambda i: S.exists(0, S.len(a.arrays), lambda j: size_differs(i, j)))


get_common_dim = Contract(
    f"{F}::_get_common_dim", params={"arrays": SArraySpec, "index": TStr, "input_shapes": ShapeDict}, returns=TInt,
    trusted=True, requires=_gcd_wellformed,
    raises=[("ValueError", _gcd_mismatch)],
    ensures=lambda S, a, r, post: {"the common size along the index": S.forall(
        0, S.len(a.arrays), lambda i: _dim_along(S, a.arrays[i], a.index, a.input_shapes, r))},
    note="nested function + starred unpacking of a generator: outside the engine's subset; bounded-checked",
)
ALL = [get_common_dim]


# ---- MapSpec.shape ------------------------------------------------------------------------------------------------------
from .mapspec import _vs_raises  # noqa: E402
from types import SimpleNamespace as _NS  # noqa: E402


def _out(S, a):
    return a.self.outputs[0]


def _idx(S, a, p):
    return S.some(_out(S, a).axes[p])


def _mapped(S, a, p):
    return _some_input_has(S, a.self, _idx(S, a, p))


def _internal(S, a):
    """internal_shapes or {}"""
    return a.internal_shapes


def _int_dims(S, a):
    nm = _out(S, a).name
    return S.ite(S.and_(S.not_(S.is_none(a.internal_shapes)), lambda: S.has(S.some(a.internal_shapes), nm)),
                 lambda: S.len(S.some(a.internal_shapes)[nm]), 0) if S.symbolic else \
        (len(a.internal_shapes[nm]) if a.internal_shapes and nm in a.internal_shapes else 0)


def _zip_mismatch(S, a, p):
    ins = a.self.inputs
    ix = _idx(S, a, p)

    def differs(i, j):
        xi, xj = ins[i], ins[j]
        return S.exists(0, S.len(xi.axes), lambda q1: S.and_(
            S.not_(S.is_none(xi.axes[q1])), lambda: S.eq(S.some(xi.axes[q1]), ix),
            lambda: S.exists(0, S.len(xj.axes), lambda q2: S.and_(
                S.not_(S.is_none(xj.axes[q2])), lambda: S.eq(S.some(xj.axes[q2]), ix),
                lambda: a.input_shapes[xi.name][q1] != a.input_shapes[xj.name][q2]))))
    return S.exists(0, S.len(ins), lambda i: S.exists(0, S.len(ins), lambda j: differs(i, j)))


def _n_internal_before(S, a, mask_like, p):
    """number of non-mapped output axes before position p (mask_like[q] <=> mapped(q))."""
    return p - S.cnt(mask_like, p)


def _shape_wf(S, a):
    ins, outs = a.self.inputs, a.self.outputs
    return {
        "has an output whose axes are all named": S.and_(S.len(outs) >= 1, lambda: S.forall(
            0, S.len(outs[0].axes), lambda p: S.not_(S.is_none(outs[0].axes[p])))),
        "an input names an index at most once": S.forall(0, S.len(ins), lambda i: S.forall(
            0, S.len(ins[i].axes), lambda q1: S.forall(0, S.len(ins[i].axes), lambda q2: S.implies(
                S.and_(q1 != q2, S.not_(S.is_none(ins[i].axes[q1])), S.not_(S.is_none(ins[i].axes[q2]))),
                lambda: S.not_(S.eq(S.some(ins[i].axes[q1]), S.some(ins[i].axes[q2]))))))),
    }


def _vs_args(S, a):
    """The arguments shape() passes to _validate_shapes, as a namespace for its raise condition."""
    if S.symbolic:
        import z3
        from pyvc.types import Val, unwrap
        names = z3.Function("fn:MapSpec.input_names", MapSpecT.sort(), SS.sort())
        onames = z3.Function("fn:MapSpec.output_names", MapSpecT.sort(), SS.sort())
        return names, onames
    return None


def _shape_ensures(S, a, r, post):
    shape, mask = (r.t[0], r.t[1]) if S.symbolic and hasattr(r, "t") else (r[0], r[1])
    n = S.len(_out(S, a).axes)
    return {
        "one entry per output axis": S.and_(S.len(shape) == n, S.len(mask) == n),
        "mask[p] <=> some input carries the output axis p": S.forall(0, n, lambda p: mask[p] == _mapped(S, a, p)),
        "mapped axis: the size every input has along it": S.forall(0, n, lambda p: S.implies(
            _mapped(S, a, p), lambda: S.forall(0, S.len(a.self.inputs), lambda i: _dim_along(
                S, a.self.inputs[i], _idx(S, a, p), a.input_shapes, shape[p])))),
        "internal axis: the next entry of the output's internal shape": S.forall(0, n, lambda p: S.implies(
            S.not_(_mapped(S, a, p)), lambda: shape[p] == S.some(a.internal_shapes)[_out(S, a).name][
                _n_internal_before(S, a, mask, p)])),
    }


def _shape_inv(S, a, v, k):
    n = S.len(_out(S, a).axes)
    return {
        "lens": S.and_(S.len(v.shape) == k, S.len(v.mask) == k, v.internal_shape_index == k - S.cnt(v.mask, k)),
        "mask": S.forall(0, k, lambda p: v.mask[p] == _mapped(S, a, p)),
        "mapped": S.forall(0, k, lambda p: S.implies(_mapped(S, a, p), lambda: S.and_(
            S.not_(_zip_mismatch(S, a, p)), lambda: S.forall(0, S.len(a.self.inputs), lambda i: _dim_along(
                S, a.self.inputs[i], _idx(S, a, p), a.input_shapes, v.shape[p]))))),
        "internal": S.forall(0, k, lambda p: S.implies(S.not_(_mapped(S, a, p)), lambda: S.and_(
            p - S.cnt(v.mask, p) < _int_dims(S, a),
            lambda: v.shape[p] == S.some(a.internal_shapes)[_out(S, a).name][p - S.cnt(v.mask, p)]))),
    }


mapspec_shape = Contract(
    f"{F}::MapSpec.shape", params={"self": MapSpecT, "input_shapes": ShapeDict, "internal_shapes": TOpt(ShapeDict)},
    defaults={"internal_shapes": None}, returns=TTuple([SI, SB]),
    requires=_shape_wf,
    ensures=_shape_ensures,
    loops={0: LoopSpec(_shape_inv)},
    locals_={"shape": SI, "mask": SB, "relevant_arrays": SArraySpec, "internal_shapes": ShapeDict},
)
ALL += [mapspec_shape]
