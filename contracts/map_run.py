"""Contracts for the per-function argument plumbing of pipefunc/map/_run.py (C01): which value each parameter of a
function receives in a map (bound value, else given input, else upstream output from the store, else default), and
how the result of one invocation is split over the function's output names."""
from __future__ import annotations

from pyvc.engine import Contract, LoopSpec
from pyvc.types import TDict, TObj, TOpt, TRec, TSeq, TSet, TStr

from .misc import TOut

F = "pipefunc/map/_run.py"
SS = TSeq(TStr)
SO = TSeq(TObj)
DSO = TDict(TStr, TObj)
PipeFuncMapV = TRec("PipeFuncMapV", {"parameters": SS, "_bound": DSO, "output_name": TOut, "output_picker": TOpt(TObj)})
RunInfoV = TRec("RunInfoV", {"inputs": DSO, "defaults": DSO, "all_output_names": TSet(TStr)})
LoadedV = TRec("LoadedV", {"value": TObj})

load_from_store = Contract(
    f"{F}::_load_from_store", params={"output_name": TStr, "store": DSO}, returns=LoadedV, trusted=True, pure=True,
    note="reads the stored value of an upstream output (a storage array, or the unpickled single value): deterministic in "
         "(name, store); what the store holds is C03/C04's business",
)


def _loaded(S, a, p):
    if S.symbolic:
        return S.uf("fn:_load_from_store", LoadedV, p, a.store).value
    from pipefunc.map._run import _load_from_store
    return _load_from_store(p, a.store).value


def _resolvable(S, a, p):
    return S.or_(S.has(a.func._bound, p), S.has(a.run_info.inputs, p), S.in_set(a.run_info.all_output_names, p),
                 S.has(a.run_info.defaults, p))


def _resolved(S, a, p):
    return S.ite(S.has(a.func._bound, p), lambda: a.func._bound[p], lambda: S.ite(
        S.has(a.run_info.inputs, p), lambda: a.run_info.inputs[p], lambda: S.ite(
            S.in_set(a.run_info.all_output_names, p), lambda: _loaded(S, a, p), lambda: a.run_info.defaults[p])))


func_kwargs = Contract(
    f"{F}::_func_kwargs", params={"func": PipeFuncMapV, "run_info": RunInfoV, "store": DSO}, returns=DSO,
    raises=[("ValueError", lambda S, a: S.exists(0, S.len(a.func.parameters), lambda i: S.not_(
        _resolvable(S, a, a.func.parameters[i]))))],
    ensures=lambda S, a, r, post: {
        "one argument per parameter": S.forall_key(TStr, lambda k: S.has(r, k) == S.contains(a.func.parameters, k),
                                                   domain=() if S.symbolic else list(r) + list(a.func.parameters)),
        "each argument: bound value, else given input, else upstream output read from the store, else default": S.forall(
            0, S.len(a.func.parameters), lambda i: S.eq(r[a.func.parameters[i]], _resolved(S, a, a.func.parameters[i]))),
    },
    loops={0: LoopSpec(lambda S, a, v, k: {
        "args so far": S.forall_key(TStr, lambda kk: S.has(v.kwargs, kk) == S.exists(
            0, k, lambda i: S.eq(a.func.parameters[i], kk))),
        "values so far": S.forall(0, k, lambda i: S.and_(_resolvable(S, a, a.func.parameters[i]), lambda: S.eq(
            v.kwargs[a.func.parameters[i]], _resolved(S, a, a.func.parameters[i])))),
    })},
    locals_={"kwargs": DSO},
)

# ---- _pick_output: one value per output name, picked by that name ---------------------------------------------------
from .misc import at_least_tuple  # noqa: E402

map_picker = Contract(
    f"{F}::PipeFuncMapV.output_picker", params={"self": PipeFuncMapV, "output": TObj, "name": TStr}, returns=TObj,
    trusted=True, pure=True, note="the function's output_picker: deterministic in (result, name); user code",
)


def _picked(S, a, name):
    if S.symbolic:
        return S.uf("fn:PipeFuncMapV.output_picker", TObj, a.func, a.output, name)
    return a.func.output_picker(a.output, name)


def _names(S, a):
    return S.ite(S.is_tag(a.func.output_name, "tuple"), lambda: S.untag(a.func.output_name, "tuple"),
                 lambda: S.singleton(S.untag(a.func.output_name, "str")))


pick_output = Contract(
    f"{F}::_pick_output", params={"func": PipeFuncMapV, "output": TObj}, returns=SO,
    ensures=lambda S, a, r, post: {
        "one value per output name, in order": S.len(r) == S.len(_names(S, a)),
        "with a picker: what the picker returns for that name; without: the result itself": S.forall(
            0, S.len(_names(S, a)), lambda i: S.eq(r[i], S.ite(S.is_none(a.func.output_picker), lambda: a.output,
                                                               lambda: _picked(S, a, _names(S, a)[i])))),
    },
)

ALL = [load_from_store, func_kwargs, map_picker, pick_output, at_least_tuple]


def tagging_picker(r, name):
    return ("picked", r, name)


def po_gen(rng, tier):
    for _ in range(300 if tier == "quick" else 3000):
        multi = rng.random() < 0.6
        out = tuple(rng.sample(["a", "b", "c"], rng.randint(1, 3))) if multi else rng.choice(["a", "b"])
        yield {"func": _Fn((), {}, out, tagging_picker if rng.random() < 0.6 else None), "output": f"result{rng.randint(0, 9)}"}


class _Fn:
    def __init__(self, parameters, bound, output_name="out", picker=None):
        self.parameters, self._bound, self.output_name, self.output_picker = tuple(parameters), dict(bound), output_name, picker

    def __repr__(self):
        return f"Fn({self.parameters!r}, bound={self._bound!r}, out={self.output_name!r})"


class _RI:
    def __init__(self, inputs, defaults, outs):
        self.inputs, self.defaults, self.all_output_names = dict(inputs), dict(defaults), set(outs)

    def __repr__(self):
        return f"RI(inputs={self.inputs!r}, defaults={self.defaults!r}, outs={sorted(self.all_output_names)!r})"


def fk_gen(rng, tier):
    from pipefunc.map._run import DirectValue
    names = ["x", "y", "z", "u"]
    for _ in range(600 if tier == "quick" else 6000):
        params = rng.sample(names, rng.randint(0, 4))
        pick = lambda p: {k: f"{p}:{k}" for k in names if rng.random() < 0.35}  # noqa: E731
        outs = [k for k in names if rng.random() < 0.3]
        store = {k: DirectValue(f"stored:{k}") for k in outs}
        yield {"func": _Fn(params, pick("bound")), "run_info": _RI(pick("input"), pick("default"), outs), "store": store}


# ---- _get_or_set_cache: the cache of a map run never changes what a call returns (C09) ------------------------------------
from pyvc.types import TBool, TInt, TReal  # noqa: E402

MapKey = TRec("MapCacheKey", {"out": TOut, "h": TObj}, to_py=lambda d: (d["out"], d["h"]),
              from_py=lambda t: {"out": t[0], "h": t[1]})
# (`state`: what the container holds - opaque here; a put changes it, membership and lookup are functions of it)
MapCacheV = TRec("MapCacheV", {"cid": TObj, "is_hybrid": TBool, "state": TObj})
MapCacheV.class_tests = {"HybridCache": "is_hybrid"}
ComputeFnV = TRec("ComputeFnV", {"fid": TObj, "calls": TInt})
PipeFuncOutV = TRec("PipeFuncOutV", {"output_name": TOut})

to_hashable_kw = Contract("pipefunc/cache.py::to_hashable", params={"obj": DSO}, returns=TObj, trusted=True, pure=True,
                          note="the key function H of C15 applied to the keyword arguments: deterministic")
monotonic = Contract("time::time.monotonic", params={}, returns=TReal, trusted=True, pure=False, static=True)
mc_contains = Contract(f"{F}::MapCacheV.__contains__", params={"self": MapCacheV, "key": MapKey}, returns=TBool,
                       trusted=True, pure=True, note="membership of a key (the containers' own contracts are C14)")
mc_get = Contract(f"{F}::MapCacheV.get", params={"self": MapCacheV, "key": MapKey}, returns=TObj, trusted=True, pure=True,
                  note="the value stored under a key (recency bookkeeping of the container is C14's business)")


def _mc_has(S, c, k):
    return S.uf("fn:MapCacheV.__contains__", TBool, c, k) if S.symbolic else (k in c)


def _mc_val(S, c, k):
    return S.uf("fn:MapCacheV.get", TObj, c, k) if S.symbolic else c.get(k)


def _put_ensures(S, a, r, post):
    if not S.symbolic:
        return {}
    return {"the key is resident with the value just put (C14: put stores, a full cache evicts another entry)": S.and_(
        _mc_has(S, post.self, a.key), lambda: S.eq(_mc_val(S, post.self, a.key), a.value)),
        "same container": S.and_(S.eq(post.self.cid, a.self.cid), post.self.is_hybrid == a.self.is_hybrid)}


mc_put = Contract(f"{F}::MapCacheV.put", params={"self": MapCacheV, "key": MapKey, "value": TObj, "duration": TOpt(TReal)},
                  defaults={"duration": None}, returns=None, trusted=True, pure=False, modifies=("self",),
                  requires=lambda S, a: {"HybridCache.put takes the computation time, the other containers' put does not "
                                         "(TypeError otherwise)": a.self.is_hybrid == S.not_(S.is_none(a.duration))},
                  ensures=_put_ensures,
                  note="cache.put (HybridCache takes the computation time as third argument): assumed to leave the key "
                       "resident with the value, max_size >= 1")


def _value_of(S, fn):
    return S.uf("spec:value-computed-by", TObj, fn.fid) if S.symbolic else fn.value


compute_call = Contract(
    f"{F}::ComputeFnV.__call__", params={"self": ComputeFnV}, returns=TObj, trusted=True, pure=False, modifies=("self",),
    ensures=lambda S, a, r, post: ({
        "one more call": post.self.calls == a.self.calls + 1, "same function": S.eq(post.self.fid, a.self.fid),
        "its value": S.eq(r, _value_of(S, a.self))} if S.symbolic else {}),
    note="the closure that runs the user's function on the selected arguments: deterministic; its only modelled effect is "
         "the ghost call counter",
)


def _key(S, a):
    if S.symbolic:
        from pyvc.types import Val, unwrap
        h = S.uf("fn:to_hashable", TObj, a.kwargs)
        return unwrap(Val(MapKey, MapKey.mk(out=a.func.output_name.t if hasattr(a.func.output_name, "t") else a.func.output_name,
                                            h=h.t if hasattr(h, "t") else h)))
    from pipefunc.cache import to_hashable
    return (a.func.output_name, to_hashable(a.kwargs))


def _gsc_ensures(S, a, r, post):
    no_cache = S.is_none(a.cache)
    calls0, calls1 = a.compute_fn.calls, post.compute_fn.calls
    hit = lambda: _mc_has(S, S.some(a.cache), _key(S, a))  # noqa: E731
    return {
        "without a cache: the function runs once and its value is returned": S.implies(no_cache, lambda: S.and_(
            calls1 == calls0 + 1, lambda: S.eq(r, _value_of(S, a.compute_fn)))),
        "hit: the stored value is returned and nothing runs": S.implies(S.and_(S.not_(no_cache), hit), lambda: S.and_(
            calls1 == calls0, lambda: S.eq(r, _mc_val(S, S.some(a.cache), _key(S, a))))),
        "miss: the function runs exactly once, its value is returned and is afterwards resident under the key of "
        "(output name, keyword arguments)": S.implies(S.and_(S.not_(no_cache), lambda: S.not_(hit())), lambda: S.and_(
            calls1 == calls0 + 1, lambda: S.eq(r, _value_of(S, a.compute_fn)),
            lambda: _mc_has(S, S.some(post.cache), _key(S, a)),
            lambda: S.eq(_mc_val(S, S.some(post.cache), _key(S, a)), _value_of(S, a.compute_fn)))),
    }


get_or_set_cache = Contract(
    f"{F}::_get_or_set_cache",
    params={"func": PipeFuncOutV, "kwargs": DSO, "cache": TOpt(MapCacheV), "compute_fn": ComputeFnV}, returns=TObj,
    modifies=("cache", "compute_fn"), pure=False, ensures=_gsc_ensures,
)
ALL += [to_hashable_kw, monotonic, mc_contains, mc_get, mc_put, compute_call, get_or_set_cache]


class _CountFn:
    """compute_fn of the bounded rung: counts its calls, returns a value naming itself."""

    def __init__(self, fid):
        self.fid, self.calls, self.value = fid, 0, ("computed-by", fid)

    def __call__(self):
        self.calls += 1
        return self.value

    def __repr__(self):
        return f"CountFn({self.fid!r}, calls={self.calls})"


def _fake_caches():
    from pipefunc.cache import HybridCache, _CacheBase

    class Plain(_CacheBase):
        is_hybrid = False

        def __init__(self, d):
            self.d, self.cid, self.state = dict(d), "plain", None

        def __contains__(self, k):
            return k in self.d

        def __len__(self):
            return len(self.d)

        def get(self, k):
            return self.d.get(k)

        def put(self, k, v):
            self.d[k] = v

        def clear(self):
            self.d.clear()

        def __deepcopy__(self, memo):
            return type(self)(self.d)

        def __repr__(self):
            return f"{type(self).__name__}({self.d!r})"

    class Hybrid(HybridCache):
        is_hybrid = True
        __init__ = Plain.__init__
        __contains__, __len__, get, clear = Plain.__contains__, Plain.__len__, Plain.get, Plain.clear
        __deepcopy__, __repr__ = Plain.__deepcopy__, Plain.__repr__

        def put(self, k, v, duration):
            assert isinstance(duration, float) and duration >= 0
            self.d[k] = v

        def __init__(self, d):  # noqa: F811
            self.d, self.cid, self.state = dict(d), "hybrid", None
    return Plain, Hybrid


def gsc_gen(rng, tier):
    from types import SimpleNamespace
    from pipefunc.cache import to_hashable
    Plain, Hybrid = _fake_caches()
    for q in range(400 if tier == "quick" else 4000):
        out = rng.choice(["a", "b", ("a", "b")])
        kwargs = {k: rng.randint(0, 1) for k in rng.sample(["x", "y"], rng.randint(0, 2))}
        store = {}
        for o in ("a", "b", ("a", "b")):
            for kw in ({}, {"x": 0}, {"x": 1}, {"y": 0}, {"x": 0, "y": 1}, {"y": 1, "x": 0}):
                if rng.random() < 0.25:
                    store[(o, to_hashable(kw))] = ("stored", o, tuple(sorted(kw.items())))
        cache = None if rng.random() < 0.2 else (Hybrid(store) if rng.random() < 0.5 else Plain(store))
        yield {"func": SimpleNamespace(output_name=out), "kwargs": kwargs, "cache": cache, "compute_fn": _CountFn(f"f{q}")}
