"""Contracts for the per-function argument plumbing of pipefunc/map/_run.py (C01): which value each parameter of a
function receives in a map (bound value, else given input, else upstream output from the store, else default), and
how the result of one invocation is split over the function's output names."""
from __future__ import annotations

from pyvc.engine import Contract, LoopSpec
from pyvc.types import TDict, TObj, TOpt, TRec, TSeq, TSet, TStr

from .misc import TOut

F = "pipefunc/map/_run.py"
SS = TSeq(TStr)
SO = TSeq(TObj)
DSO = TDict(TStr, TObj)
PipeFuncMapV = TRec("PipeFuncMapV", {"parameters": SS, "_bound": DSO, "output_name": TOut, "output_picker": TOpt(TObj)})
RunInfoV = TRec("RunInfoV", {"inputs": DSO, "defaults": DSO, "all_output_names": TSet(TStr)})
LoadedV = TRec("LoadedV", {"value": TObj})

load_from_store = Contract(
    f"{F}::_load_from_store", params={"output_name": TStr, "store": DSO}, returns=LoadedV, trusted=True, pure=True,
    note="reads the stored value of an upstream output (a storage array, or the unpickled single value): deterministic in "
         "(name, store); what the store holds is C03/C04's business",
)


def _loaded(S, a, p):
    if S.symbolic:
        return S.uf("fn:_load_from_store", LoadedV, p, a.store).value
    from pipefunc.map._run import _load_from_store
    return _load_from_store(p, a.store).value


def _resolvable(S, a, p):
    return S.or_(S.has(a.func._bound, p), S.has(a.run_info.inputs, p), S.in_set(a.run_info.all_output_names, p),
                 S.has(a.run_info.defaults, p))


def _resolved(S, a, p):
    return S.ite(S.has(a.func._bound, p), lambda: a.func._bound[p], lambda: S.ite(
        S.has(a.run_info.inputs, p), lambda: a.run_info.inputs[p], lambda: S.ite(
            S.in_set(a.run_info.all_output_names, p), lambda: _loaded(S, a, p), lambda: a.run_info.defaults[p])))


func_kwargs = Contract(
    f"{F}::_func_kwargs", params={"func": PipeFuncMapV, "run_info": RunInfoV, "store": DSO}, returns=DSO,
    raises=[("ValueError", lambda S, a: S.exists(0, S.len(a.func.parameters), lambda i: S.not_(
        _resolvable(S, a, a.func.parameters[i]))))],
    ensures=lambda S, a, r, post: {
        "one argument per parameter": S.forall_key(TStr, lambda k: S.has(r, k) == S.contains(a.func.parameters, k),
                                                   domain=() if S.symbolic else list(r) + list(a.func.parameters)),
        "each argument: bound value, else given input, else upstream output read from the store, else default": S.forall(
            0, S.len(a.func.parameters), lambda i: S.eq(r[a.func.parameters[i]], _resolved(S, a, a.func.parameters[i]))),
    },
    loops={0: LoopSpec(lambda S, a, v, k: {
        "args so far": S.forall_key(TStr, lambda kk: S.has(v.kwargs, kk) == S.exists(
            0, k, lambda i: S.eq(a.func.parameters[i], kk))),
        "values so far": S.forall(0, k, lambda i: S.and_(_resolvable(S, a, a.func.parameters[i]), lambda: S.eq(
            v.kwargs[a.func.parameters[i]], _resolved(S, a, a.func.parameters[i])))),
    })},
    locals_={"kwargs": DSO},
)

# ---- _pick_output: one value per output name, picked by that name ---------------------------------------------------
from .misc import at_least_tuple  # noqa: E402

map_picker = Contract(
    f"{F}::PipeFuncMapV.output_picker", params={"self": PipeFuncMapV, "output": TObj, "name": TStr}, returns=TObj,
    trusted=True, pure=True, note="the function's output_picker: deterministic in (result, name); user code",
)


def _picked(S, a, name):
    if S.symbolic:
        return S.uf("fn:PipeFuncMapV.output_picker", TObj, a.func, a.output, name)
    return a.func.output_picker(a.output, name)


def _names(S, a):
    return S.ite(S.is_tag(a.func.output_name, "tuple"), lambda: S.untag(a.func.output_name, "tuple"),
                 lambda: S.singleton(S.untag(a.func.output_name, "str")))


pick_output = Contract(
    f"{F}::_pick_output", params={"func": PipeFuncMapV, "output": TObj}, returns=SO,
    ensures=lambda S, a, r, post: {
        "one value per output name, in order": S.len(r) == S.len(_names(S, a)),
        "with a picker: what the picker returns for that name; without: the result itself": S.forall(
            0, S.len(_names(S, a)), lambda i: S.eq(r[i], S.ite(S.is_none(a.func.output_picker), lambda: a.output,
                                                               lambda: _picked(S, a, _names(S, a)[i])))),
    },
)

ALL = [load_from_store, func_kwargs, map_picker, pick_output, at_least_tuple]


def tagging_picker(r, name):
    return ("picked", r, name)


def po_gen(rng, tier):
    for _ in range(300 if tier == "quick" else 3000):
        multi = rng.random() < 0.6
        out = tuple(rng.sample(["a", "b", "c"], rng.randint(1, 3))) if multi else rng.choice(["a", "b"])
        yield {"func": _Fn((), {}, out, tagging_picker if rng.random() < 0.6 else None), "output": f"result{rng.randint(0, 9)}"}


class _Fn:
    def __init__(self, parameters, bound, output_name="out", picker=None):
        self.parameters, self._bound, self.output_name, self.output_picker = tuple(parameters), dict(bound), output_name, picker

    def __repr__(self):
        return f"Fn({self.parameters!r}, bound={self._bound!r}, out={self.output_name!r})"


class _RI:
    def __init__(self, inputs, defaults, outs):
        self.inputs, self.defaults, self.all_output_names = dict(inputs), dict(defaults), set(outs)

    def __repr__(self):
        return f"RI(inputs={self.inputs!r}, defaults={self.defaults!r}, outs={sorted(self.all_output_names)!r})"


def fk_gen(rng, tier):
    from pipefunc.map._run import DirectValue
    names = ["x", "y", "z", "u"]
    for _ in range(600 if tier == "quick" else 6000):
        params = rng.sample(names, rng.randint(0, 4))
        pick = lambda p: {k: f"{p}:{k}" for k in names if rng.random() < 0.35}  # noqa: E731
        outs = [k for k in names if rng.random() < 0.3]
        store = {k: DirectValue(f"stored:{k}") for k in outs}
        yield {"func": _Fn(params, pick("bound")), "run_info": _RI(pick("input"), pick("default"), outs), "store": store}
