"""Contracts for the combinators of pipefunc/typing.py (C16): how the verdicts on component types are combined.

The statement of C16 fixes the combination rules: "a union source needs all members accepted and a union target needs
one", generics are covariant argument by argument.  These rules live in `_all_types_compatible` (union -> union),
`_compare_generic_type_args` (parametrised generics) and the union branches of `_handle_union_types`.  They are proved
here *relative to* the verdict on the components: `is_type_compatible` itself (a recursive dispatch over `typing`
introspection, forward references and warnings) is an assumed pure relation `compat(t1, t2, memo)`; its agreement with
subtyping is C16's bounded check.  Type objects are opaque values.
"""
from __future__ import annotations

from pyvc.engine import Contract
from pyvc.types import TBool, TObj, TSeq

F = "pipefunc/typing.py"
SO = TSeq(TObj)

is_type_compatible = Contract(
    f"{F}::is_type_compatible", params={"incoming_type": TObj, "required_type": TObj, "memo": TObj}, returns=TBool,
    trusted=True, pure=True,
    note="the verdict on two component types: assumed to be a function of (incoming, required, memo); what it is, is "
         "C16's bounded check (reference subtype relation)")


def _compat(S, t1, t2, memo):
    if S.symbolic:
        return S.uf("fn:is_type_compatible", TBool, t1, t2, memo)
    import warnings
    from pipefunc.typing import is_type_compatible as real
    with warnings.catch_warnings():
        warnings.simplefilter("ignore")
        return bool(real(t1, t2, memo))


all_types_compatible = Contract(
    f"{F}::_all_types_compatible", params={"incoming_args": SO, "required_args": SO, "memo": TObj}, returns=TBool,
    ensures=lambda S, a, r, post: {
        "union into union: every source member is accepted by some target member": S.iff(
            r, S.forall(0, S.len(a.incoming_args), lambda i: S.exists(
                0, S.len(a.required_args), lambda j: _compat(S, a.incoming_args[i], a.required_args[j], a.memo)))),
    },
)

compare_generic_type_args = Contract(
    f"{F}::_compare_generic_type_args", params={"incoming_args": SO, "required_args": SO, "memo": TObj}, returns=TBool,
    ensures=lambda S, a, r, post: {
        "unparametrised on either side: compatible; otherwise covariant, argument by argument": S.iff(
            r, S.or_(S.len(a.required_args) == 0, S.len(a.incoming_args) == 0,
                     lambda: S.forall(0, S.min(S.len(a.incoming_args), S.len(a.required_args)),
                                      lambda i: _compat(S, a.incoming_args[i], a.required_args[i], a.memo)))),
    },
)
ALL = [is_type_compatible, all_types_compatible, compare_generic_type_args]


def _pool():
    from typing import Any, Optional, Union
    return [int, bool, str, float, object, list, list[int], list[bool], dict[str, int], tuple[int, str], Any,
            Union[int, str], Optional[int], int | None, type(None), complex]


def gen(rng, tier):
    from pipefunc.typing import TypeCheckMemo
    pool = _pool()
    memo = TypeCheckMemo(globals={}, locals={})
    for _ in range(400 if tier == "quick" else 4000):
        inc = tuple(rng.choice(pool) for _ in range(rng.randint(0, 3)))
        req = tuple(rng.choice(pool) for _ in range(rng.randint(0, 3)))
        yield {"incoming_args": inc, "required_args": req, "memo": memo}


# ---- _handle_union_types: "a union source needs all members accepted and a union target needs one" ---------------------
import z3  # noqa: E402
from pyvc.types import TOpt, TRec, Val  # noqa: E402

TypeV = TRec("TypeV", {"tid": TObj, "is_uniontype": TBool})
TypeV.identity = "tid"
TypeV.class_tests = {"UnionType": "is_uniontype"}

get_origin_c = Contract("typing::get_origin", params={"tp": TypeV}, returns=TObj, trusted=True, pure=True,
                        note="typing.get_origin: the unsubscripted form of a parametrised type (None otherwise)")
get_args_c = Contract("typing::get_args", params={"tp": TypeV}, returns=SO, trusted=True, pure=True,
                      note="typing.get_args: the members of a union / the arguments of a generic")


def _is_union(S, t):
    if S.symbolic:
        union = Val(TObj, z3.Const("global:Union", TObj.sort()))
        return S.or_(t.is_uniontype, lambda: S.eq(S.uf("fn:get_origin", TObj, t), union))
    from types import UnionType
    from typing import Union, get_origin
    return isinstance(t, UnionType) or get_origin(t) is Union


def _members(S, t):
    if S.symbolic:
        return S.uf("fn:get_args", SO, t)
    from typing import get_args
    return get_args(t)


def _as_obj(S, t):
    return t.tid if S.symbolic else t


def _hu_ensures(S, a, r, post):
    ui, ur = _is_union(S, a.incoming_type), _is_union(S, a.required_type)
    mi, mr = (lambda: _members(S, a.incoming_type)), (lambda: _members(S, a.required_type))
    inc, req = _as_obj(S, a.incoming_type), _as_obj(S, a.required_type)
    val = (lambda: S.some(r)) if S.symbolic else (lambda: bool(r))
    return {
        "neither is a union: no verdict here (None)": S.implies(S.and_(S.not_(ui), lambda: S.not_(ur)), lambda: S.is_none(r)),
        "union into union: every source member is accepted by some target member": S.implies(
            S.and_(ui, lambda: ur), lambda: S.and_(S.not_(S.is_none(r)), lambda: S.iff(val(), S.forall(
                0, S.len(mi()), lambda i: S.exists(0, S.len(mr()), lambda j: _compat(S, mi()[i], mr()[j], a.memo)))))),
        "a union source needs all members accepted": S.implies(
            S.and_(ui, lambda: S.not_(ur)), lambda: S.and_(S.not_(S.is_none(r)), lambda: S.iff(val(), S.forall(
                0, S.len(mi()), lambda i: _compat(S, mi()[i], req, a.memo))))),
        "a union target needs one member that accepts": S.implies(
            S.and_(S.not_(ui), lambda: ur), lambda: S.and_(S.not_(S.is_none(r)), lambda: S.iff(val(), S.exists(
                0, S.len(mr()), lambda j: _compat(S, inc, mr()[j], a.memo))))),
    }


handle_union_types = Contract(
    f"{F}::_handle_union_types", params={"incoming_type": TypeV, "required_type": TypeV, "memo": TObj},
    returns=TOpt(TBool), ensures=_hu_ensures, locals_={"Union": TObj},
)
UNION = [is_type_compatible, all_types_compatible, get_origin_c, get_args_c, handle_union_types]


def hu_gen(rng, tier):
    from pipefunc.typing import TypeCheckMemo
    pool = _pool()
    memo = TypeCheckMemo(globals={}, locals={})
    for _ in range(500 if tier == "quick" else 5000):
        yield {"incoming_type": rng.choice(pool), "required_type": rng.choice(pool), "memo": memo}


# ---- _check_identical_or_any: the base case of the relation ---------------------------------------------------------------
TypeUV = TRec("TypeUV", {"tid": TObj, "is_unresolvable": TBool, "type_str": TObj})
TypeUV.identity = "tid"
TypeUV.class_tests = {"Unresolvable": "is_unresolvable"}
warn_t = Contract("warnings::warnings.warn", params={"msg": TObj, "stacklevel": TObj}, returns=TObj, trusted=True, pure=True,
                  static=True, note="diagnostic output")


def _g(S, name):
    return Val(TObj, z3.Const(f"global:{name}", TObj.sort()))


def _cia_ensures(S, a, r, post):
    if S.symbolic:
        i, q = a.incoming_type, a.required_type
        return {"an unresolvable hint on either side: compatible (with a warning); otherwise identical types, Any required, "
                "or a missing annotation on either side": S.iff(r, S.or_(
                    i.is_unresolvable, q.is_unresolvable, lambda: S.eq(i, q), lambda: S.eq(q.tid, _g(S, "Any")),
                    lambda: S.eq(i.tid, _g(S, "NoAnnotation")), lambda: S.eq(q.tid, _g(S, "NoAnnotation"))))}
    from typing import Any
    from pipefunc.typing import NoAnnotation, Unresolvable
    i, q = a.incoming_type, a.required_type
    return {"unresolvable / identical / Any required / no annotation": bool(r) == (
        isinstance(i, Unresolvable) or isinstance(q, Unresolvable) or i == q or q is Any or i is NoAnnotation or q is NoAnnotation)}


check_identical_or_any = Contract(
    f"{F}::_check_identical_or_any", params={"incoming_type": TypeUV, "required_type": TypeUV}, returns=TBool,
    ensures=_cia_ensures, locals_={"Any": TObj, "NoAnnotation": TObj},
    note="`==` on type objects is modelled as identity of the opaque objects (type objects compare by identity, "
         "parametrised aliases by their parts - the latter is outside this model and part of the assumed relation)",
)
IDENT = [warn_t, check_identical_or_any]


def cia_gen(rng, tier):
    from pipefunc.typing import NoAnnotation, Unresolvable
    pool = _pool() + [NoAnnotation, Unresolvable("Foo")]
    for _ in range(400 if tier == "quick" else 4000):
        yield {"incoming_type": rng.choice(pool), "required_type": rng.choice(pool)}


def cia_call(fn, a):
    import warnings
    with warnings.catch_warnings():
        warnings.simplefilter("ignore")
        return fn(a["incoming_type"], a["required_type"])


# ---- _compare_single_annotated_type: only one side is Annotated[T, ...] - its primary type T decides ---------------------
compare_single_annotated = Contract(
    f"{F}::_compare_single_annotated_type", params={"annotated_type": TypeV, "other_type": TypeV, "memo": TObj}, returns=TBool,
    raises=[("ValueError", lambda S, a: S.len(_members(S, a.annotated_type)) == 0)],
    ensures=lambda S, a, r, post: {
        "the primary type of the Annotated side against the other side, in this direction": S.iff(
            r, _compat(S, _members(S, a.annotated_type)[0], _as_obj(S, a.other_type), a.memo)),
    },
    note="ValueError (nothing to unpack) only for a type without arguments - Annotated always has at least two",
)
SINGLE_ANN = [is_type_compatible, get_args_c, compare_single_annotated]


def csa_gen(rng, tier):
    from typing import Annotated
    from pipefunc.typing import Array, TypeCheckMemo
    memo = TypeCheckMemo(globals={}, locals={})
    ann = [Annotated[int, "m"], Annotated[bool, "x", "y"], Annotated[list[int], 1], Array[int], Array[str], list[int], dict[str, int]]
    for _ in range(300 if tier == "quick" else 3000):
        yield {"annotated_type": rng.choice(ann), "other_type": rng.choice(_pool()), "memo": memo}


# ---- _handle_generic_types: Annotated on both / one side, then parametrised generics (covariant) ---------------------------
get_origin_opt = Contract("typing::get_origin", params={"tp": TypeV}, returns=TOpt(TObj), trusted=True, pure=True,
                          note="typing.get_origin: the unsubscripted form of a parametrised type, None otherwise")
compare_annotated = Contract(f"{F}::_compare_annotated_types", params={"incoming_type": TypeV, "required_type": TypeV, "memo": TObj},
                             returns=TBool, trusted=True, pure=True,
                             note="both sides Annotated: primary types, then the Array element types (bounded check of C16)")
compare_origins = Contract(f"{F}::_compare_generic_type_origins", params={"incoming_origin": TObj, "required_origin": TObj},
                           returns=TBool, trusted=True, pure=True, note="issubclass on the origins of two generics")


def _origin(S, t):
    """`get_origin(t) or t` - the origin if there is a (truthy) one, else the type itself."""
    if S.symbolic:
        go = S.uf("fn:get_origin", TOpt(TObj), t)
        return S.ite(S.is_none(go), lambda: t.tid, lambda: S.some(go))
    from typing import get_origin
    return get_origin(t) or t


def _truthy(S, x):
    if S.symbolic:
        return S.and_(S.not_(S.eq(x, Val(TObj, TObj.lit(None)))), lambda: S.uf("spec:truthy", TBool, x))
    return bool(x)


def _is_ann(S, x):
    if S.symbolic:
        return S.eq(x, _g(S, "Annotated"))
    from typing import Annotated
    return x is Annotated


def _hg_parts(S, a):
    io, ro = _origin(S, a.incoming_type), _origin(S, a.required_type)
    return io, ro, _is_ann(S, io), _is_ann(S, ro)


def _hg_raises(S, a):
    io, ro, ai, ar = _hg_parts(S, a)
    return S.or_(S.and_(ai, lambda: S.not_(ar), lambda: S.len(_members(S, a.incoming_type)) == 0),
                 lambda: S.and_(ar, lambda: S.not_(ai), lambda: S.len(_members(S, a.required_type)) == 0))


def _hg_ensures(S, a, r, post):
    io, ro, ai, ar = _hg_parts(S, a)
    mi, mr = (lambda: _members(S, a.incoming_type)), (lambda: _members(S, a.required_type))
    inc, req = _as_obj(S, a.incoming_type), _as_obj(S, a.required_type)
    val = (lambda: S.some(r)) if S.symbolic else (lambda: bool(r))
    decided = lambda: S.not_(S.is_none(r))  # noqa: E731
    generic = lambda: S.and_(S.not_(ai), lambda: S.not_(ar), lambda: _truthy(S, io), lambda: _truthy(S, ro))  # noqa: E731
    if S.symbolic:
        both = S.uf("fn:_compare_annotated_types", TBool, a.incoming_type, a.required_type, a.memo)
        origins_ok = S.uf("fn:_compare_generic_type_origins", TBool, io, ro)
    else:
        import warnings
        from pipefunc.typing import _compare_annotated_types, _compare_generic_type_origins
        with warnings.catch_warnings():
            warnings.simplefilter("ignore")
            both = (lambda: _compare_annotated_types(a.incoming_type, a.required_type, a.memo))
            origins_ok = (lambda: _compare_generic_type_origins(io, ro))
    call = (lambda f: f) if S.symbolic else (lambda f: f())
    return {
        "Annotated on both sides: their own comparison": S.implies(S.and_(ai, lambda: ar), lambda: S.and_(
            decided(), lambda: S.iff(val(), call(both)))),
        "Annotated source only: its primary type against the target": S.implies(S.and_(ai, lambda: S.not_(ar)), lambda: S.and_(
            decided(), lambda: S.iff(val(), _compat(S, mi()[0], req, a.memo)))),
        "Annotated target only: the source against its primary type (direction kept)": S.implies(
            S.and_(ar, lambda: S.not_(ai)), lambda: S.and_(decided(), lambda: S.iff(val(), _compat(S, inc, mr()[0], a.memo)))),
        "two generics: origins must agree, then covariant argument by argument (unparametrised: compatible)": S.implies(
            generic(), lambda: S.and_(decided(), lambda: S.iff(val(), S.and_(call(origins_ok), lambda: S.or_(
                S.len(mr()) == 0, S.len(mi()) == 0, lambda: S.forall(0, S.min(S.len(mi()), S.len(mr())),
                                                                    lambda i: _compat(S, mi()[i], mr()[i], a.memo))))))),
        "otherwise no verdict here (None)": S.implies(
            S.and_(S.not_(ai), lambda: S.not_(ar), lambda: S.not_(S.and_(_truthy(S, io), lambda: _truthy(S, ro)))),
            lambda: S.is_none(r)),
    }


handle_generic_types = Contract(
    f"{F}::_handle_generic_types", params={"incoming_type": TypeV, "required_type": TypeV, "memo": TObj}, returns=TOpt(TBool),
    raises=[("ValueError", _hg_raises)], ensures=_hg_ensures, locals_={"Annotated": TObj},
)
GENERIC = [is_type_compatible, get_origin_opt, get_args_c, compare_annotated, compare_single_annotated, compare_origins,
           compare_generic_type_args, handle_generic_types]


def hg_gen(rng, tier):
    from typing import Annotated
    from pipefunc.typing import Array, TypeCheckMemo
    memo = TypeCheckMemo(globals={}, locals={})
    pool = _pool() + [Annotated[int, "m"], Annotated[bool, "x"], Array[int], Array[bool], list[str], dict[str, bool], tuple[int, int]]
    for _ in range(500 if tier == "quick" else 5000):
        yield {"incoming_type": rng.choice(pool), "required_type": rng.choice(pool), "memo": memo}


def hg_call(fn, a):
    import warnings
    with warnings.catch_warnings():
        warnings.simplefilter("ignore")
        return fn(a["incoming_type"], a["required_type"], a["memo"])


# ---- is_type_compatible itself: the order in which the rules are consulted ---------------------------------------------------
# Each rule is a function under its own contract (above / C16's bounded check); here they are functions of their
# arguments, and the top level is the first rule that reaches a verdict.  (The relation that the rules *use* on component
# types is this function again - modular reasoning does not tie that knot; the bounded check compares the whole against a
# reference subtype relation.)
TypeW = TRec("TypeW", {"tid": TObj, "is_typevar": TBool})
TypeW.identity = "tid"
TypeW.class_tests = {"TypeVar": "is_typevar"}
OB = TOpt(TBool)

top_resolve = Contract(f"{F}::_resolve_type", params={"type_": TObj, "memo": TObj}, returns=TypeW, trusted=True, pure=True,
                       note="forward references / strings resolved against the memo's namespaces")
top_ident = Contract(f"{F}::_check_identical_or_any", params={"incoming_type": TypeW, "required_type": TypeW}, returns=TBool,
                     trusted=True, pure=True, note="here a function of its arguments; own contract proved above")
top_typevar = Contract(f"{F}::_is_typevar_compatible", params={"incoming_type": TypeW, "required_type": TypeW, "memo": TObj},
                       returns=OB, trusted=True, pure=True, note="TypeVar targets: constraints / bound (bounded check)")
top_union = Contract(f"{F}::_handle_union_types", params={"incoming_type": TypeW, "required_type": TypeW, "memo": TObj},
                     returns=OB, trusted=True, pure=True, note="here a function of its arguments; own contract proved above")
top_generic = Contract(f"{F}::_handle_generic_types", params={"incoming_type": TypeW, "required_type": TypeW, "memo": TObj},
                       returns=OB, trusted=True, pure=True, note="here a function of its arguments; own contract proved above")


def _top_conc(a):
    """The same composition evaluated with the real rules (bounded rung)."""
    import warnings
    from typing import TypeVar
    import pipefunc.typing as T
    with warnings.catch_warnings():
        warnings.simplefilter("ignore")
        ri, rq = T._resolve_type(a.incoming_type, a.memo), T._resolve_type(a.required_type, a.memo)
        if isinstance(ri, TypeVar) or T._check_identical_or_any(ri, rq):
            return True
        for rule in (T._is_typevar_compatible, T._handle_union_types, T._handle_generic_types):
            v = rule(ri, rq, a.memo)
            if v is not None:
                return v
        return False


def _top_ensures(S, a, r, post):
    if not S.symbolic:
        return {"the first rule with a verdict decides": bool(r) == bool(_top_conc(a))}
    m = a.memo
    ri, rq = S.uf("fn:_resolve_type", TypeW, a.incoming_type, m), S.uf("fn:_resolve_type", TypeW, a.required_type, m)
    ident = S.uf("fn:_check_identical_or_any", TBool, ri, rq)
    tv, un, ge = (S.uf(f"fn:{n}", OB, ri, rq, m) for n in ("_is_typevar_compatible", "_handle_union_types", "_handle_generic_types"))
    first = S.ite(S.not_(S.is_none(tv)), lambda: S.some(tv), lambda: S.ite(
        S.not_(S.is_none(un)), lambda: S.some(un), lambda: S.ite(S.not_(S.is_none(ge)), lambda: S.some(ge), lambda: False)))
    return {"a TypeVar source or the base case accept; otherwise the first rule with a verdict decides (TypeVar target, "
            "unions, generics), and without any verdict the answer is no": S.iff(r, S.or_(ri.is_typevar, ident, lambda: first))}


is_type_compatible_top = Contract(
    f"{F}::is_type_compatible", params={"incoming_type": TObj, "required_type": TObj, "memo": TObj}, returns=TBool,
    requires=lambda S, a: {"a memo is given (the default builds an empty one, for testing)":
                           S.not_(S.eq(a.memo, Val(TObj, TObj.lit(None)))) if S.symbolic else a.memo is not None},
    ensures=_top_ensures,
)
TOP = [top_resolve, top_ident, top_typevar, top_union, top_generic, is_type_compatible_top]


def top_gen(rng, tier):
    from pipefunc.typing import TypeCheckMemo
    memo = TypeCheckMemo(globals={}, locals={})
    from typing import Annotated, TypeVar
    from pipefunc.typing import Array
    pool = _pool() + [Annotated[int, "m"], Array[int], Array[bool], list[str], tuple[int, int], TypeVar("T"),
                      TypeVar("B", bound=int), TypeVar("C", int, str), "int", "list[int]"]
    for _ in range(600 if tier == "quick" else 6000):
        yield {"incoming_type": rng.choice(pool), "required_type": rng.choice(pool), "memo": memo}
