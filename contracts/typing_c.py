"""Contracts for the combinators of pipefunc/typing.py (C16): how the verdicts on component types are combined.

The statement of C16 fixes the combination rules: "a union source needs all members accepted and a union target needs
one", generics are covariant argument by argument.  These rules live in `_all_types_compatible` (union -> union),
`_compare_generic_type_args` (parametrised generics) and the union branches of `_handle_union_types`.  They are proved
here *relative to* the verdict on the components: `is_type_compatible` itself (a recursive dispatch over `typing`
introspection, forward references and warnings) is an assumed pure relation `compat(t1, t2, memo)`; its agreement with
subtyping is C16's bounded check.  Type objects are opaque values.
"""
from __future__ import annotations

from pyvc.engine import Contract
from pyvc.types import TBool, TObj, TSeq

F = "pipefunc/typing.py"
SO = TSeq(TObj)

is_type_compatible = Contract(
    f"{F}::is_type_compatible", params={"incoming_type": TObj, "required_type": TObj, "memo": TObj}, returns=TBool,
    trusted=True, pure=True,
    note="the verdict on two component types: assumed to be a function of (incoming, required, memo); what it is, is "
         "C16's bounded check (reference subtype relation)")


def _compat(S, t1, t2, memo):
    if S.symbolic:
        return S.uf("fn:is_type_compatible", TBool, t1, t2, memo)
    import warnings
    from pipefunc.typing import is_type_compatible as real
    with warnings.catch_warnings():
        warnings.simplefilter("ignore")
        return bool(real(t1, t2, memo))


all_types_compatible = Contract(
    f"{F}::_all_types_compatible", params={"incoming_args": SO, "required_args": SO, "memo": TObj}, returns=TBool,
    ensures=lambda S, a, r, post: {
        "union into union: every source member is accepted by some target member": S.iff(
            r, S.forall(0, S.len(a.incoming_args), lambda i: S.exists(
                0, S.len(a.required_args), lambda j: _compat(S, a.incoming_args[i], a.required_args[j], a.memo)))),
    },
)

compare_generic_type_args = Contract(
    f"{F}::_compare_generic_type_args", params={"incoming_args": SO, "required_args": SO, "memo": TObj}, returns=TBool,
    ensures=lambda S, a, r, post: {
        "unparametrised on either side: compatible; otherwise covariant, argument by argument": S.iff(
            r, S.or_(S.len(a.required_args) == 0, S.len(a.incoming_args) == 0,
                     lambda: S.forall(0, S.min(S.len(a.incoming_args), S.len(a.required_args)),
                                      lambda i: _compat(S, a.incoming_args[i], a.required_args[i], a.memo)))),
    },
)
ALL = [is_type_compatible, all_types_compatible, compare_generic_type_args]


def _pool():
    from typing import Any, Optional, Union
    return [int, bool, str, float, object, list, list[int], list[bool], dict[str, int], tuple[int, str], Any,
            Union[int, str], Optional[int], int | None, type(None), complex]


def gen(rng, tier):
    from pipefunc.typing import TypeCheckMemo
    pool = _pool()
    memo = TypeCheckMemo(globals={}, locals={})
    for _ in range(400 if tier == "quick" else 4000):
        inc = tuple(rng.choice(pool) for _ in range(rng.randint(0, 3)))
        req = tuple(rng.choice(pool) for _ in range(rng.randint(0, 3)))
        yield {"incoming_args": inc, "required_args": req, "memo": memo}
