"""Contracts for the error bookkeeping of C13: which ErrorSnapshot a pipeline exposes."""
from __future__ import annotations

from pyvc.engine import Contract
from pyvc.types import TObj, TOpt, TRec, TSeq, TStr

F = "pipefunc/_pipeline/_base.py"
# what Pipeline.error_snapshot reads: of each function its snapshot (if any), of a snapshot its timestamp
SnapV = TRec("ErrorSnapshotV", {"timestamp": TStr, "sid": TObj})
PFSnapV = TRec("PipeFuncSnapV", {"error_snapshot": TOpt(SnapV)})
PipelineSnapV = TRec("PipelineSnapV", {"functions": TSeq(PFSnapV)})


def _snap(S, f):
    return f.error_snapshot


def _ensures(S, a, r, post):
    fs = a.self.functions
    has = lambda i: S.not_(S.is_none(_snap(S, fs[i])))  # noqa: E731
    ts = lambda i: S.some(_snap(S, fs[i])).timestamp  # noqa: E731
    return {
        "None exactly when no function holds a snapshot": S.iff(S.is_none(r), S.forall(0, S.len(fs), lambda i: S.not_(has(i)))),
        "otherwise the snapshot of one of the functions, and no function holds a more recent one (ISO timestamps "
        "compare like the instants they denote)": S.implies(S.not_(S.is_none(r)), lambda: S.and_(
            S.exists(0, S.len(fs), lambda i: S.and_(has(i), lambda: S.eq(S.some(_snap(S, fs[i])), S.some(r)))),
            lambda: S.forall(0, S.len(fs), lambda i: S.implies(has(i), lambda: S.str_le(ts(i), S.some(r).timestamp))))),
    }


error_snapshot = Contract(
    f"{F}::Pipeline.error_snapshot", params={"self": PipelineSnapV}, returns=TOpt(SnapV), pure=True,
    ensures=_ensures,
)
ALL = [error_snapshot]


class _Snap:
    def __init__(self, timestamp, sid):
        self.timestamp, self.sid = timestamp, sid

    def __eq__(self, other):
        return isinstance(other, _Snap) and (self.timestamp, self.sid) == (other.timestamp, other.sid)

    def __hash__(self):
        return hash((self.timestamp, self.sid))

    def __repr__(self):
        return f"Snap({self.timestamp!r}, {self.sid!r})"


class _Fn:
    def __init__(self, snap):
        self.error_snapshot = snap

    def __repr__(self):
        return f"Fn({self.error_snapshot!r})"


class _Pipe:
    def __init__(self, functions):
        self.functions = functions

    def __repr__(self):
        return f"Pipe({self.functions!r})"


def gen(rng, tier):
    stamps = ["2026-01-01T00:00:00.000001+00:00", "2026-01-01T00:00:00.000002+00:00", "2026-01-01T00:00:10.5+00:00",
              "2025-12-31T23:59:59.999999+00:00"]
    for _ in range(300 if tier == "quick" else 3000):
        n = rng.randint(0, 4)
        fs = [_Fn(_Snap(rng.choice(stamps), f"s{i}") if rng.random() < 0.6 else None) for i in range(n)]
        yield {"self": _Pipe(fs)}
