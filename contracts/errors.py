"""Contracts for the error bookkeeping of C13: which ErrorSnapshot a pipeline exposes."""
from __future__ import annotations

from pyvc.engine import Contract
from pyvc.types import TObj, TOpt, TRec, TSeq, TStr

F = "pipefunc/_pipeline/_base.py"
# what Pipeline.error_snapshot reads: of each function its snapshot (if any), of a snapshot its timestamp
SnapV = TRec("ErrorSnapshotV", {"timestamp": TStr, "sid": TObj})
PFSnapV = TRec("PipeFuncSnapV", {"error_snapshot": TOpt(SnapV)})
PipelineSnapV = TRec("PipelineSnapV", {"functions": TSeq(PFSnapV)})


def _snap(S, f):
    return f.error_snapshot


def _ensures(S, a, r, post):
    fs = a.self.functions
    has = lambda i: S.not_(S.is_none(_snap(S, fs[i])))  # noqa: E731
    ts = lambda i: S.some(_snap(S, fs[i])).timestamp  # noqa: E731
    return {
        "None exactly when no function holds a snapshot": S.iff(S.is_none(r), S.forall(0, S.len(fs), lambda i: S.not_(has(i)))),
        "otherwise the snapshot of one of the functions, and no function holds a more recent one (ISO timestamps "
        "compare like the instants they denote)": S.implies(S.not_(S.is_none(r)), lambda: S.and_(
            S.exists(0, S.len(fs), lambda i: S.and_(has(i), lambda: S.eq(S.some(_snap(S, fs[i])), S.some(r)))),
            lambda: S.forall(0, S.len(fs), lambda i: S.implies(has(i), lambda: S.str_le(ts(i), S.some(r).timestamp))))),
    }


error_snapshot = Contract(
    f"{F}::Pipeline.error_snapshot", params={"self": PipelineSnapV}, returns=TOpt(SnapV), pure=True,
    ensures=_ensures,
)
ALL = [error_snapshot]


class _Snap:
    def __init__(self, timestamp, sid):
        self.timestamp, self.sid = timestamp, sid

    def __eq__(self, other):
        return isinstance(other, _Snap) and (self.timestamp, self.sid) == (other.timestamp, other.sid)

    def __hash__(self):
        return hash((self.timestamp, self.sid))

    def __repr__(self):
        return f"Snap({self.timestamp!r}, {self.sid!r})"


class _Fn:
    def __init__(self, snap):
        self.error_snapshot = snap

    def __repr__(self):
        return f"Fn({self.error_snapshot!r})"


class _Pipe:
    def __init__(self, functions):
        self.functions = functions

    def __repr__(self):
        return f"Pipe({self.functions!r})"


def gen(rng, tier):
    stamps = ["2026-01-01T00:00:00.000001+00:00", "2026-01-01T00:00:00.000002+00:00", "2026-01-01T00:00:10.5+00:00",
              "2025-12-31T23:59:59.999999+00:00"]
    for _ in range(300 if tier == "quick" else 3000):
        n = rng.randint(0, 4)
        fs = [_Fn(_Snap(rng.choice(stamps), f"s{i}") if rng.random() < 0.6 else None) for i in range(n)]
        yield {"self": _Pipe(fs)}


# ---- ErrorSnapshot.reproduce: the stored invocation, once more (C13: "reproduce() raises the same exception") -------------
from pyvc.spec import CONC_IMPL  # noqa: E402
from pyvc.types import TInt  # noqa: E402

from .lazy import CountingFn  # noqa: E402

PF = "pipefunc/_pipefunc.py"


def _mk_snapshot(d):
    from pipefunc._pipefunc import ErrorSnapshot
    fn = d["function"] if isinstance(d["function"], CountingFn) else CountingFn(str(d["function"]))
    fn.n = d["calls"]
    return ErrorSnapshot(function=fn, exception=ValueError("boom"), args=d["args"] if isinstance(d["args"], tuple) else (d["args"],),
                         kwargs=d["kwargs"] if isinstance(d["kwargs"], dict) else {"k": d["kwargs"]})


ErrorSnapshotRV = TRec("ErrorSnapshot", {"function": TObj, "args": TObj, "kwargs": TObj, "calls": TInt}, to_py=_mk_snapshot,
                       from_py=lambda o: {"function": o.function, "args": o.args, "kwargs": o.kwargs, "calls": o.function.n})


def _apply(S, f, args, kwargs):
    if S.symbolic:
        return S.uf("spec:apply", TObj, f, args, kwargs)
    return CONC_IMPL["spec:apply"](f, args, kwargs)


snapshot_function = Contract(
    f"{PF}::ErrorSnapshot.function", params={"self": ErrorSnapshotRV, "args": TObj, "kwargs": TObj}, returns=TObj, trusted=True,
    pure=False, star_call=True, modifies=("self",),
    ensures=lambda S, a, r, post: ({
        "one more call of the stored function": post.self.calls == a.self.calls + 1,
        "nothing else of the snapshot changes": S.and_(S.eq(post.self.function, a.self.function),
                                                      S.eq(post.self.args, a.self.args), S.eq(post.self.kwargs, a.self.kwargs)),
        "result": S.eq(r, _apply(S, a.self.function, a.args, a.kwargs)),
    } if S.symbolic else {}),
    note="the failing function as stored in the snapshot: deterministic in its arguments (spec:apply) - whatever it does "
         "(return or raise) it does again; its only modelled effect is the ghost call counter",
)

reproduce = Contract(
    f"{PF}::ErrorSnapshot.reproduce", params={"self": ErrorSnapshotRV}, returns=TObj, modifies=("self",), pure=False,
    ensures=lambda S, a, r, post: {
        "the stored function is invoked exactly once, with exactly the stored positional and keyword arguments, and what it "
        "does is what reproduce does": S.and_(
            (post.self.calls if S.symbolic else post.self.function.n) == (a.self.calls if S.symbolic else a.self.function.n) + 1,
            lambda: S.eq(r, _apply(S, a.self.function, a.self.args, a.self.kwargs))),
        "the snapshot is unchanged": S.and_(S.eq(post.self.args, a.self.args), S.eq(post.self.kwargs, a.self.kwargs)),
    },
)
REPRODUCE = [snapshot_function, reproduce]


def repro_gen(rng, tier):
    from pipefunc._pipefunc import ErrorSnapshot
    for q in range(200 if tier == "quick" else 2000):
        fn = CountingFn(f"f{q}")
        fn.n = rng.randint(0, 2)
        args = tuple(rng.choice([1, "a", (2, 3)]) for _ in range(rng.randint(0, 2)))
        kwargs = {k: rng.choice([0, "v", [1]]) for k in ("x", "y") if rng.random() < 0.6}
        yield {"self": ErrorSnapshot(function=fn, exception=ValueError("boom"), args=args, kwargs=kwargs)}
