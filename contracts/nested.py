"""Contract for pipefunc/_pipefunc.py::_NestedFuncWrapper.__call__ (C10: nest_funcs / NestedPipeFunc preserve values).

The wrapper calls the inner pipeline's function (which returns a dict name -> value) and hands out the value of its
output name - for several output names the tuple of their values *in the order of the names* (the NestedPipeFunc's
output picker then indexes that tuple by position)."""
from __future__ import annotations

from pyvc.engine import Contract
from pyvc.types import TDict, TInt, TObj, TRec, TStr, TUnion, TSeq, Tagged

from .misc import TOut

F = "pipefunc/_pipefunc.py"
DSO = TDict(TStr, TObj)
SO = TSeq(TObj)


class DictFn:
    """The inner function of the bounded rung: returns a fixed dict, counts its calls."""

    def __init__(self, result, n=0):
        self.result, self.n = dict(result), n

    def __call__(self, *args, **kwargs):
        self.n += 1
        return dict(self.result)

    def __deepcopy__(self, memo):
        return DictFn(self.result, self.n)

    def __repr__(self):
        return f"DictFn({self.result!r})"


def _mk(d):
    from pipefunc._pipefunc import _NestedFuncWrapper
    w = _NestedFuncWrapper.__new__(_NestedFuncWrapper)
    w.func, w.output_name = d["func"], d["output_name"]
    return w


WrapV = TRec("_NestedFuncWrapper", {"func": TObj, "output_name": TOut, "calls": TInt}, to_py=_mk,
             from_py=lambda o: {"func": o.func, "output_name": o.output_name, "calls": o.func.n})
TRes = TUnion("WrapperResult", [("one", TObj), ("tuple", SO)],
              to_py=lambda t: t.value if t.tag == "one" else tuple(t.value),
              from_py=lambda x: Tagged("tuple", tuple(x)) if isinstance(x, tuple) else Tagged("one", x))


def _result_dict(S, a):
    if S.symbolic:
        return S.uf("spec:inner-results", DSO, a.self.func, a.args, a.kwds)
    return a.self.func.result


inner_func = Contract(
    f"{F}::_NestedFuncWrapper.func", params={"self": WrapV, "args": TObj, "kwargs": TObj}, returns=DSO, trusted=True,
    pure=False, star_call=True, modifies=("self",),
    ensures=lambda S, a, r, post: ({
        "one more call": post.self.calls == a.self.calls + 1,
        "nothing else changes": S.and_(S.eq(post.self.func, a.self.func), S.eq(post.self.output_name, a.self.output_name)),
        "the results of the inner pipeline for these arguments": S.eq(r, S.uf("spec:inner-results", DSO, a.self.func, a.args, a.kwargs))
        if not S.symbolic else r.t == S.uf("spec:inner-results", DSO, a.self.func, a.args, a.kwargs).t,
    } if S.symbolic else {}),
    note="the inner pipeline's function (full_output): a dict name -> value, deterministic in the arguments",
)


def _names(S, a):
    return S.untag(a.self.output_name, "tuple")


def _missing(S, a):
    d = _result_dict(S, a)
    return S.ite(S.is_tag(a.self.output_name, "str"), lambda: S.not_(S.has(d, S.untag(a.self.output_name, "str"))),
                 lambda: S.exists(0, S.len(_names(S, a)), lambda i: S.not_(S.has(d, _names(S, a)[i]))))


def _ensures(S, a, r, post):
    d = _result_dict(S, a)
    if S.symbolic:
        return {
            "one output name: its value": S.implies(S.is_tag(a.self.output_name, "str"), lambda: S.and_(
                S.is_tag(r, "one"), lambda: S.eq(S.untag(r, "one"), d[S.untag(a.self.output_name, "str")]))),
            "several output names: the tuple of their values, in the order of the names": S.implies(
                S.is_tag(a.self.output_name, "tuple"), lambda: S.and_(
                    S.is_tag(r, "tuple"), lambda: S.len(S.untag(r, "tuple")) == S.len(_names(S, a)),
                    lambda: S.forall(0, S.len(_names(S, a)), lambda i: S.eq(S.untag(r, "tuple")[i], d[_names(S, a)[i]])))),
            "the inner function ran exactly once": post.self.calls == a.self.calls + 1,
        }
    on = a.self.output_name
    return {
        "value(s) by name, in the order of the names": r == (d[on] if isinstance(on, str) else tuple(d[n] for n in on)),
        "the inner function ran exactly once": post.self.func.n == a.self.func.n + 1,
    }


wrapper_call = Contract(
    f"{F}::_NestedFuncWrapper.__call__", params={"self": WrapV, "args": TObj, "kwds": TObj}, vararg="args", returns=TRes,
    modifies=("self",), pure=False, raises=[("KeyError", _missing)], ensures=_ensures,
)
ALL = [inner_func, wrapper_call]


def gen(rng, tier):
    for q in range(300 if tier == "quick" else 3000):
        names = rng.sample(["a", "b", "c", "d"], rng.randint(1, 4))
        res = {n: f"val_{n}_{q}" for n in names}
        rng.shuffle(names)  # (the order of the output names need not be the order in which the values were computed)
        out = tuple(names[:rng.randint(1, len(names))]) if rng.random() < 0.6 else names[0]
        if rng.random() < 0.1:
            out = "zz" if isinstance(out, str) else out + ("zz",)
        w = _mk({"func": DictFn(res), "output_name": out})
        yield {"self": w, "args": (), "kwds": {"x": q}}


def call(fn, a):
    return fn(a["self"], *a["args"], **a["kwds"])
