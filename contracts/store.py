"""Contracts for how the result of a function *without* an element-wise MapSpec reaches the store of a map run
(pipefunc/map/_run.py; C05: "results completely stored before the interruption", C01/C04: what a later function or a
later process reads back).

A value of the store is seen through `StoreValV`: which kind it is (storage array / path of a pickle file / in-memory
`DirectValue`) and what it currently holds - `held` is None while nothing is stored (no file at the path, a DirectValue
that is still missing).  `dump` to a path (pipefunc/_utils.py, atomic write: C05's bounded kill enumeration) and
`Path.is_file` / `load` are assumed to act on that view.
"""
from __future__ import annotations

from pyvc.engine import Contract, LoopSpec
from pyvc.types import TBool, TDict, TObj, TOpt, TRec, TSeq, TStr, TUnion, Tagged

from .misc import TOut

F = "pipefunc/map/_run.py"
SO = TSeq(TObj)
StoreValV = TRec("StoreValV", {"sid": TObj, "is_storage": TBool, "is_path": TBool, "is_direct": TBool, "value": TOpt(TObj)})
StoreValV.class_tests = {"StorageBase": "is_storage", "Path": "is_path", "DirectValue": "is_direct"}
DStoreV = TDict(TStr, StoreValV)


def _wf_store(S, store):
    if not S.symbolic:  # real objects: an instance of exactly one of the three classes
        return all(sum(map(bool, _kind(S, e))) == 1 for e in store.values())
    return S.forall_key(TStr, lambda k: S.implies(S.has(store, k), lambda: S.and_(
        S.or_(store[k].is_storage, store[k].is_path, store[k].is_direct),
        S.not_(S.and_(store[k].is_storage, store[k].is_path)), S.not_(S.and_(store[k].is_storage, store[k].is_direct)),
        S.not_(S.and_(store[k].is_path, store[k].is_direct)))))


dump_to_path = Contract(
    "pipefunc/_utils.py::dump", params={"obj": TObj, "path": StoreValV}, returns=None, trusted=True, pure=False,
    modifies=("path",),
    requires=lambda S, a: {"a path": a.path.is_path},
    ensures=lambda S, a, r, post: ({
        "the file at the path holds the object": S.and_(
            S.not_(S.is_none(post.path.value)), lambda: S.eq(S.some(post.path.value), a.obj)),
        "same path": S.and_(S.eq(post.path.sid, a.path.sid), post.path.is_path, S.not_(post.path.is_storage),
                            S.not_(post.path.is_direct))} if S.symbolic else {}),
    note="_utils.dump(obj, path): the pickle of obj is at the path afterwards (written atomically - C05's kill "
         "enumeration); seen here as the `value` of the store entry",
)


# ---- the real objects of the bounded rung -------------------------------------------------------------------------------
def _held(S, entry):
    """What a store entry holds (None: nothing yet)."""
    if S.symbolic:
        return entry.value
    from pathlib import Path
    from pipefunc._utils import load
    from pipefunc.map._result import DirectValue
    if isinstance(entry, Path):
        return ("held", load(entry)) if entry.is_file() else None
    if isinstance(entry, DirectValue):
        return ("held", entry.value) if entry.exists() else None
    return None


def _holds(S, entry, obj):
    if S.symbolic:
        return S.and_(S.not_(S.is_none(entry.value)), lambda: S.eq(S.some(entry.value), obj))
    return _held(S, entry) == ("held", obj)


def _kind(S, entry):
    if S.symbolic:
        return (entry.is_storage, entry.is_path, entry.is_direct)
    from pathlib import Path
    from pipefunc.map._result import DirectValue
    from pipefunc.map._storage_array._base import StorageBase
    return (isinstance(entry, StorageBase), isinstance(entry, Path), isinstance(entry, DirectValue))


def _same_entry(S, e1, e0):
    """Same object, same content."""
    if S.symbolic:
        return S.eq(e1, e0)
    return _kind(S, e1) == _kind(S, e0) and _held(S, e1) == _held(S, e0)


def _same_identity(S, e1, e0):
    if S.symbolic:
        return S.and_(S.eq(e1.sid, e0.sid), e1.is_storage == e0.is_storage, e1.is_path == e0.is_path,
                      e1.is_direct == e0.is_direct)
    return _kind(S, e1) == _kind(S, e0)


def _frame(S, s0, s1, touched):
    """Same names; every entry except the touched ones is unchanged; the touched ones keep their identity."""
    dom = () if S.symbolic else list(s0) + list(s1)
    return S.and_(
        S.forall_key(TStr, lambda k: S.has(s1, k) == S.has(s0, k), domain=dom),
        lambda: S.forall_key(TStr, lambda k: S.implies(S.has(s0, k), lambda: S.ite(
            touched(k), lambda: _same_identity(S, s1[k], s0[k]), lambda: _same_entry(S, s1[k], s0[k]))), domain=dom))


# ---- _single_dump_single_output -------------------------------------------------------------------------------------------
def _sdso_raises_assert(S, a):
    if not S.symbolic and a.output_name not in a.store:
        return False
    e = a.store[a.output_name]
    st, pa, di = _kind(S, e)
    return S.and_(S.has(a.store, a.output_name), lambda: S.or_(st, S.and_(S.not_(pa), S.not_(di))))


single_dump_single_output = Contract(
    f"{F}::_single_dump_single_output", params={"output": TObj, "output_name": TStr, "store": DStoreV}, returns=None,
    modifies=("store",), pure=False,
    requires=lambda S, a: {"store entries are of exactly one kind": _wf_store(S, a.store)},
    raises=[("KeyError", lambda S, a: S.not_(S.has(a.store, a.output_name))), ("AssertionError", _sdso_raises_assert)],
    ensures=lambda S, a, r, post: {
        "the entry of this output holds the output afterwards": _holds(S, post.store[a.output_name], a.output),
        "nothing else in the store changes": _frame(S, a.store, post.store, lambda k: S.eq(k, a.output_name)),
    },
)


# ---- _dump_single_output --------------------------------------------------------------------------------------------------
LoadedOutputsV = TRec("_LoadedOutputs", {"values": SO})


def _out_to_py(t: Tagged):
    if t.tag == "_LoadedOutputs":
        from pipefunc.map._run import _LoadedOutputs
        return _LoadedOutputs(tuple(t.value["values"]) if isinstance(t.value, dict) else tuple(t.value.values))
    return t.value


def _out_from_py(x):
    from pipefunc.map._run import _LoadedOutputs
    return Tagged("_LoadedOutputs", {"values": tuple(x.values)}) if isinstance(x, _LoadedOutputs) else Tagged("raw", x)


TOutput = TUnion("FuncOutput", [("_LoadedOutputs", LoadedOutputsV), ("raw", TObj)], to_py=_out_to_py, from_py=_out_from_py)
PipeFuncDumpV = TRec("PipeFuncDumpV", {"output_name": TOut, "output_picker": TOpt(TObj), "fid": TObj})

picker = Contract(
    f"{F}::PipeFuncDumpV.output_picker", params={"self": PipeFuncDumpV, "output": TOutput, "name": TStr}, returns=TObj,
    trusted=True, pure=True, note="the function's output_picker: deterministic in (result, name); user code")


def _pick(S, a, name):
    if S.symbolic:
        return S.uf("fn:PipeFuncDumpV.output_picker", TObj, a.func, a.output, name)
    return a.func.output_picker(a.output, name)


def _is_loaded(S, a):
    if S.symbolic:
        return S.is_tag(a.output, "_LoadedOutputs")
    from pipefunc.map._run import _LoadedOutputs
    return isinstance(a.output, _LoadedOutputs)


def _raw(S, a):
    return S.untag(a.output, "raw")


def _names(S, a):
    return S.untag(a.func.output_name, "tuple")


def _dso_ensures(S, a, r, post):
    s0, s1 = a.store, post.store
    multi = S.is_tag(a.func.output_name, "tuple")
    in_names = lambda k: S.contains(_names(S, a), k)  # noqa: E731
    return {
        "outputs that were found in the store are handed on as they are; the store is not written": S.implies(
            _is_loaded(S, a), lambda: S.and_(
                S.eq(r, S.untag(a.output, "_LoadedOutputs").values) if S.symbolic else tuple(r) == tuple(a.output.values),
                lambda: _frame(S, s0, s1, lambda k: False))),
        "several output names: every name gets the value picked for it, in the order of the names, and its entry holds "
        "that value": S.implies(S.and_(S.not_(_is_loaded(S, a)), multi), lambda: S.and_(
            S.len(r) == S.len(_names(S, a)),
            lambda: S.forall(0, S.len(_names(S, a)), lambda i: S.and_(
                S.eq(r[i], _pick(S, a, _names(S, a)[i])), lambda: _holds(S, s1[_names(S, a)[i]], _pick(S, a, _names(S, a)[i])))),
            lambda: _frame(S, s0, s1, in_names))),
        "one output name: the result itself is returned and held by the entry of that name": S.implies(
            S.and_(S.not_(_is_loaded(S, a)), S.not_(multi)), lambda: S.and_(
                S.len(r) == 1, lambda: S.eq(r[0], _raw(S, a)),
                lambda: _holds(S, s1[S.untag(a.func.output_name, "str")], _raw(S, a)),
                lambda: _frame(S, s0, s1, lambda k: S.eq(k, S.untag(a.func.output_name, "str"))))),
    }


def _dso_inv(S, a, v, k):
    s0, s1 = a.store, v.store
    names = _names(S, a)
    done = lambda q: S.exists(0, k, lambda i: S.eq(names[i], q))  # noqa: E731
    return {
        "picked so far": S.and_(S.len(v.new_output) == k, lambda: S.forall(0, k, lambda i: S.and_(
            S.eq(v.new_output[i], _pick(S, a, names[i])), lambda: _holds(S, s1[names[i]], _pick(S, a, names[i]))))),
        "frame": _frame(S, s0, s1, done),
    }


def _dso_requires(S, a):
    names_in_store = S.ite(S.is_tag(a.func.output_name, "tuple"),
                           lambda: S.forall(0, S.len(_names(S, a)), lambda i: S.and_(
                               S.has(a.store, _names(S, a)[i]), lambda: _writable(S, a.store[_names(S, a)[i]]))),
                           lambda: S.and_(S.has(a.store, S.untag(a.func.output_name, "str")),
                                          lambda: _writable(S, a.store[S.untag(a.func.output_name, "str")])))
    return {
        "the store has a path or an in-memory slot for every output name of the function (RunInfo.init_store)":
            S.or_(_is_loaded(S, a), lambda: names_in_store),
        "a function with several output names has an output picker": S.implies(
            S.is_tag(a.func.output_name, "tuple"), lambda: S.not_(S.is_none(a.func.output_picker))),
        "store entries are of exactly one kind": _wf_store(S, a.store),
    }


def _writable(S, e):
    st, pa, di = _kind(S, e)
    return S.and_(S.not_(st), S.or_(pa, di))


dump_single_output = Contract(
    f"{F}::_dump_single_output", params={"func": PipeFuncDumpV, "output": TOutput, "store": DStoreV}, returns=SO,
    modifies=("store",), pure=False, requires=_dso_requires, ensures=_dso_ensures,
    loops={0: LoopSpec(_dso_inv)}, locals_={"new_output": SO},
)
ALL = [dump_to_path, picker, single_dump_single_output, dump_single_output]


# ---- generators -------------------------------------------------------------------------------------------------------
def _mk_store(rng, tmp, q, names):
    from pathlib import Path
    from pipefunc._utils import dump
    from pipefunc.map._result import DirectValue
    from .small import _entry_classes
    Arr, _ = _entry_classes()
    store = {}
    for n in names:
        kind = rng.choice(("path", "path", "direct", "direct", "storage"))
        if kind == "path":
            p = Path(tmp) / f"{q}_{n}.cloudpickle"
            if rng.random() < 0.3:
                dump(f"old_{n}", p)
            store[n] = p
        elif kind == "direct":
            store[n] = DirectValue(f"old_{n}") if rng.random() < 0.3 else DirectValue()
        else:
            store[n] = Arr(f"arr_{n}")
    return store


def sdso_gen(rng, tier):
    from .misc import _scratch_dir
    tmp = _scratch_dir("vf_store_")
    for q in range(300 if tier == "quick" else 3000):
        store = _mk_store(rng, tmp, q, [n for n in ("a", "b", "c") if rng.random() < 0.7])
        yield {"output": None if rng.random() < 0.15 else f"out{q}", "output_name": rng.choice(("a", "b", "c")), "store": store}


def _tagging_picker(out, name):
    return None if out is None else ("picked", out, name)  # (a picker may well hand out None)


def dso_gen(rng, tier):
    from types import SimpleNamespace
    from pipefunc.map._run import _LoadedOutputs
    from .misc import _scratch_dir
    tmp = _scratch_dir("vf_store2_")
    for q in range(400 if tier == "quick" else 4000):
        multi = rng.random() < 0.6
        out = tuple(rng.sample(["a", "b", "c"], rng.randint(1, 3))) if multi else rng.choice(["a", "b"])
        names = list(out) if multi else [out]
        store = _mk_store(rng, tmp, q, names + [n for n in ("a", "b", "c", "d") if rng.random() < 0.3])
        for n in names:  # (precondition: writable entries for the function's names)
            if not _writable(__import__("pyvc.spec", fromlist=["CONC"]).CONC, store[n]):
                from pipefunc.map._result import DirectValue
                store[n] = DirectValue()
        output = _LoadedOutputs(tuple(f"loaded_{n}" for n in names)) if rng.random() < 0.25 else \
            (None if rng.random() < 0.15 else f"result{q}")
        yield {"func": SimpleNamespace(output_name=out, output_picker=_tagging_picker if multi or rng.random() < 0.5 else None,
                                       fid=f"f{q}"), "output": output, "store": store}


# ---- _load_from_store: what a later function (or a resumed run) reads back ------------------------------------------------
StoreValV.identity = "sid"
TStoredPayload = TUnion("StoredPayload", [("none", None), ("list", SO), ("one", TObj)],
                        to_py=lambda t: None if t.tag == "none" else (list(t.value) if t.tag == "list" else t.value),
                        from_py=lambda x: Tagged("none") if x is None else (Tagged("list", tuple(x)) if isinstance(x, list)
                                                                            else Tagged("one", x)))
StoredValueV = TRec("_StoredValue", {"value": TStoredPayload, "exists": TBool})

stored_value_ctor = Contract(
    f"{F}::_StoredValue", params={"value": TStoredPayload, "exists": TBool}, returns=StoredValueV, trusted=True, pure=True,
    ensures=lambda S, a, r, post: ({"fields": S.and_(S.eq(r.value, a.value), r.exists == a.exists)} if S.symbolic else {}),
    note="NamedTuple constructor")
entry_is_file = Contract(
    f"{F}::StoreValV.is_file", params={"self": StoreValV}, returns=TBool, trusted=True, pure=True,
    ensures=lambda S, a, r, post: ({"a file exists iff the entry holds something": r == S.not_(S.is_none(a.self.value))}
                                   if S.symbolic else {}),
    note="Path.is_file() on the store view")
entry_exists = Contract(
    f"{F}::StoreValV.exists", params={"self": StoreValV}, returns=TBool, trusted=True, pure=True,
    ensures=lambda S, a, r, post: ({"a DirectValue exists iff it holds something": r == S.not_(S.is_none(a.self.value))}
                                   if S.symbolic else {}),
    note="DirectValue.exists() on the store view")
load_from_path = Contract(
    "pipefunc/_utils.py::load", params={"path": StoreValV}, returns=TObj, trusted=True, pure=True,
    requires=lambda S, a: {"a file is there": S.not_(S.is_none(a.path.value))},
    ensures=lambda S, a, r, post: ({"the object the file holds": S.eq(r, S.some(a.path.value))} if S.symbolic else {}),
    note="_utils.load(path): the unpickled content, on the store view")


def _read(S, e, return_output=True):
    """What reading a store entry yields: the storage array itself; the held value; None when nothing is held (and for
    a file when the caller does not want the output)."""
    if S.symbolic:
        from pyvc.types import Val, unwrap
        none_obj = unwrap(Val(TObj, TObj.lit(None)))
        held = S.ite(S.is_none(e.value), lambda: none_obj, lambda: S.some(e.value))
        return S.ite(e.is_storage, lambda: e.sid, lambda: S.ite(
            S.and_(e.is_path, S.not_(return_output)), lambda: none_obj, lambda: held))
    st, pa, di = _kind(S, e)
    if st:
        return e
    h = _held(S, e)
    if pa and not return_output:
        return None
    return None if h is None else h[1]


def _present(S, e):
    if S.symbolic:
        return S.or_(e.is_storage, S.not_(S.is_none(e.value)))
    return _kind(S, e)[0] or _held(S, e) is not None


def _lfs_names(S, a):
    return S.ite(S.is_tag(a.output_name, "str"), lambda: 1, lambda: S.len(S.untag(a.output_name, "tuple")))


def _lfs_name(S, a, i):
    return S.ite(S.is_tag(a.output_name, "str"), lambda: S.untag(a.output_name, "str"),
                 lambda: S.untag(a.output_name, "tuple")[i])


def _lfs_ensures(S, a, r, post):
    n = _lfs_names(S, a)
    entry = lambda i: a.store[_lfs_name(S, a, i)]  # noqa: E731
    if S.symbolic:
        val = r.value
        return {
            "exists: every output name has a storage array or holds a value": S.iff(
                r.exists, S.forall(0, n, lambda i: _present(S, entry(i)))),
            "not asked for the output: no value": S.implies(S.not_(a.return_output), lambda: S.is_tag(val, "none")),
            "one output name: what its entry yields": S.implies(S.and_(a.return_output, n == 1), lambda: S.and_(
                S.is_tag(val, "one"), lambda: S.eq(S.untag(val, "one"), _read(S, entry(0))))),
            "several output names: what each entry yields, in the order of the names": S.implies(
                S.and_(a.return_output, n != 1), lambda: S.and_(
                    S.is_tag(val, "list"), lambda: S.len(S.untag(val, "list")) == n,
                    lambda: S.forall(0, n, lambda i: S.eq(S.untag(val, "list")[i], _read(S, entry(i)))))),
        }
    names = [a.output_name] if isinstance(a.output_name, str) else list(a.output_name)
    want = [_read(S, a.store[k], a.return_output) for k in names]
    got = r.value
    ident = lambda x: getattr(x, "eid", id(x))  # noqa: E731  (storage arrays of the bounded rung carry an identity tag)
    same = lambda x, y: (ident(x) == ident(y)) if _kind(S, y)[0] else x == y  # noqa: E731
    return {
        "exists: every output name has a storage array or holds a value": r.exists == all(_present(S, a.store[k]) for k in names),
        "value": (got is None) if not a.return_output else (
            same(got, a.store[names[0]]) if len(names) == 1 and _kind(S, a.store[names[0]])[0] else
            got == want[0] if len(names) == 1 else
            (isinstance(got, list) and len(got) == len(want) and all(
                same(g, a.store[k]) if _kind(S, a.store[k])[0] else g == w for g, w, k in zip(got, want, names)))),
    }


def _lfs_inv(S, a, v, k):
    entry = lambda i: a.store[_lfs_name(S, a, i)]  # noqa: E731
    return {
        "read so far": S.and_(S.len(v.outputs) == k, lambda: S.forall(0, k, lambda i: S.eq(
            v.outputs[i], _read(S, entry(i), a.return_output)))),
        "all present so far": S.iff(v.all_exist, S.forall(0, k, lambda i: _present(S, entry(i)))),
        "names so far are in the store": S.forall(0, k, lambda i: S.has(a.store, _lfs_name(S, a, i))),
    }


load_from_store = Contract(
    f"{F}::_load_from_store", params={"output_name": TOut, "store": DStoreV, "return_output": TBool},
    defaults={"return_output": True}, returns=StoredValueV,
    requires=lambda S, a: {"store entries are of exactly one kind": _wf_store(S, a.store)},
    raises=[("KeyError", lambda S, a: S.exists(0, _lfs_names(S, a), lambda i: S.not_(S.has(a.store, _lfs_name(S, a, i)))))],
    ensures=_lfs_ensures, loops={0: LoopSpec(_lfs_inv)}, locals_={"outputs": SO},
)
from .misc import at_least_tuple as _alt  # noqa: E402
LOAD = [_alt, stored_value_ctor, entry_is_file, entry_exists, load_from_path, load_from_store]


def lfs_gen(rng, tier):
    from .misc import _scratch_dir
    tmp = _scratch_dir("vf_store3_")
    for q in range(400 if tier == "quick" else 4000):
        multi = rng.random() < 0.5
        out = tuple(rng.sample(["a", "b", "c"], rng.randint(1, 3))) if multi else rng.choice(["a", "b"])
        names = list(out) if multi else [out]
        store = _mk_store(rng, tmp, q, [n for n in ("a", "b", "c") if n in names or rng.random() < 0.5])
        if rng.random() < 0.1 and store:
            store.pop(rng.choice(sorted(store)))
        yield {"output_name": out, "store": store, "return_output": rng.random() < 0.8}


def lfs_call(fn, a):
    return fn(a["output_name"], a["store"], return_output=a["return_output"])
