"""Contracts for small helpers used by several properties: pipefunc/_utils.py, _pipefunc.py, _pipeline/_validation.py,
_pipeline/_cache.py, map/_run.py, map/_run_info.py, map/_prepare.py."""
from __future__ import annotations

from pyvc.engine import Contract, LoopSpec
from pyvc.types import TBool, TDict, TInt, TNone, TObj, TOpt, TRec, TSeq, TStr, TTuple, TUnion, Tagged

SS = TSeq(TStr)


def _out_to_py(t: Tagged):
    return t.value if t.tag == "str" else tuple(t.value)


def _out_from_py(x):
    return Tagged("tuple", tuple(x)) if isinstance(x, tuple) else Tagged("str", x)


TOut = TUnion("OutName", [("str", TStr), ("tuple", SS)], to_py=_out_to_py, from_py=_out_from_py)  # OUTPUT_TYPE


def names_of(S, x):
    """The names an OUTPUT_TYPE value stands for, as a predicate `name in x`."""
    def member(name):
        return S.or_(S.and_(S.is_tag(x, "str"), lambda: S.eq(S.untag(x, "str"), name)),
                     S.and_(S.is_tag(x, "tuple"), lambda: S.exists(0, S.len(S.untag(x, "tuple")),
                                                                    lambda i: S.eq(S.untag(x, "tuple")[i], name))))
    return member


at_least_tuple = Contract(
    "pipefunc/_utils.py::at_least_tuple", params={"x": TOut}, returns=SS,
    ensures=lambda S, a, r, post: {
        "tuple-unchanged": S.implies(S.is_tag(a.x, "tuple"), lambda: S.eq(r, S.untag(a.x, "tuple")) if not S.symbolic
                                     else r.t == S.untag(a.x, "tuple").t),
        "str-wrapped": S.implies(S.is_tag(a.x, "str"), lambda: S.and_(S.len(r) == 1, S.eq(r[0], S.untag(a.x, "str")))),
    },
)

default_output_picker = Contract(
    "pipefunc/_pipefunc.py::_default_output_picker",
    params={"output": TSeq(TObj), "name": TStr, "output_name": TOut}, returns=TObj,
    requires=lambda S, a: {"tuple-output": S.is_tag(a.output_name, "tuple"),
                           "name-listed": names_of(S, a.output_name)(a.name),
                           "enough-values": S.implies(S.is_tag(a.output_name, "tuple"),
                                                      lambda: S.len(a.output) >= S.len(S.untag(a.output_name, "tuple")))},
    ensures=lambda S, a, r, post: {
        # routing by name: the value at the (first) position of `name` in the tuple of output names
        "routed-by-name": S.exists(0, S.len(S.untag(a.output_name, "tuple")), lambda i: S.and_(
            S.eq(S.untag(a.output_name, "tuple")[i], a.name), S.eq(r, a.output[i]),
            S.forall(0, i, lambda j: S.not_(S.eq(S.untag(a.output_name, "tuple")[j], a.name))))),
    },
)

DOutObj = TDict(TOut, TObj)

validate_unique_output_names = Contract(
    "pipefunc/_pipeline/_validation.py::validate_unique_output_names",
    params={"output_name": TOut, "output_to_func": DOutObj}, returns=TNone,
    raises=[("ValueError", lambda S, a: S.exists_in_dict(a.output_to_func, lambda other: S.or_(
        S.and_(S.is_tag(a.output_name, "str"), lambda: names_of(S, other)(S.untag(a.output_name, "str"))),
        S.and_(S.is_tag(a.output_name, "tuple"), lambda: S.exists(
            0, S.len(S.untag(a.output_name, "tuple")),
            lambda i: names_of(S, other)(S.untag(a.output_name, "tuple")[i])))))) ],
    ensures=lambda S, a, r, post: {},
    loops={
        0: LoopSpec(lambda S, a, v, k: {
            "no-clash-so-far": S.forall(0, k, lambda i: S.forall_in_dict(
                a.output_to_func, lambda other: S.not_(names_of(S, other)(v._at(i))))),
        }),
        1: LoopSpec(lambda S, a, v, k: {
            "no-clash-in-prefix": S.forall(0, k, lambda j: S.not_(names_of(S, v._at(j)[0])(v.name))),
        }),
    },
)

ALL = [at_least_tuple, default_output_picker, validate_unique_output_names]


# ---- pipefunc/_pipeline/_cache.py::compute_cache_key (C09) ----------------------------------------------------------
DSO = TDict(TStr, TObj)
KeyItem = TRec("KeyItem", {"k": TStr, "h": TObj}, to_py=lambda d: (d["k"], d["h"]),
               from_py=lambda t: {"k": t[0], "h": t[1]})
CacheKey = TRec("CacheKey", {"out": TOut, "items": TSeq(KeyItem)}, to_py=lambda d: (d["out"], tuple(d["items"])),
                from_py=lambda t: {"out": t[0], "items": t[1]})

to_hashable = Contract(
    "pipefunc/cache.py::to_hashable", params={"obj": TObj}, returns=TObj, trusted=True,
    ensures=lambda S, a, r, post: {}, defaults={},
    note="opaque key function H (its injectivity on equal/unequal values is C15, checked bounded)",
)


def _h(S, x):
    from pyvc.types import TObj as _TObj
    if not S.symbolic:
        from pipefunc.cache import to_hashable as real
        return real(x)
    import z3
    from pyvc.types import Val, wrap
    f = z3.Function("fn:to_hashable", _TObj.sort(), _TObj.sort())
    return Val(_TObj, f(wrap(x, _TObj).t))


compute_cache_key = Contract(
    "pipefunc/_pipeline/_cache.py::compute_cache_key",
    params={"output_name": TOut, "kwargs": DSO, "root_args": SS}, returns=TOpt(CacheKey),
    ensures=lambda S, a, r, post: {
        # None iff some root argument is absent; otherwise the key lists every root argument with its hashed value
        "none-iff-a-root-arg-is-missing": S.is_none(r) == S.exists(0, S.len(a.root_args),
                                                                  lambda i: S.not_(S.has(a.kwargs, a.root_args[i]))),
        "key": S.implies(S.not_(S.is_none(r)), lambda: S.and_(
            S.eq(S.some(r).out, a.output_name) if S.symbolic else S.some(r)[0] == a.output_name,
            S.len(_items(S, r)) == S.len(a.root_args),
            lambda: S.forall(0, S.len(a.root_args), lambda i: S.and_(
                S.eq(_item(S, r, i, 0), a.root_args[i]),
                lambda: S.eq(_item(S, r, i, 1), _h(S, a.kwargs[a.root_args[i]])))))),
    },
    loops={0: LoopSpec(lambda S, a, v, k: {
        "all-present-so-far": S.forall(0, k, lambda i: S.has(a.kwargs, a.root_args[i])),
        "len": S.len(v.cache_key_items) == k,
        "items": S.forall(0, k, lambda i: S.and_(S.eq(v.cache_key_items[i].k, a.root_args[i]),
                                                 S.eq(v.cache_key_items[i].h, _h(S, a.kwargs[a.root_args[i]])))),
    })},
    locals_={"cache_key_items": TSeq(KeyItem)},
)


def _items(S, r):
    return S.some(r).items if S.symbolic else S.some(r)[1]


def _item(S, r, i, which):
    it = _items(S, r)[i]
    if S.symbolic:
        return it.k if which == 0 else it.h
    return it[which]


# ---- pipefunc/map/_run.py::_executor_for_func (C03) -------------------------------------------------------------------
PipeFuncOut = TRec("PipeFuncOut", {"output_name": TOut})
DOutObj2 = TDict(TOut, TObj)

executor_for_func = Contract(
    "pipefunc/map/_run.py::_executor_for_func",
    params={"func": PipeFuncOut, "executor": TOpt(DOutObj2)}, returns=TOpt(TObj),
    raises=[("ValueError", lambda S, a: S.and_(S.not_(S.is_none(a.executor)), lambda: S.and_(
        S.not_(S.has(S.some(a.executor), a.func.output_name)), S.not_(S.has(S.some(a.executor), _empty_name(S))))))],
    ensures=lambda S, a, r, post: {
        "none-without-executors": S.implies(S.is_none(a.executor), S.is_none(r)),
        "per-output-executor-first": S.implies(
            S.and_(S.not_(S.is_none(a.executor)), lambda: S.has(S.some(a.executor), a.func.output_name)),
            lambda: S.and_(S.not_(S.is_none(r)), S.eq(S.some(r), S.some(a.executor)[a.func.output_name]))),
        "else-the-default-executor": S.implies(
            S.and_(S.not_(S.is_none(a.executor)), lambda: S.and_(
                S.not_(S.has(S.some(a.executor), a.func.output_name)), S.has(S.some(a.executor), _empty_name(S)))),
            lambda: S.and_(S.not_(S.is_none(r)), S.eq(S.some(r), S.some(a.executor)[_empty_name(S)]))),
    },
)


def _empty_name(S):
    if not S.symbolic:
        return ""
    from pyvc.types import Val
    return Val(TOut, TOut.mk("str", TStr.lit("")))


ALL += [to_hashable, compute_cache_key, executor_for_func]


# ---- pipefunc/map/_run.py::_existing_and_missing_indices (C05, C06, C03) -----------------------------------------------
SB = TSeq(TBool)
SI = TSeq(TInt)
def _mk_storage(d):
    """A real in-memory storage array whose element i is stored iff not mask[i]."""
    from pipefunc.map._storage_array._dict import DictArray
    arr = DictArray(None, (len(d["mask"]),))
    for i, m in enumerate(d["mask"]):
        if not m:
            arr.dump((i,), f"v{i}")
    return arr


StorageArr = TRec("StorageArr", {"sid": TObj, "mask": SB, "dump_in_subprocess": TBool}, to_py=_mk_storage,
                  from_py=lambda o: {"sid": id(o), "mask": tuple(bool(x) for x in o.mask_linear()),
                                     "dump_in_subprocess": bool(o.dump_in_subprocess)})
SArr = TSeq(StorageArr)

storage_mask_linear = Contract(
    "pipefunc/map/_storage_array/_base.py::StorageBase.mask_linear", params={"self": StorageArr}, returns=SB,
    trusted=True, ensures=lambda S, a, r, post: ({"is-the-mask": r.t == a.self.mask.t} if S.symbolic else {}),
    note="abstract view of a storage array: mask_linear()[i] <=> element i (row-major external index) is missing; the "
         "backends' implementations are checked against this view on the bounded rung (C07)",
)
storage_mask_linear.qualname = "pipefunc/map/_storage_array/_base.py::StorageArr.mask_linear"


def _sel(S, a, i):
    return S.ite(S.is_none(a.fixed_mask), True, lambda: S.some(a.fixed_mask)[i]) if S.symbolic else \
        (True if a.fixed_mask is None else a.fixed_mask[i])


def _n_elements(S, a):
    return S.len(a.arrays[0].mask) if S.symbolic else len(a.arrays[0].mask_linear())


def _mask_at(S, a, r, i):
    return a.arrays[r].mask[i] if S.symbolic else a.arrays[r].mask_linear()[i]


def _em_arrays(S, a):
    n = _n_elements(S, a)
    some_missing = lambda i: S.exists(0, S.len(a.arrays), lambda r: _mask_at(S, a, r, i))  # noqa: E731
    cm, ax1 = S.defarray("spec:missing", [a.arrays, a.fixed_mask] if S.symbolic else [],
                         lambda i: S.and_(0 <= i, i < n, lambda: S.and_(_sel(S, a, i), some_missing(i))), n)
    ce, ax2 = S.defarray("spec:existing", [a.arrays, a.fixed_mask] if S.symbolic else [],
                         lambda i: S.and_(0 <= i, i < n, lambda: S.and_(_sel(S, a, i), S.not_(some_missing(i)))), n)
    return n, cm, ce, [ax1, ax2]


def _part(S, r, i):
    return r.t[i] if S.symbolic else r[i]


def _filtered(S, lst, C, upto):
    """lst is the increasing list of the indices i < upto with C[i]."""
    return S.and_(S.len(lst) == S.cnt(C, upto),
                  lambda: S.forall(0, upto, lambda i: S.implies(C[i], lambda: lst[S.cnt(C, i)] == i)))


def _em_ensures(S, a, r, post):
    n, cm, ce, _ = _em_arrays(S, a)
    return {"missing = selected indices with some output absent (increasing)": _filtered(S, _part(S, r, 1), cm, n),
            "existing = selected indices with every output stored (increasing)": _filtered(S, _part(S, r, 0), ce, n)}


def _em_inv(S, a, v, k):
    n, cm, ce, _ = _em_arrays(S, a)
    return {"missing-prefix": _filtered(S, v.missing_indices, cm, k),
            "existing-prefix": _filtered(S, v.existing_indices, ce, k)}


existing_and_missing = Contract(
    "pipefunc/map/_run.py::_existing_and_missing_indices",
    params={"arrays": SArr, "fixed_mask": TOpt(SB)}, returns=TTuple([SI, SI]),
    requires=lambda S, a: {
        "at-least-one-output": S.len(a.arrays) >= 1,
        "masks-equally-long": S.forall(0, S.len(a.arrays), lambda r: S.len(a.arrays[r].mask) == _n_elements(S, a))
        if S.symbolic else len({len(x.mask_linear()) for x in a.arrays}) == 1,
        "fixed-mask-covers-the-index-space": S.implies(S.not_(S.is_none(a.fixed_mask)),
                                                       lambda: S.len(S.some(a.fixed_mask)) == _n_elements(S, a)),
    },
    axioms=lambda S, a: _em_arrays(S, a)[3],
    ensures=_em_ensures,
    loops={0: LoopSpec(_em_inv)},
    locals_={"existing_indices": SI, "missing_indices": SI},
)

ALL += [storage_mask_linear, existing_and_missing]


def em_gen(rng, tier):
    """Real storage arrays of every backend (1-3 outputs of one function, shapes up to 3x3, some with internal axes),
    partially filled; fixed mask absent or a boolean array over the external index space."""
    import tempfile
    import numpy as np
    from pipefunc.map._storage_array._dict import DictArray, SharedMemoryDictArray
    from pipefunc.map._storage_array._file import FileArray
    n = 120 if tier == "quick" else 1200
    tmp = _scratch_dir("vf_em_")
    for q in range(n):
        shape = tuple(rng.randint(1, 3) for _ in range(rng.randint(1, 2)))
        internal = rng.random() < 0.25
        smask = (*(True,) * len(shape), False) if internal else None
        size = int(np.prod(shape))
        arrays = []
        for r in range(rng.randint(1, 3)):
            kind = rng.choice(("dict", "dict", "file", "file", "file", "shm") if q % 10 == 0 else ("dict", "file"))
            if kind == "file":
                arr = FileArray(f"{tmp}/{q}_{r}", shape, (2,) if internal else None, smask)
            elif kind == "dict":
                arr = DictArray(None, shape, (2,) if internal else None, smask)
            else:
                arr = SharedMemoryDictArray(None, shape, (2,) if internal else None, smask)
            for lin in range(size):
                if rng.random() < 0.5:
                    idx = tuple(int(x) for x in np.unravel_index(lin, shape))
                    arr.dump(idx, np.array([lin, -lin]) if internal else f"v{lin}")
            arrays.append(arr)
        fixed = None if rng.random() < 0.4 else [rng.random() < 0.6 for _ in range(size)]
        yield {"arrays": arrays, "fixed_mask": fixed}


def _scratch_dir(prefix):
    """A scratch directory removed when this process ends (also when it is a multiprocessing worker)."""
    import atexit
    import shutil
    import tempfile
    from multiprocessing import util
    tmp = tempfile.mkdtemp(prefix=prefix)
    atexit.register(shutil.rmtree, tmp, True)
    util.Finalize(None, shutil.rmtree, args=(tmp, True), exitpriority=1)
    return tmp


def em_call(fn, a):
    import numpy as np
    fm = a["fixed_mask"]
    return fn(a["arrays"], None if fm is None else np.array(fm, dtype=bool).flat)


# ---- pipefunc/map/_prepare.py::_validate_complete_inputs (C12: missing / surplus inputs are rejected) ----------------------
from pyvc.types import TRec as _TRec2  # noqa: E402

TopoGen = _TRec2("Generations", {"root_args": SS})
PipelineInputsView = _TRec2("PipelineInputsView", {"topological_generations": TopoGen, "defaults": DSO})


def _vci_raises(S, a):
    roots = a.pipeline.topological_generations.root_args
    provided = lambda k: S.or_(S.has(a.inputs, k), S.has(a.pipeline.defaults, k))  # noqa: E731
    missing = S.exists(0, S.len(roots), lambda i: S.not_(provided(roots[i])))
    extra = S.or_(S.exists_in_dict(a.inputs, lambda k: S.not_(S.contains(roots, k))),
                  S.exists_in_dict(a.pipeline.defaults, lambda k: S.not_(S.contains(roots, k))))
    return S.or_(missing, extra)


validate_complete_inputs = Contract(
    "pipefunc/map/_prepare.py::_validate_complete_inputs",
    params={"pipeline": PipelineInputsView, "inputs": DSO}, returns=None,
    raises=[("ValueError", _vci_raises)],
    note="raises exactly when a root argument has neither an input nor a default, or an input / default is given for "
         "a name that is not a root argument; the pipeline is seen through (topological_generations.root_args, defaults)",
)
ALL += [validate_complete_inputs]


def vci_gen(rng, tier):
    from types import SimpleNamespace
    names = ["x", "y", "z", "w"]
    for _ in range(400 if tier == "quick" else 4000):
        roots = rng.sample(names, rng.randint(0, 3))
        inputs = {k: 1 for k in rng.sample(names, rng.randint(0, 3))}
        defaults = {k: 2 for k in rng.sample(names, rng.randint(0, 2))}
        yield {"pipeline": SimpleNamespace(topological_generations=SimpleNamespace(root_args=list(roots)), defaults=defaults),
               "inputs": inputs}


# ---- pipefunc/map/_prepare.py::_is_parameter_reduced_by_function (C06: which axes may not be fixed) --------------------------
from pyvc.types import TOpt as _TOpt2  # noqa: E402

from .ty import MapSpecT as _MapSpecT  # noqa: E402

PipeFuncParamsView = _TRec2("PipeFuncParamsView", {"parameters": SS, "mapspec": _TOpt2(_MapSpecT)})

is_parameter_reduced = Contract(
    "pipefunc/map/_prepare.py::_is_parameter_reduced_by_function",
    params={"func": PipeFuncParamsView, "name": TStr}, returns=TBool,
    ensures=lambda S, a, r, post: {
        "the function takes the parameter whole (no MapSpec, or the MapSpec does not list it)": r == S.and_(
            S.contains(a.func.parameters, a.name),
            lambda: S.or_(S.is_none(a.func.mapspec), lambda: S.not_(S.exists(
                0, S.len(S.some(a.func.mapspec).inputs), lambda i: S.eq(S.some(a.func.mapspec).inputs[i].name, a.name)))))},
)
ALL += [is_parameter_reduced]


def _listed(S, a):
    ins = S.some(a.func.mapspec).inputs
    return S.exists(0, S.len(ins), lambda i: S.eq(ins[i].name, a.name))


def _first_spec(S, a, then):
    """`then(spec)` for the first input spec of the function's MapSpec with the given name."""
    ins = S.some(a.func.mapspec).inputs
    return S.exists(0, S.len(ins), lambda i: S.and_(
        S.eq(ins[i].name, a.name), lambda: S.forall(0, i, lambda j: S.not_(S.eq(ins[j].name, a.name))), lambda: then(ins[i])))


is_parameter_partially_reduced = Contract(
    "pipefunc/map/_prepare.py::_is_parameter_partially_reduced_by_function",
    params={"func": PipeFuncParamsView, "name": TStr}, returns=TBool,
    ensures=lambda S, a, r, post: {
        "the MapSpec lists the parameter and takes at least one of its axes whole (':')": r == S.and_(
            S.not_(S.is_none(a.func.mapspec)), lambda: _listed(S, a), lambda: _first_spec(S, a, lambda sp: S.exists(
                0, S.len(sp.axes), lambda p: S.is_none(sp.axes[p]))))},
)
ALL += [is_parameter_partially_reduced]


# _get_partially_reduced_axes: the names of the axes a function takes whole through ':' (these may not be fixed)
DAxes = TDict(TStr, SS)


def _first_idx(S, a):
    """index of the first input spec with the given name (spec function; defined when the name is listed)."""
    if not S.symbolic:
        return next(i for i, x in enumerate(a.func.mapspec.inputs) if x.name == a.name)
    return S.uf("spec:first-input-named", TInt, a.func, a.name)


def _pra_setup(S, a):
    ins = S.some(a.func.mapspec).inputs
    i0 = _first_idx(S, a)
    sp_axes = ins[i0].axes
    has = S.has(a.axes, a.name)
    m = S.ite(has, lambda: S.min(S.len(a.axes[a.name]), S.len(sp_axes)), 0)
    M, ax = S.defarray("spec:whole-axes", [a.func, a.name, a.axes] if S.symbolic else [],
                       lambda p: S.and_(0 <= p, p < m, lambda: S.is_none(sp_axes[p])), m)
    axioms = [ax]
    if S.symbolic:
        axioms.append(S.implies(_listed(S, a), lambda: S.and_(
            0 <= i0, i0 < S.len(ins), lambda: S.eq(ins[i0].name, a.name),
            lambda: S.forall(0, i0, lambda j: S.not_(S.eq(ins[j].name, a.name))))))
    return m, M, axioms


def _pra_ensures(S, a, r, post):
    m, M, _ = _pra_setup(S, a)
    return {"the named axes of the array at the positions the function takes whole, in order (none when the array is "
            "nowhere indexed by name)": S.and_(
                S.len(r) == S.cnt(M, m),
                lambda: S.forall(0, m, lambda p: S.implies(M[p], lambda: S.eq(r[S.cnt(M, p)], a.axes[a.name][p]))))}


get_partially_reduced_axes = Contract(
    "pipefunc/map/_prepare.py::_get_partially_reduced_axes",
    params={"func": PipeFuncParamsView, "name": TStr, "axes": DAxes}, returns=SS,
    requires=lambda S, a: {"the function has a MapSpec that lists the parameter": S.and_(
        S.not_(S.is_none(a.func.mapspec)), lambda: _listed(S, a))},
    axioms=lambda S, a: _pra_setup(S, a)[2],
    ensures=_pra_ensures,
)
ALL += [get_partially_reduced_axes]


def pra_gen(rng, tier):
    from types import SimpleNamespace
    from pipefunc.map._mapspec import MapSpec
    specs = ["x[i, :] -> y[i]", "x[:, j], z[j] -> y[j]", "x[:, :, k] -> y[k]", "x[i, j] -> y[i, j]", "x[:] , z[i] -> y[i]",
             "z[i], x[i, :] -> y[i]"]
    for sp in specs:
        for name in ("x", "z"):
            for axes in ({}, {"x": ("a", "b")}, {"x": ("a", "b", "c"), "z": ("i",)}, {"x": ("a",)}, {"z": ("q",)}):
                yield {"func": SimpleNamespace(parameters=("x", "z"), mapspec=MapSpec.from_string(sp)), "name": name, "axes": axes}


def ipr_gen(rng, tier):
    from types import SimpleNamespace
    from pipefunc.map._mapspec import MapSpec
    specs = [None, "x[i] -> y[i]", "x[i], z[j] -> y[i, j]", "x[i, :] -> y[i]", "... -> y[i]"]
    for sp in specs:
        for params in (("x",), ("x", "z"), ("z", "w"), ()):
            for name in ("x", "z", "w", "q"):
                yield {"func": SimpleNamespace(parameters=params, mapspec=MapSpec.from_string(sp) if sp else None), "name": name}


# ---- pipefunc/_pipeline/_validation.py::validate_consistent_defaults (C12: inconsistent defaults are rejected) -------------
DSB = TDict(TStr, TObj)
PipeFuncDefaultsView = _TRec2("PipeFuncDefaultsView", {"defaults": DSO, "_bound": DSO})
SPFD = TSeq(PipeFuncDefaultsView)
DOutToFunc = TDict(TOut, TObj)


def _cons(S, f, o2f, arg):
    """function f contributes a default for `arg` to the comparison (named spec predicate)."""
    return S.opaque("spec:considered-default", [f, o2f, arg], lambda f_, o2f_, arg_: S.and_(
        S.has(f_.defaults, arg_), S.not_(S.has(f_._bound, arg_)), S.not_(S.has(o2f_, S.inject(TOut, "str", arg_)))))


def _vcd_raises(S, a):
    fs = a.functions
    return S.exists(0, S.len(fs), lambda i: S.exists(0, S.len(fs), lambda j: S.exists_in_dict(
        fs[i].defaults, lambda arg: S.and_(_cons(S, fs[i], a.output_to_func, arg), _cons(S, fs[j], a.output_to_func, arg),
                                           lambda: S.not_(S.eq(fs[i].defaults[arg], fs[j].defaults[arg]))))))


def _vcd_outer(S, a, v, k):
    fs, AD, o2f = a.functions, v.arg_defaults, a.output_to_func
    return {
        "recorded = considered so far": S.forall_key(TStr, lambda arg: S.has(AD, arg) == S.exists(
            0, k, lambda i: _cons(S, fs[i], o2f, arg))),
        "all considered defaults agree with the recorded one": S.forall(0, k, lambda i: S.forall_in_dict(
            fs[i].defaults, lambda arg: S.implies(_cons(S, fs[i], o2f, arg), lambda: S.and_(
                S.has(AD, arg), lambda: S.eq(AD[arg], fs[i].defaults[arg]))))),
    }


def _vcd_inner(S, a, v, t):
    AD, AD0, f, o2f = v.arg_defaults, v._entry.arg_defaults, v.f, a.output_to_func
    key = lambda u: v._at(u)[0]  # noqa: E731
    return {
        "recorded = recorded before + considered items of f so far": S.forall_key(TStr, lambda arg: S.has(AD, arg) == S.or_(
            S.has(AD0, arg), lambda: S.exists(0, t, lambda u: S.and_(S.eq(key(u), arg), lambda: _cons(S, f, o2f, arg))))),
        "earlier records unchanged": S.forall_key(TStr, lambda arg: S.implies(S.has(AD0, arg), lambda: S.eq(AD[arg], AD0[arg]))),
        "considered items of f agree with the record": S.forall(0, t, lambda u: S.implies(
            _cons(S, f, o2f, key(u)), lambda: S.and_(S.has(AD, key(u)), lambda: S.eq(AD[key(u)], f.defaults[key(u)])))),
    }


validate_consistent_defaults = Contract(
    "pipefunc/_pipeline/_validation.py::validate_consistent_defaults",
    params={"functions": SPFD, "output_to_func": DOutToFunc}, returns=None,
    raises=[("ValueError", _vcd_raises)],
    loops={0: LoopSpec(_vcd_outer), 1: LoopSpec(_vcd_inner)},
    locals_={"arg_defaults": DSO},
    note="raises exactly when two functions declare different defaults for the same argument, counting only "
         "arguments that the function has not bound and that no function produces",
)
ALL += [validate_consistent_defaults]


def vcd_gen(rng, tier):
    from types import SimpleNamespace
    names = ["x", "y", "z"]
    for _ in range(600 if tier == "quick" else 6000):
        fs = []
        for _q in range(rng.randint(0, 3)):
            d = {k: rng.choice(["d1", "d2"]) for k in rng.sample(names, rng.randint(0, 3))}
            b = {k: "b" for k in rng.sample(names, rng.randint(0, 1))}
            fs.append(SimpleNamespace(defaults=d, _bound=b))
        o2f = {}
        if rng.random() < 0.4:
            o2f[rng.choice(names)] = "producer"
        if rng.random() < 0.2:
            o2f[("p", "q")] = "producer2"
        yield {"functions": fs, "output_to_func": o2f}


# ---- pipefunc/_pipeline/_mapspec.py::_axes_from_dims (C10: add_mapspec_axis pads the existing dimensions with ':') ---------
from .ty import Axes as _Axes  # noqa: E402

DSI = TDict(TStr, TInt)


def _afd_n(S, a):
    d = S.ite(S.has(a.dims, a.p), lambda: a.dims[a.p], 1) if S.symbolic else a.dims.get(a.p, 1)
    return S.ite(d - 1 > 0, d - 1, 0) if S.symbolic else max(d - 1, 0)


axes_from_dims = Contract(
    "pipefunc/_pipeline/_mapspec.py::_axes_from_dims", params={"p": TStr, "dims": DSI, "axis": TStr}, returns=_Axes,
    ensures=lambda S, a, r, post: {
        "one ':' per existing dimension but one, then the new axis": S.and_(
            S.len(r) == _afd_n(S, a) + 1,
            lambda: S.forall(0, _afd_n(S, a), lambda i: S.is_none(r[i])),
            lambda: S.and_(S.not_(S.is_none(r[_afd_n(S, a)])), lambda: S.eq(S.some(r[_afd_n(S, a)]), a.axis))),
    },
)
ALL += [axes_from_dims]


def afd_gen(rng, tier):
    for p in ("x", "y"):
        for dims in ({}, {"x": 1}, {"x": 2}, {"x": 3, "y": 1}, {"x": 0}, {"y": 4}):
            yield {"p": p, "dims": dims, "axis": "k"}


# ---- pipefunc/map/_prepare.py::_reduced_axes (C06: the axes that may not be fixed) --------------------------------------------
from pyvc.types import TSet as _TSet3  # noqa: E402

SetS = _TSet3(TStr)
DRed = TDict(TStr, SetS)
DRed.default = "set"  # (the accumulator is a defaultdict(set))
PipelineRAV = _TRec2("PipelineRAV", {"mapspec_axes": DAxes, "mapspec_names": SetS, "functions": TSeq(PipeFuncParamsView)})


def _ra_red(S, f, name):
    if S.symbolic:
        return S.uf("fn:_is_parameter_reduced_by_function", TBool, f, name)
    from pipefunc.map._prepare import _is_parameter_reduced_by_function as g
    return g(f, name)


def _ra_part(S, f, name):
    if S.symbolic:
        return S.uf("fn:_is_parameter_partially_reduced_by_function", TBool, f, name)
    from pipefunc.map._prepare import _is_parameter_partially_reduced_by_function as g
    return g(f, name)


def _ra_paxes(S, f, name, axes):
    if S.symbolic:
        return S.uf("fn:_get_partially_reduced_axes", SS, f, name, axes)
    from pipefunc.map._prepare import _get_partially_reduced_axes as g
    return g(f, name, axes)


def _ra_touches(S, a, i, name):
    f = a.pipeline.functions[i]
    return S.or_(_ra_red(S, f, name), lambda: _ra_part(S, f, name))


def _ra_contrib(S, a, i, name, ax):
    """Function i contributes axis `ax` of the array `name`: every named axis if it takes the array whole, the axes at
    its ':' positions if it takes it partially."""
    f = a.pipeline.functions[i]
    axes = a.pipeline.mapspec_axes
    return S.ite(_ra_red(S, f, name),
                 lambda: S.and_(S.has(axes, name), lambda: S.contains(axes[name], ax)),
                 lambda: S.and_(_ra_part(S, f, name), lambda: S.contains(_ra_paxes(S, f, name, axes), ax)))


def _ra_settled(S, a, R, name, upto):
    """The entry of `name` is what the first `upto` functions contribute."""
    return S.and_(
        S.has(R, name) == S.exists(0, upto, lambda i: _ra_touches(S, a, i, name)),
        lambda: S.implies(S.has(R, name), lambda: S.forall_key(TStr, lambda ax: S.in_set(R[name], ax) == S.exists(
            0, upto, lambda i: _ra_contrib(S, a, i, name, ax)), domain=() if S.symbolic else _ra_all_axes(a))))


def _ra_all_axes(a):
    out = set()
    for v in a.pipeline.mapspec_axes.values():
        out |= set(v)
    return sorted(out) + ["zz"]


def _ra_ensures(S, a, r, post):
    n = S.len(a.pipeline.functions)
    names = a.pipeline.mapspec_names
    dom = () if S.symbolic else sorted(set(r) | set(names) | {"zz"})
    return {
        "only arrays of the pipeline's MapSpecs have an entry": S.forall_key(TStr, lambda nm: S.implies(
            S.has(r, nm), lambda: S.in_set(names, nm)), domain=dom),
        "an array has an entry iff some function takes it whole or partially, and the entry holds exactly the axes those "
        "functions reduce": S.forall_key(TStr, lambda nm: S.implies(S.in_set(names, nm), lambda: _ra_settled(S, a, r, nm, n)),
                                         domain=dom),
    }


def _ra_outer(S, a, v, k):
    R = v.reduced_axes
    n = S.len(a.pipeline.functions)
    return {
        "processed names are settled": S.forall(0, k, lambda i: _ra_settled(S, a, R, v._okey(i), n)),
        "only processed names have an entry": S.forall_key(TStr, lambda nm: S.implies(S.has(R, nm), lambda: S.exists(
            0, k, lambda i: S.eq(v._okey(i), nm)))),
    }


def _ra_inner(S, a, v, j):
    R, R_in, nm = v.reduced_axes, v._entry.reduced_axes, v.name
    return {
        "the current name: what the first j functions contribute": _ra_settled(S, a, R, nm, j),
        "other entries as before": S.forall_key(TStr, lambda other: S.implies(S.not_(S.eq(other, nm)), lambda: S.and_(
            S.has(R, other) == S.has(R_in, other), lambda: S.implies(S.has(R_in, other), lambda: S.eq(R[other], R_in[other]))))),
    }


reduced_axes = Contract(
    "pipefunc/map/_prepare.py::_reduced_axes", params={"pipeline": PipelineRAV}, returns=TDict(TStr, SetS),
    ensures=_ra_ensures, loops={0: LoopSpec(_ra_outer), 1: LoopSpec(_ra_inner)},
    locals_={"reduced_axes": DRed},
)
REDUCED = [is_parameter_reduced, is_parameter_partially_reduced, get_partially_reduced_axes, reduced_axes]


def ra_gen(rng, tier):
    from types import SimpleNamespace
    from pipefunc.map._mapspec import MapSpec
    specs = [None, "x[i] -> y[i]", "x[i], z[j] -> y[i, j]", "x[i, :] -> y[i]", "x[:, j], z[j] -> y[j]", "z[i], x[i, :] -> y[i]",
             "... -> y[i]", "x[:, :] , z[i] -> y[i]"]
    for _ in range(300 if tier == "quick" else 3000):
        fs = [SimpleNamespace(parameters=tuple(rng.sample(["x", "z", "w"], rng.randint(0, 3))),
                              mapspec=(lambda s: MapSpec.from_string(s) if s else None)(rng.choice(specs)))
              for _ in range(rng.randint(0, 3))]
        axes = rng.choice(({}, {"x": ("a", "b")}, {"x": ("a", "b"), "z": ("i",)}, {"z": ("q",)}, {"x": ("a", "b"), "w": ("c",)}))
        names = set(rng.sample(["x", "z", "w", "y"], rng.randint(0, 4)))
        yield {"pipeline": SimpleNamespace(mapspec_axes=axes, mapspec_names=names, functions=fs)}
