"""Contracts for pipefunc/sweep.py (C17): "+ / MultiSweep yields their concatenation" rests on MultiSweep.combine -
the receiver's list of sweeps is extended by the operand (a MultiSweep contributes its own sweeps, in order, any other
Sweep itself) and the receiver is returned.  Sweep objects are opaque identities here; what a Sweep enumerates is the
bounded part of C17."""
from __future__ import annotations

from pyvc.engine import Contract
from pyvc.types import TObj, TRec, TSeq, TUnion, Tagged

F = "pipefunc/sweep.py"
SO = TSeq(TObj)
MultiSweepV = TRec("MultiSweep", {"sid": TObj, "sweeps": SO})


def _vid(x):
    return getattr(x, "vf_id", None)


def _arg_from_py(x):
    from pipefunc.sweep import MultiSweep
    if isinstance(x, MultiSweep):
        return Tagged("MultiSweep", {"sid": _vid(x), "sweeps": tuple(x.sweeps)})
    return Tagged("Sweep", x)


def _mk_multi(d):
    from pipefunc.sweep import MultiSweep
    m = MultiSweep(*d["sweeps"])
    m.vf_id = d["sid"]
    return m


MultiSweepV.to_py = _mk_multi
MultiSweepV.from_py = lambda o: o if isinstance(o, dict) else {"sid": _vid(o), "sweeps": tuple(o.sweeps)}


# an operand of +: a MultiSweep, another Sweep, or something that is not a Sweep at all
TAddArg = TUnion("SweepAddArg", [("MultiSweep", MultiSweepV), ("Sweep", TObj), ("object", TObj)],
                 to_py=lambda t: _mk_multi(t.value) if t.tag == "MultiSweep" else t.value,
                 from_py=lambda x: _arg_from_py(x) if _is_sweep(x) else Tagged("object", x))
TAddArg.supers = {"MultiSweep": ("Sweep",)}



def _is_multi(S, x):
    if S.symbolic:
        return S.is_tag(x, "MultiSweep")
    from pipefunc.sweep import MultiSweep
    return isinstance(x, MultiSweep)


def _ids(S, seq):
    return seq if S.symbolic else [_vid(x) for x in seq]


def _combine_ensures(S, a, r, post):
    old, new = a.self.sweeps, post.self.sweeps
    n0 = S.len(old)
    if S.symbolic:
        other_multi = S.untag(a.other, "MultiSweep").sweeps
        other_one = S.ite(S.is_tag(a.other, "Sweep"), lambda: S.untag(a.other, "Sweep"), lambda: S.untag(a.other, "object"))
        return {
            "the receiver's sweeps come first, unchanged": S.forall(0, n0, lambda i: S.eq(new[i], old[i])),
            "a MultiSweep operand contributes its sweeps, in order": S.implies(_is_multi(S, a.other), lambda: S.and_(
                S.len(new) == n0 + S.len(other_multi),
                lambda: S.forall(0, S.len(other_multi), lambda j: S.eq(new[n0 + j], other_multi[j])))),
            "anything else is appended itself": S.implies(S.not_(_is_multi(S, a.other)), lambda: S.and_(
                S.len(new) == n0 + 1, lambda: S.eq(new[n0], other_one))),
            "the receiver is returned": S.and_(S.eq(r.sid, a.self.sid), lambda: S.eq(r.sweeps, new) if not S.symbolic
                                               else r.sweeps.t == new.t),
        }
    tail = _ids(S, a.other.sweeps) if _is_multi(S, a.other) else [_vid(a.other)]
    if not _is_multi(S, a.other) and _vid(a.other) is None:  # (an operand without an identity tag: compare the object)
        return {"appended itself": _ids(S, new[:-1]) == _ids(S, old) and new[-1] == a.other,
                "the receiver is returned": _vid(r) == _vid(a.self)}
    return {
        "concatenation: the receiver's sweeps, then the operand's (a MultiSweep contributes its sweeps, any other Sweep "
        "itself)": _ids(S, new) == _ids(S, old) + tail,
        "the receiver is returned": _vid(r) == _vid(a.self) and _ids(S, r.sweeps) == _ids(S, new),
    }


multisweep_combine = Contract(
    f"{F}::MultiSweep.combine", params={"self": MultiSweepV, "other": TAddArg}, returns=MultiSweepV,
    modifies=("self",), pure=False, ensures=_combine_ensures,
)
# ---- the + operators ----------------------------------------------------------------------------------------------------
def _is_sweep(x):
    from pipefunc.sweep import Sweep
    return isinstance(x, Sweep)


def _ident(S, x):
    """The object an operand is (its identity as an element of a list of sweeps)."""
    if S.symbolic:
        return S.ite(S.is_tag(x, "MultiSweep"), lambda: S.untag(x, "MultiSweep").sid, lambda: S.untag(x, "Sweep"))
    return _vid(x)


multisweep_ctor = Contract(
    f"{F}::MultiSweep", params={"s0": TObj, "s1": TAddArg}, returns=MultiSweepV, trusted=True, pure=False,
    ensures=lambda S, a, r, post: ({"the new MultiSweep lists its arguments, in order": S.and_(
        S.len(r.sweeps) == 2, lambda: S.eq(r.sweeps[0], a.s0), lambda: S.eq(r.sweeps[1], _ident(S, a.s1)))}
        if S.symbolic else {}),
    note="MultiSweep(*sweeps): `self.sweeps = list(sweeps)` (constructor, two arguments as used by Sweep.__add__)")

sweep_add = Contract(
    f"{F}::Sweep.__add__", params={"self": TObj, "other": TAddArg}, returns=MultiSweepV, pure=False,
    raises=[("TypeError", lambda S, a: S.not_(S.or_(S.is_tag(a.other, "MultiSweep"), S.is_tag(a.other, "Sweep")))
             if S.symbolic else not _is_sweep(a.other))],
    ensures=lambda S, a, r, post: {
        "a + b is the MultiSweep of exactly (a, b), in this order": (S.and_(
            S.len(r.sweeps) == 2, lambda: S.eq(r.sweeps[0], a.self), lambda: S.eq(r.sweeps[1], _ident(S, a.other)))
            if S.symbolic else [_vid(x) for x in r.sweeps] == [_vid(a.self), _vid(a.other)]),
    },
)


def _madd_ensures(S, a, r, post):
    if S.symbolic:
        from types import SimpleNamespace
        # other is a Sweep here (TypeError otherwise): the clause of combine, read with the + operand's sort
        old, new, n0 = a.self.sweeps, post.self.sweeps, S.len(a.self.sweeps)
        om = S.untag(a.other, "MultiSweep").sweeps
        return {
            "the receiver's sweeps come first, unchanged": S.forall(0, n0, lambda i: S.eq(new[i], old[i])),
            "a MultiSweep operand contributes its sweeps, in order": S.implies(S.is_tag(a.other, "MultiSweep"), lambda: S.and_(
                S.len(new) == n0 + S.len(om), lambda: S.forall(0, S.len(om), lambda j: S.eq(new[n0 + j], om[j])))),
            "any other Sweep is appended itself": S.implies(S.is_tag(a.other, "Sweep"), lambda: S.and_(
                S.len(new) == n0 + 1, lambda: S.eq(new[n0], S.untag(a.other, "Sweep")))),
            "the receiver is returned": S.and_(S.eq(r.sid, a.self.sid), lambda: r.sweeps.t == new.t),
        }
    return _combine_ensures(S, a, r, post)


multisweep_add = Contract(
    f"{F}::MultiSweep.__add__", params={"self": MultiSweepV, "other": TAddArg}, returns=MultiSweepV,
    modifies=("self",), pure=False,
    raises=[("TypeError", lambda S, a: S.is_tag(a.other, "object") if S.symbolic else not _is_sweep(a.other))],
    ensures=_madd_ensures,
)
ALL = [multisweep_combine]
ADD = [multisweep_combine, multisweep_ctor, sweep_add, multisweep_add]


def add_gen(rng, tier):
    for c in combine_gen(rng, tier):
        if rng.random() < 0.1:
            c = dict(c, other=rng.choice([3, "x", None]))
        yield c


def sweep_add_gen(rng, tier):
    from pipefunc.sweep import Sweep
    for c in add_gen(rng, tier):
        s = Sweep({"k": [1]})
        s.vf_id = "left"
        yield {"self": s, "other": c["other"]}


def combine_gen(rng, tier):
    from pipefunc.sweep import MultiSweep, Sweep
    for q in range(300 if tier == "quick" else 3000):
        def sw(tag):
            s = Sweep({"a": [1, 2]} if rng.random() < 0.5 else {})
            s.vf_id = tag
            return s
        recv = MultiSweep(*[sw(f"r{q}_{i}") for i in range(rng.randint(0, 3))])
        recv.vf_id = f"recv{q}"
        if rng.random() < 0.5:
            other = MultiSweep(*[sw(f"o{q}_{i}") for i in range(rng.randint(0, 3))])
            other.vf_id = f"other{q}"
        else:
            other = sw(f"single{q}")
        yield {"self": recv, "other": other}


# ---- Sweep.__len__ ------------------------------------------------------------------------------------------------------
import z3  # noqa: E402

from pyvc.engine import LoopSpec  # noqa: E402
from pyvc.types import TDict, TInt, TOpt, TStr  # noqa: E402

from .misc import TOut, at_least_tuple  # noqa: E402

DItems = TDict(TStr, SO)
SDims = TSeq(TOut)
SweepLenV = TRec("Sweep", {"items": DItems, "dims": TOpt(SDims), "exclude": TOpt(TObj)})
sweep_list = Contract(f"{F}::Sweep.list", params={"self": SweepLenV}, returns=SO, trusted=True, pure=True,
                      note="the list of combinations (a generator over itertools.product and user closures): C17's "
                           "bounded check")
SS = TSeq(TStr)
_PLEN = z3.Function("spec:product-of-lengths-along", DItems.sort(), SS.sort(), z3.IntSort(), z3.IntSort())
_QLEN = z3.Function("spec:product-of-group-sizes", DItems.sort(), SDims.sort(), z3.IntSort(), z3.IntSort())


def _first(S, g):
    """The name whose sequence gives a zipped group its size: the group itself, or its first member."""
    return S.ite(S.is_tag(g, "str"), lambda: S.untag(g, "str"), lambda: S.untag(g, "tuple")[0])


def _len_axioms(S, a):
    """Definitions of the two products (recursive in the number of factors)."""
    items, k = a.self.items, z3.Int("k!ax")
    o = z3.Const("o!ax", SS.sort())
    vals = lambda key: DItems.val.len(z3.Select(DItems.vals(items.t), key))  # noqa: E731
    ax = [z3.ForAll([o], _PLEN(items.t, o, 0) == 1, patterns=[_PLEN(items.t, o, 0)]),
          z3.ForAll([o, k], z3.Implies(k > 0, _PLEN(items.t, o, k) == _PLEN(items.t, o, k - 1) * vals(
              z3.Select(SS.arr(o), k - 1))), patterns=[_PLEN(items.t, o, k)])]
    if True:
        d = z3.Const("d!ax", SDims.sort())
        g = lambda i: z3.Select(SDims.arr(d), i)  # noqa: E731
        first = lambda i: z3.If(TOut.is_("str", g(i)), TOut.get("str", g(i)), z3.Select(SS.arr(TOut.get("tuple", g(i))), 0))  # noqa: E731
        ax += [z3.ForAll([d], _QLEN(items.t, d, 0) == 1, patterns=[_QLEN(items.t, d, 0)]),
               z3.ForAll([d, k], z3.Implies(k > 0, _QLEN(items.t, d, k) == _QLEN(items.t, d, k - 1) * vals(first(k - 1))),
                         patterns=[_QLEN(items.t, d, k)])]
    return ax


def _cartesian(S, a):
    """dims is None, or names exactly the items' keys one by one (then the zip structure is trivial)."""
    if not S.symbolic:
        return a.self.dims is None or set(a.self.dims) == a.self.items.keys()
    dims = S.some(a.self.dims)
    return S.or_(S.is_none(a.self.dims), lambda: S.forall_key(TOut, lambda x: S.contains(dims, x) == S.and_(
        S.is_tag(x, "str"), lambda: S.has(a.self.items, S.untag(x, "str")))))


def _group_bad_index(S, a, i):
    g = S.some(a.self.dims)[i]
    return S.and_(S.is_tag(g, "tuple"), lambda: S.len(S.untag(g, "tuple")) == 0)


def _group_bad_key(S, a, i):
    g = S.some(a.self.dims)[i]
    return S.and_(S.not_(_group_bad_index(S, a, i)), lambda: S.not_(S.has(a.self.items, _first(S, g))))


def _counts(S, a):
    return S.and_(S.is_none(a.self.exclude), S.len(a.self.items) != 0)


def _slen_ensures(S, a, r, post):
    if not S.symbolic:
        import math
        sw = a.self
        if sw.exclude is not None:
            return {"with an exclude function: the number of combinations that list() yields": r == len(sw.list())}
        if not sw.items:
            return {"no items: nothing is generated": r == 0}
        if _cartesian(S, a):
            return {"the product of the lengths of all items": r == math.prod(len(v) for v in sw.items.values())}
        return {"the product of the sizes of the zipped groups (a group has the length of its first member)":
                r == math.prod(len(sw.items[g if isinstance(g, str) else g[0]]) for g in sw.dims)}
    items = a.self.items
    order = getattr(post._locals, "order_of_loop0", None)
    out = {
        "with an exclude function: the number of combinations that list() yields": S.implies(
            S.not_(S.is_none(a.self.exclude)), lambda: r == S.len(S.uf("fn:Sweep.list", SO, a.self))),
        "no items: nothing is generated": S.implies(S.and_(S.is_none(a.self.exclude), S.len(items) == 0), lambda: r == 0),
        "the product of the sizes of the zipped groups (a group has the length of its first member)": S.implies(
            S.and_(_counts(S, a), S.not_(_cartesian(S, a))), lambda: r == _QLEN(
                items.t, S.some(a.self.dims).t, S.len(S.some(a.self.dims)))),
    }
    if order is not None:  # (the path went through the loop over the items: its enumeration of the keys is the witness)
        out["the product of the lengths of all items (along the duplicate-free enumeration of the keys that the loop "
            "followed)"] = S.implies(S.and_(_counts(S, a), _cartesian(S, a)), lambda: r == _PLEN(items.t, order.t, S.len(items)))
    return out


sweep_len = Contract(
    f"{F}::Sweep.__len__", params={"self": SweepLenV}, returns=TInt, axioms=_len_axioms,
    raises=[("IndexError", lambda S, a: S.and_(_counts(S, a), S.not_(_cartesian(S, a)), lambda: S.exists(
                0, S.len(S.some(a.self.dims)), lambda i: _group_bad_index(S, a, i)))),
            ("KeyError", lambda S, a: S.and_(_counts(S, a), S.not_(_cartesian(S, a)), lambda: S.exists(
                0, S.len(S.some(a.self.dims)), lambda i: _group_bad_key(S, a, i))))],
    ensures=_slen_ensures,
    loops={0: LoopSpec(lambda S, a, v, k: {
        "product so far": v.total_length == _PLEN(a.self.items.t, getattr(v, "order_of_loop0").t, k)}),
           1: LoopSpec(lambda S, a, v, k: {
               "product so far": v.total_length == _QLEN(a.self.items.t, S.some(a.self.dims).t, k),
               "groups so far are well-formed": S.forall(0, k, lambda i: S.and_(
                   S.not_(_group_bad_index(S, a, i)), lambda: S.not_(_group_bad_key(S, a, i))))})},
)
LEN = [at_least_tuple, sweep_list, sweep_len]


def len_gen(rng, tier):
    from pipefunc.sweep import Sweep
    keys = ["a", "b", "c"]
    for q in range(500 if tier == "quick" else 5000):
        items = {k: [f"{k}{i}" for i in range(rng.randint(0, 3))] for k in keys if rng.random() < 0.7}
        r = rng.random()
        if r < 0.35:
            dims = None
        elif r < 0.55:
            dims = list(items)
            rng.shuffle(dims)
        else:
            ks = list(items) + (["zz"] if rng.random() < 0.15 else [])
            rng.shuffle(ks)
            dims, i = [], 0
            while i < len(ks):
                n = rng.randint(1, 2)
                grp = tuple(ks[i:i + n])
                dims.append(grp[0] if len(grp) == 1 and rng.random() < 0.5 else grp)
                i += n
            if rng.random() < 0.08:
                dims.append(())
            # zipped members must be equally long for list(); __len__ itself only looks at the first member
        # (with an exclude function __len__ is len(list()): ill-formed groups are then list()'s business)
        exclude = (lambda d: d.get("a") == "a0") if dims is None and rng.random() < 0.3 else None
        yield {"self": Sweep(items, dims=dims, exclude=exclude)}
