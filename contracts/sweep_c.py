"""Contracts for pipefunc/sweep.py (C17): "+ / MultiSweep yields their concatenation" rests on MultiSweep.combine -
the receiver's list of sweeps is extended by the operand (a MultiSweep contributes its own sweeps, in order, any other
Sweep itself) and the receiver is returned.  Sweep objects are opaque identities here; what a Sweep enumerates is the
bounded part of C17."""
from __future__ import annotations

from pyvc.engine import Contract
from pyvc.types import TObj, TRec, TSeq, TUnion, Tagged

F = "pipefunc/sweep.py"
SO = TSeq(TObj)
MultiSweepV = TRec("MultiSweep", {"sid": TObj, "sweeps": SO})


def _vid(x):
    return getattr(x, "vf_id", None)


def _arg_from_py(x):
    from pipefunc.sweep import MultiSweep
    if isinstance(x, MultiSweep):
        return Tagged("MultiSweep", {"sid": _vid(x), "sweeps": tuple(x.sweeps)})
    return Tagged("Sweep", x)


def _mk_multi(d):
    from pipefunc.sweep import MultiSweep
    m = MultiSweep(*d["sweeps"])
    m.vf_id = d["sid"]
    return m


MultiSweepV.to_py = _mk_multi
MultiSweepV.from_py = lambda o: o if isinstance(o, dict) else {"sid": _vid(o), "sweeps": tuple(o.sweeps)}


# an operand of +: a MultiSweep, another Sweep, or something that is not a Sweep at all
TAddArg = TUnion("SweepAddArg", [("MultiSweep", MultiSweepV), ("Sweep", TObj), ("object", TObj)],
                 to_py=lambda t: _mk_multi(t.value) if t.tag == "MultiSweep" else t.value,
                 from_py=lambda x: _arg_from_py(x) if _is_sweep(x) else Tagged("object", x))
TAddArg.supers = {"MultiSweep": ("Sweep",)}



def _is_multi(S, x):
    if S.symbolic:
        return S.is_tag(x, "MultiSweep")
    from pipefunc.sweep import MultiSweep
    return isinstance(x, MultiSweep)


def _ids(S, seq):
    return seq if S.symbolic else [_vid(x) for x in seq]


def _combine_ensures(S, a, r, post):
    old, new = a.self.sweeps, post.self.sweeps
    n0 = S.len(old)
    if S.symbolic:
        other_multi = S.untag(a.other, "MultiSweep").sweeps
        other_one = S.ite(S.is_tag(a.other, "Sweep"), lambda: S.untag(a.other, "Sweep"), lambda: S.untag(a.other, "object"))
        return {
            "the receiver's sweeps come first, unchanged": S.forall(0, n0, lambda i: S.eq(new[i], old[i])),
            "a MultiSweep operand contributes its sweeps, in order": S.implies(_is_multi(S, a.other), lambda: S.and_(
                S.len(new) == n0 + S.len(other_multi),
                lambda: S.forall(0, S.len(other_multi), lambda j: S.eq(new[n0 + j], other_multi[j])))),
            "anything else is appended itself": S.implies(S.not_(_is_multi(S, a.other)), lambda: S.and_(
                S.len(new) == n0 + 1, lambda: S.eq(new[n0], other_one))),
            "the receiver is returned": S.and_(S.eq(r.sid, a.self.sid), lambda: S.eq(r.sweeps, new) if not S.symbolic
                                               else r.sweeps.t == new.t),
        }
    tail = _ids(S, a.other.sweeps) if _is_multi(S, a.other) else [_vid(a.other)]
    if not _is_multi(S, a.other) and _vid(a.other) is None:  # (an operand without an identity tag: compare the object)
        return {"appended itself": _ids(S, new[:-1]) == _ids(S, old) and new[-1] == a.other,
                "the receiver is returned": _vid(r) == _vid(a.self)}
    return {
        "concatenation: the receiver's sweeps, then the operand's (a MultiSweep contributes its sweeps, any other Sweep "
        "itself)": _ids(S, new) == _ids(S, old) + tail,
        "the receiver is returned": _vid(r) == _vid(a.self) and _ids(S, r.sweeps) == _ids(S, new),
    }


multisweep_combine = Contract(
    f"{F}::MultiSweep.combine", params={"self": MultiSweepV, "other": TAddArg}, returns=MultiSweepV,
    modifies=("self",), pure=False, ensures=_combine_ensures,
)
# ---- the + operators ----------------------------------------------------------------------------------------------------
def _is_sweep(x):
    from pipefunc.sweep import Sweep
    return isinstance(x, Sweep)


def _ident(S, x):
    """The object an operand is (its identity as an element of a list of sweeps)."""
    if S.symbolic:
        return S.ite(S.is_tag(x, "MultiSweep"), lambda: S.untag(x, "MultiSweep").sid, lambda: S.untag(x, "Sweep"))
    return _vid(x)


multisweep_ctor = Contract(
    f"{F}::MultiSweep", params={"s0": TObj, "s1": TAddArg}, returns=MultiSweepV, trusted=True, pure=False,
    ensures=lambda S, a, r, post: ({"the new MultiSweep lists its arguments, in order": S.and_(
        S.len(r.sweeps) == 2, lambda: S.eq(r.sweeps[0], a.s0), lambda: S.eq(r.sweeps[1], _ident(S, a.s1)))}
        if S.symbolic else {}),
    note="MultiSweep(*sweeps): `self.sweeps = list(sweeps)` (constructor, two arguments as used by Sweep.__add__)")

sweep_add = Contract(
    f"{F}::Sweep.__add__", params={"self": TObj, "other": TAddArg}, returns=MultiSweepV, pure=False,
    raises=[("TypeError", lambda S, a: S.not_(S.or_(S.is_tag(a.other, "MultiSweep"), S.is_tag(a.other, "Sweep")))
             if S.symbolic else not _is_sweep(a.other))],
    ensures=lambda S, a, r, post: {
        "a + b is the MultiSweep of exactly (a, b), in this order": (S.and_(
            S.len(r.sweeps) == 2, lambda: S.eq(r.sweeps[0], a.self), lambda: S.eq(r.sweeps[1], _ident(S, a.other)))
            if S.symbolic else [_vid(x) for x in r.sweeps] == [_vid(a.self), _vid(a.other)]),
    },
)


def _madd_ensures(S, a, r, post):
    if S.symbolic:
        from types import SimpleNamespace
        # other is a Sweep here (TypeError otherwise): the clause of combine, read with the + operand's sort
        old, new, n0 = a.self.sweeps, post.self.sweeps, S.len(a.self.sweeps)
        om = S.untag(a.other, "MultiSweep").sweeps
        return {
            "the receiver's sweeps come first, unchanged": S.forall(0, n0, lambda i: S.eq(new[i], old[i])),
            "a MultiSweep operand contributes its sweeps, in order": S.implies(S.is_tag(a.other, "MultiSweep"), lambda: S.and_(
                S.len(new) == n0 + S.len(om), lambda: S.forall(0, S.len(om), lambda j: S.eq(new[n0 + j], om[j])))),
            "any other Sweep is appended itself": S.implies(S.is_tag(a.other, "Sweep"), lambda: S.and_(
                S.len(new) == n0 + 1, lambda: S.eq(new[n0], S.untag(a.other, "Sweep")))),
            "the receiver is returned": S.and_(S.eq(r.sid, a.self.sid), lambda: r.sweeps.t == new.t),
        }
    return _combine_ensures(S, a, r, post)


multisweep_add = Contract(
    f"{F}::MultiSweep.__add__", params={"self": MultiSweepV, "other": TAddArg}, returns=MultiSweepV,
    modifies=("self",), pure=False,
    raises=[("TypeError", lambda S, a: S.is_tag(a.other, "object") if S.symbolic else not _is_sweep(a.other))],
    ensures=_madd_ensures,
)
ALL = [multisweep_combine]
ADD = [multisweep_combine, multisweep_ctor, sweep_add, multisweep_add]


def add_gen(rng, tier):
    for c in combine_gen(rng, tier):
        if rng.random() < 0.1:
            c = dict(c, other=rng.choice([3, "x", None]))
        yield c


def sweep_add_gen(rng, tier):
    from pipefunc.sweep import Sweep
    for c in add_gen(rng, tier):
        s = Sweep({"k": [1]})
        s.vf_id = "left"
        yield {"self": s, "other": c["other"]}


def combine_gen(rng, tier):
    from pipefunc.sweep import MultiSweep, Sweep
    for q in range(300 if tier == "quick" else 3000):
        def sw(tag):
            s = Sweep({"a": [1, 2]} if rng.random() < 0.5 else {})
            s.vf_id = tag
            return s
        recv = MultiSweep(*[sw(f"r{q}_{i}") for i in range(rng.randint(0, 3))])
        recv.vf_id = f"recv{q}"
        if rng.random() < 0.5:
            other = MultiSweep(*[sw(f"o{q}_{i}") for i in range(rng.randint(0, 3))])
            other.vf_id = f"other{q}"
        else:
            other = sw(f"single{q}")
        yield {"self": recv, "other": other}
