"""Contract for pipefunc/map/_run.py::_update_array (C03, C05, C06: every element is written exactly once, under the
key of its linear index).

Abstract view of a storage array for this function: (sid, dump_in_subprocess) plus ghost fields recording its dumps -
how many there were and the key/value of the last one.  `StorageBase.dump` is an assumed contract (its behaviour per
backend is C07).  The function is called twice per element - inside the executor (in_post_process=False) and in the
main process (in_post_process=True); `exactly-once` below is the statement that, for every array, exactly one of the
two calls dumps.
"""
from __future__ import annotations

import z3

from pyvc.engine import Contract, LoopSpec
from pyvc.types import TBool, TInt, TObj, TOpt, TRec, TSeq

from .mapspec import _n_input_indices, all_pos
from .ty import SB, SI, MapSpecT

F = "pipefunc/map/_run.py"
SO = TSeq(TObj)


class LoggedArray:
    """A real DictArray-like object for the bounded rung: records its dumps."""

    def __init__(self, sid, dump_in_subprocess, ndumps=0, last_key=(), last_val=None):
        self.sid, self._dis = sid, dump_in_subprocess
        self.ndumps, self.last_key, self.last_val = ndumps, tuple(last_key), last_val

    @property
    def dump_in_subprocess(self):
        return self._dis

    def dump(self, key, value):
        self.ndumps += 1
        self.last_key, self.last_val = tuple(key), value


StorageW = TRec("StorageW", {"sid": TObj, "dump_in_subprocess": TBool, "ndumps": TInt, "last_key": SI, "last_val": TObj},
                to_py=lambda d: LoggedArray(d["sid"], d["dump_in_subprocess"], d["ndumps"], d["last_key"], d["last_val"]))
SW = TSeq(StorageW)
PipeFuncW = TRec("PipeFuncW", {"mapspec": MapSpecT})

storage_dump = Contract(
    "pipefunc/map/_storage_array/_base.py::StorageW.dump", params={"self": StorageW, "key": SI, "value": TObj},
    returns=None, trusted=True, pure=False, modifies=("self",),
    ensures=lambda S, a, r, post: ({
        "logged": S.and_(post.self.ndumps == a.self.ndumps + 1, S.eq(post.self.last_key, a.key),
                         S.eq(post.self.last_val, a.value)),
        "identity": S.and_(S.eq(post.self.sid, a.self.sid), post.self.dump_in_subprocess == a.self.dump_in_subprocess),
    } if S.symbolic else {}),
    note="StorageBase.dump(key, value): one write of `value` under `key` (ghost log); what a dump does to later reads is "
         "the C07 contract of each backend",
)

_ESFM = z3.Function("fn:external_shape_from_mask", SI.sort(), SB.sort(), SI.sort())
_OKEY = z3.Function("fn:MapSpec.output_key", MapSpecT.sort(), SI.sort(), z3.IntSort(), SI.sort())


def _ext(S, a):
    if S.symbolic:
        from pyvc.types import Val, unwrap
        return unwrap(Val(SI, _ESFM(a.shape.t, a.shape_mask.t)))
    from pipefunc.map._storage_array._base import select_by_mask  # noqa: F401
    from pipefunc.map._shapes import external_shape_from_mask
    return external_shape_from_mask(tuple(a.shape), tuple(a.shape_mask))


def _key(S, a):
    if S.symbolic:
        from pyvc.types import Val, unwrap
        return unwrap(Val(SI, _OKEY(a.func.mapspec.t, _ESFM(a.shape.t, a.shape_mask.t), a.index)))
    return tuple(a.func.mapspec.output_key(_ext(S, a), a.index))


def _dumps(S, a, x):
    return S.or_(a.force_dump, x.dump_in_subprocess != a.in_post_process)


def _after(S, a, x0, x1, value):
    """x1 is x0 after this call."""
    return S.ite(_dumps(S, a, x0),
                 lambda: S.and_(x1.ndumps == x0.ndumps + 1, S.eq(x1.last_key, _key(S, a)), S.eq(x1.last_val, value),
                                S.eq(x1.sid, x0.sid), x1.dump_in_subprocess == x0.dump_in_subprocess),
                 lambda: _same(S, x0, x1))


def _same(S, x0, x1):
    if not S.symbolic:
        return (x1.ndumps, x1.last_key, x1.last_val, x1.sid, x1.dump_in_subprocess) == \
            (x0.ndumps, tuple(x0.last_key), x0.last_val, x0.sid, x0.dump_in_subprocess)
    return S.eq(x1, x0)


def _n(S, a):
    return S.min(S.len(a.arrays), S.len(a.outputs))


def _ua_ensures(S, a, r, post):
    A0, A1 = a.arrays, post.arrays
    return {
        "same arrays": S.len(A1) == S.len(A0),
        "each array with an output: dumped once under the element's key iff force_dump or its side of the executor "
        "boundary, else untouched": S.forall(0, _n(S, a), lambda i: _after(S, a, A0[i], A1[i], a.outputs[i])),
        "arrays without an output untouched": S.forall(_n(S, a), S.len(A0), lambda i: _same(S, A0[i], A1[i])),
        # a fact about the dump condition itself (not about this call): of the two calls made for an element - executor
        # side (in_post_process=False) and main-process side (True) - exactly one satisfies it for a given array
        "exactly one side of the executor boundary dumps": S.forall(0, S.len(A0), lambda i: (
            (A0[i].dump_in_subprocess != False) != (A0[i].dump_in_subprocess != True))),  # noqa: E712
    }


def _ua_inv(S, a, v, k):
    A0, A = a.arrays, v.arrays
    return {
        "len": S.len(A) == S.len(A0),
        "done": S.forall(0, k, lambda i: _after(S, a, A0[i], A[i], a.outputs[i])),
        "rest": S.forall(k, S.len(A0), lambda i: _same(S, A0[i], A[i])),
        "key-cache": S.or_(S.is_none(v.output_key), lambda: S.eq(S.some(v.output_key), _key(S, a))),
    }


update_array = Contract(
    f"{F}::_update_array",
    params={"func": PipeFuncW, "arrays": SW, "shape": SI, "shape_mask": SB, "index": TInt, "outputs": SO,
            "in_post_process": TBool, "force_dump": TBool},
    defaults={"force_dump": False}, returns=None, modifies=("arrays",), pure=False,
    requires=lambda S, a: {
        "mask-covers-shape": S.len(a.shape) == S.len(a.shape_mask),
        "external-dims-positive": all_pos(S, _ext(S, a)),
        "external-rank = number of input axes": S.len(_ext(S, a)) == _n_input_indices(S, a.func.mapspec),
    },
    ensures=_ua_ensures,
    loops={0: LoopSpec(_ua_inv)},
    locals_={"output_key": TOpt(SI)},
    note="the arrays are pairwise distinct objects (one per output name)",
)

ALL = [storage_dump, update_array]


def gen(rng, tier):
    from pipefunc.map._mapspec import MapSpec
    n = 400 if tier == "quick" else 4000
    specs = ["x[i] -> y[i]", "x[i], z[j] -> y[i, j]", "x[i, j] -> y[i, j], w[i, j]", "x[i], z[j], u[k] -> y[i, j, k]",
             "x[i], z[j] -> y[j, i]"]
    for q in range(n):
        ms = MapSpec.from_string(rng.choice(specs))
        n_ext = len(ms.input_indices)
        mask = [True] * n_ext + [False] * rng.choice([0, 0, 1, 2])  # internal axes of the output, interleaved
        rng.shuffle(mask)
        mask = tuple(mask)
        shape = tuple(rng.randint(1, 3) for _ in mask)
        ext = tuple(s for s, m in zip(shape, mask) if m)
        size = 1
        for d in ext:
            size *= d
        n_arr = rng.randint(0, 3)
        arrays = [LoggedArray(f"s{j}", rng.random() < 0.5, rng.randint(0, 2), (0,) * n_ext, "old") for j in range(n_arr)]
        outputs = [f"out{q}_{j}" for j in range(rng.choice([n_arr, n_arr, max(0, n_arr - 1), n_arr + 1]))]

        class _F:  # the only attribute of the PipeFunc that _update_array reads
            mapspec = ms
        yield {"func": _F, "arrays": arrays, "shape": shape, "shape_mask": mask, "index": rng.randrange(size),
               "outputs": outputs, "in_post_process": rng.random() < 0.5, "force_dump": rng.random() < 0.2}
