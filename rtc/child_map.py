"""Child process used by C05/C13: runs Pipeline.map for a pickled program with an optional injected fault.

usage: python -m rtc.child_map <job.pickle>       job = {prog, folder, storage, cleanup, fault, logfile, parallel, primed_inputs}
fault: None | {"kind": "raise", "func": name, "call": n}
            | {"kind": "kill-before-open", "n": k}     os._exit before the k-th open-for-write after the first user call
            | {"kind": "kill-after-rename", "n": k}    os._exit right after the k-th rename inside the run folder
            | {"kind": "torn-write", "n": k}           the k-th file opened for writing receives half of its bytes, then os._exit
            | {"kind": "count"}                        only count the write events
Prints RESULT<json> on success, FAILED<json> if map raised.
"""
from __future__ import annotations

import builtins
import io
import json
import os
import pathlib
import pickle
import sys


def main() -> int:
    job = pickle.load(open(sys.argv[1], "rb"))
    sys.modules["zarr"] = None
    for p in job["sys_path"]:
        if p not in sys.path:
            sys.path.insert(0, p)
    from rtc import progs
    prog, folder = job["prog"], job["folder"]
    fault = job.get("fault")
    counter = {"opens": 0, "armed": fault is None or fault.get("kind") in ("count",) or True}
    events_path = job.get("events")

    def note(msg):
        if events_path:
            with io.open(events_path, "a") as fh:  # noqa: UP020
                fh.write(msg + "\n")

    if fault and fault["kind"] in ("kill-before-open", "torn-write", "count"):
        real_open = pathlib.Path.open

        class Torn:
            def __init__(self, f):
                self.f = f

            def write(self, b):
                self.f.write(b[: max(1, len(b) // 2)])
                self.f.flush()
                note("TORN")
                os._exit(137)

            def __getattr__(self, n):
                return getattr(self.f, n)

            def __enter__(self):
                return self

            def __exit__(self, *a):
                return self.f.__exit__(*a)

        def patched(self, mode="r", *a, **kw):
            if ("w" in mode or "a" in mode) and str(self).startswith(folder):
                k = counter["opens"]
                counter["opens"] += 1
                note(f"OPEN {k} {self}")
                if fault["kind"] == "kill-before-open" and k == fault["n"]:
                    note("KILL")
                    os._exit(137)
                if fault["kind"] == "torn-write" and k == fault["n"]:
                    return Torn(real_open(self, mode, *a, **kw))
            return real_open(self, mode, *a, **kw)
        pathlib.Path.open = patched
    if fault and fault["kind"] in ("kill-after-rename", "count"):
        # the process dies right after its n-th rename inside the run folder (what has not been flushed by then is lost)
        counter["renames"] = 0
        real_replace, real_rename, os_replace, os_rename = pathlib.Path.replace, pathlib.Path.rename, os.replace, os.rename

        def after(dst):
            if str(dst).startswith(folder):
                k = counter["renames"]
                counter["renames"] += 1
                note(f"RENAME {k} {dst}")
                if fault["kind"] == "kill-after-rename" and k == fault["n"]:
                    note("KILL")
                    os._exit(137)

        def p_replace(self, target):
            r = real_replace(self, target)
            after(target)
            return r

        def p_rename(self, target):
            r = real_rename(self, target)
            after(target)
            return r

        def o_replace(src, dst, *a, **kw):
            r = os_replace(src, dst, *a, **kw)
            after(dst)
            return r

        def o_rename(src, dst, *a, **kw):
            r = os_rename(src, dst, *a, **kw)
            after(dst)
            return r
        pathlib.Path.replace, pathlib.Path.rename, os.replace, os.rename = p_replace, p_rename, o_replace, o_rename
    if fault and fault["kind"] == "raise":
        class Boom(RuntimeError):
            pass
        progs.set_fail({"func": fault["func"], "call": fault["call"], "exc": lambda: Boom("injected")})
    progs.set_log(None, job["logfile"])
    p = progs.build_pipeline(prog)
    kw = {}
    if job.get("parallel"):
        from concurrent.futures import ThreadPoolExecutor
        kw = {"parallel": True, "executor": ThreadPoolExecutor(2)}
    else:
        kw = {"parallel": False}
    inputs = progs.real_inputs(prog)
    if job.get("primed_inputs"):  # the same program given other values for every input
        inputs = {k: _primed(v) for k, v in inputs.items()}
    try:
        res = p.map(inputs, run_folder=folder, storage=job["storage"], cleanup=job["cleanup"], **progs.map_kwargs(prog), **kw)
    except Exception as e:  # noqa: BLE001
        print("FAILED" + json.dumps({"type": type(e).__name__, "msg": str(e)[:300], "opens": counter["opens"]}))
        return 0
    outs = {o: progs.to_nested(res[o].output) for f in prog["funcs"] for o in f["outputs"]}
    print("RESULT" + json.dumps({"outputs": outs, "opens": counter["opens"], "renames": counter.get("renames", 0)}))
    return 0


def _primed(v):
    import numpy as np
    if isinstance(v, np.ndarray):
        w = np.empty(v.shape, dtype=object)
        for idx in np.ndindex(v.shape):
            w[idx] = f"{v[idx]}'"
        return w
    if isinstance(v, list):
        return [_primed(y) for y in v]
    return f"{v}'"


if __name__ == "__main__":
    sys.exit(main())
