"""Program descriptions for the system-level contracts (DESIGN 3.3): plain data, used as generator output, oracle
input and replay format.

prog = {
  "funcs": [{"name": "f0", "params": ["x","y"], "outputs": ["a"], "spec": {"inputs":[(n,axes)],"outputs":[(n,axes)]} | None,
             "internal": (2,) | None, "defaults": {p: value}, "bound": {p: value}}],
  "inputs": {"x": {"shape": (2,3), "kind": "ndarray"|"list"} | {"scalar": "s"}},
  "sizes": {"i": 2, ...}
}
Values are *strings* (tagging bodies): an input element is "x[0,1]", a function result is "f0(x=x[0],y=y[1])"; arrays
are frozen to "[a,b,...]".  String composition exposes swapped, mis-sliced, stale or recomputed arguments which
arithmetic bodies hide, and never triggers numpy's sequence-to-array conversions.
"""
from __future__ import annotations

import itertools
import os
import random
from typing import Any

import numpy as np

from specs import mapspec_ref as ref

IDX = ("i", "j", "k", "l")


# ---- tagging values -----------------------------------------------------------------------------------------
MASKED = "<masked>"


def _unmask(v):
    """Masked array -> nested lists with MASKED for masked entries (a stored None stays None)."""
    m = np.ma.getmaskarray(v)
    d = v.data
    if v.ndim == 0:
        return MASKED if bool(m[()]) else d[()]
    return [(_unmask(np.ma.MaskedArray(d[i], mask=m[i])) if isinstance(d[i], np.ndarray) or v.ndim > 1
             else (MASKED if bool(m[i]) else d[i])) for i in range(v.shape[0])]


def fz(v) -> str:
    """Freeze a value to its canonical string."""
    if v is np.ma.masked:
        return MASKED
    if isinstance(v, np.ma.MaskedArray):
        v = _unmask(v)
    if isinstance(v, np.ndarray):
        v = v.tolist()
    if isinstance(v, tuple):  # (a tuple handed to a function is not a list)
        return "(" + ",".join(fz(x) for x in v) + ")"
    if isinstance(v, list):
        return "[" + ",".join(fz(x) for x in v) + "]"
    if isinstance(v, np.generic):
        v = v.item()
    return str(v)


class Handle:
    """An argument that is not a plain value: holds a lock (cannot be copied or pickled) and is compared by identity,
    like a connection or a client object.  Prints as H<name>."""

    def __init__(self, name: str):
        import threading
        self.name, self.lock = name, threading.Lock()

    def __repr__(self) -> str:
        return f"H<{self.name}>"

    __str__ = __repr__


def main_box(s: str):
    """An instance of a class defined in `__main__` (what a value is when its class is defined in the script or notebook
    that runs the pipeline): pickle stores such an object by reference to `__main__`, cloudpickle by value.  It prints
    as the string it wraps."""
    import sys
    main = sys.modules["__main__"]
    cls = getattr(main, "VerifBox", None)
    if cls is None:
        class VerifBox:
            def __init__(self, s):
                self.s = s

            def __str__(self):
                return self.s

            __repr__ = __str__

            def __eq__(self, other):
                return type(other).__name__ == "VerifBox" and other.s == self.s

            def __hash__(self):
                return hash(self.s)
        VerifBox.__module__ = "__main__"
        VerifBox.__qualname__ = "VerifBox"
        main.VerifBox = cls = VerifBox
    return cls(s)


def input_value(name: str, desc: dict):
    if "scalar" in desc:
        return main_box(desc["scalar"]) if desc.get("main_class") else desc["scalar"]
    shape = tuple(desc["shape"])
    arr = np.empty(shape, dtype=object)
    for idx in itertools.product(*[range(d) for d in shape]):
        arr[idx] = f"{name}[{','.join(map(str, idx))}]"
        if desc.get("main_class"):
            arr[idx] = main_box(arr[idx])
    if desc.get("kind") == "list":
        return arr.tolist()
    return arr


def nested_input(name: str, desc: dict):
    """Oracle-side view: nested python lists of strings (or a scalar string)."""
    v = input_value(name, desc)
    return v.tolist() if isinstance(v, np.ndarray) else v


class CustomError(Exception):
    """A picklable user exception with arguments (used as an injected failure)."""

    def __init__(self, code, detail):
        super().__init__(code, detail)
        self.code, self.detail = code, detail


def exc_no_args():
    return ValueError()


def exc_with_args():
    return KeyError("missing-key", 42)


def exc_custom():
    return CustomError(7, "custom detail")


SENTINEL = RuntimeError("sentinel failure")  # one instance raised again and again (a remembered failure)


def exc_sentinel():
    return SENTINEL


EXC_FACTORIES = {"ValueError()": exc_no_args, "KeyError(args)": exc_with_args, "CustomError": exc_custom}

_LOG: list | None = None
_LOGFILE: str | None = None
_FAIL: dict | None = None  # {"func": name, "call": n, "exc": callable}
_COUNTS: dict = {}


def set_log(lst: list | None, logfile: str | None = None):
    global _LOG, _LOGFILE
    _LOG = lst
    _LOGFILE = logfile
    _COUNTS.clear()


def log_call(fname: str, tag: str):
    """Record an invocation of user code that is not one of the generated bodies."""
    if _LOG is not None:
        _LOG.append((fname, tag))


def set_fail(spec: dict | None):
    global _FAIL
    _FAIL = spec


def returns_none(tag: str, none_mod) -> bool:
    """Deterministic choice of the calls whose result is None (a value like any other)."""
    import zlib
    return bool(none_mod) and zlib.crc32(tag.encode()) % none_mod == 0


def pick_by_name(out, name):
    """A custom output_picker: the function returns a dict keyed by its own (unscoped) output names; the picker is
    asked for the pipeline-level name, which carries the scope prefix after update_scope."""
    return out[name.split(".")[-1]]


def _body(fname: str, outputs: tuple, internal, kw: dict, none_mod=None, as_dict=False, as_list=False):
    s = f"{fname}(" + ",".join(f"{k}={fz(v)}" for k, v in sorted(kw.items())) + ")"
    if _LOG is not None:
        _LOG.append((fname, s))
    if _LOGFILE is not None:
        with open(_LOGFILE, "a") as fh:
            fh.write(f"{os.getpid()}\t{fname}\t{s}\n")
    if _FAIL is not None and _FAIL["func"] == fname:
        n = _COUNTS.get(fname, 0)
        _COUNTS[fname] = n + 1
        hit = (_FAIL["tag"] == s) if _FAIL.get("tag") is not None else (_FAIL.get("call") in (None, n))
        if hit:
            raise _FAIL["exc"]()

    def one(tag):
        if internal:
            arr = np.empty(tuple(internal), dtype=object)
            for t in itertools.product(*[range(d) for d in internal]):
                arr[t] = f"{tag}<{','.join(map(str, t))}>"
            return (tuple(arr.tolist()) if as_list == "tuple" else arr.tolist()) if as_list else arr
        return tag
    if len(outputs) == 1:
        return None if returns_none(s, none_mod) else one(s)
    if as_dict:
        return {o: one(f"{s}.{o}") for o in outputs}
    return tuple(one(f"{s}.{o}") for o in outputs)


def make_callable(f: dict):
    """A real python function with the declared parameter names (cloudpicklable: defined via exec in a fresh dict)."""
    params = list(f["params"])
    sig = ", ".join(params)
    kw = ", ".join(f"{p}={p}" for p in params)
    src = f"def {f['name']}({sig}):\n    from rtc.progs import _body\n    return _body({f['name']!r}, {tuple(f['outputs'])!r}, {f.get('internal')!r}, dict({kw}), {f.get('none_mod')!r}, {bool(f.get('picker'))!r}, {f.get('as_list') or False!r})\n"
    ns: dict = {}
    exec(src, ns)  # noqa: S102
    fn = ns[f["name"]]
    fn.__module__ = "__main__"
    return fn


def build_pipeline(prog: dict, order: list[int] | None = None, **pipeline_kw):
    from pipefunc import PipeFunc, Pipeline
    funcs = []
    idxs = order if order is not None else range(len(prog["funcs"]))
    for q in idxs:
        f = prog["funcs"][q]
        outs = tuple(f["outputs"])
        kw: dict[str, Any] = {}
        if f.get("spec") is not None:
            kw["mapspec"] = ref.canonical_str(f["spec"])
        if f.get("internal") and not f.get("internal_via_map") and f.get("spec") is not None:
            # (one internal axis may be declared as a bare int, which the API allows)
            kw["internal_shape"] = f["internal"][0] if len(f["internal"]) == 1 and f.get("internal_bare_int") \
                else tuple(f["internal"])
        if f.get("defaults"):
            kw["defaults"] = dict(f["defaults"])
        if f.get("bound"):
            kw["bound"] = dict(f["bound"])
        if f.get("cache") is not None:
            kw["cache"] = f["cache"]
        if f.get("picker"):
            kw["output_picker"] = pick_by_name
        funcs.append(PipeFunc(make_callable(f), output_name=outs if len(outs) > 1 else outs[0], **kw))
    return Pipeline(funcs, **pipeline_kw)


def map_kwargs(prog: dict) -> dict:
    """Extra keyword arguments for Pipeline.map: internal shapes that are not declared on the PipeFunc (a bare int
    for one internal axis, which the API allows)."""
    shapes = {}
    for f in prog["funcs"]:
        if f.get("internal") and (f.get("internal_via_map") or f.get("plain_array")):
            # (the shape of an array returned whole by a function without a MapSpec is declared to map)
            for o in f["outputs"]:
                shapes[o] = f["internal"][0] if len(f["internal"]) == 1 and f.get("internal_bare_int") else tuple(f["internal"])
    return {"internal_shapes": shapes} if shapes else {}


def real_inputs(prog: dict) -> dict:
    return {n: input_value(n, d) for n, d in prog["inputs"].items() if not d.get("omit")}


# ---- oracle: denotation of a program ---------------------------------------------------------------------------
def _get(nested, key):
    """Index nested lists with a key of ints / slice(None)."""
    if not key:
        return nested
    k, rest = key[0], key[1:]
    if isinstance(k, slice):
        return [_get(x, rest) for x in nested]
    return _get(nested[k], rest)


def _shape_of(nested) -> tuple:
    shp = []
    while isinstance(nested, (list, tuple)):
        shp.append(len(nested))
        nested = nested[0] if nested else None
    return tuple(shp)


def _empty(shape):
    if not shape:
        return None
    return [_empty(shape[1:]) for _ in range(shape[0])]


def _set(nested, idx, v):
    for k in idx[:-1]:
        nested = nested[k]
    nested[idx[-1]] = v


def oracle_body(f: dict, kw: dict):
    s = f"{f['name']}(" + ",".join(f"{k}={fz(v)}" for k, v in sorted(kw.items())) + ")"
    internal = f.get("internal")

    def one(tag):
        if internal:
            arr = _empty(tuple(internal))
            for t in itertools.product(*[range(d) for d in internal]):
                _set(arr, t, f"{tag}<{','.join(map(str, t))}>")
            return tuple(arr) if f.get("as_list") == "tuple" and len(internal) == 1 else arr
        return tag
    outs = f["outputs"]
    if len(outs) == 1:
        return s, {outs[0]: None if returns_none(s, f.get("none_mod")) else one(s)}
    return s, {o: one(f"{s}.{o}") for o in outs}


CALL_INDEX: list = []  # side channel of the last denote(): (fname, tag, {index name: position}) per call


def denote(prog: dict, requested: set | None = None) -> tuple[dict, list]:
    """-> (values: name -> nested lists / raw value, calls: list of (fname, tag) in a valid order).
    Evaluates functions in listing order restricted to a topological order."""
    vals: dict[str, Any] = {n: nested_input(n, d) for n, d in prog["inputs"].items() if not d.get("omit")}
    calls: list = []
    CALL_INDEX.clear()
    pending = list(prog["funcs"])
    while pending:
        progressed = False
        for f in list(pending):
            needed = [p for p in f["params"] if p not in f.get("bound", {})]
            if all(p in vals or p in f.get("defaults", {}) for p in needed):
                _eval_func(f, vals, calls)
                pending.remove(f)
                progressed = True
        if not progressed:
            raise ValueError("program not evaluable (cycle or missing input)")
    # (a tuple-valued output is compared like a list of its elements; consumers above saw the tuple)
    return {k: (list(v) if isinstance(v, tuple) else v) for k, v in vals.items()}, calls


def _arg(f, p, vals):
    if p in f.get("bound", {}):
        return f["bound"][p]
    if p in vals:
        return vals[p]
    return f["defaults"][p]


def _eval_func(f: dict, vals: dict, calls: list):
    spec = f.get("spec")
    if spec is None or not spec["inputs"]:
        kw = {p: _arg(f, p, vals) for p in f["params"]}
        tag, outs = oracle_body(f, kw)
        calls.append((f["name"], tag))
        CALL_INDEX.append((f["name"], tag, {}))
        vals.update(outs)
        return
    oidx = ref.output_indices(spec)
    ext = ref.external_indices(spec)
    mapped = dict(spec["inputs"])
    # sizes of the external indices from the mapped inputs
    size: dict[str, int] = {}
    for n, axes in spec["inputs"]:
        shp = _shape_of(_arg(f, n, vals))
        for ax, d in zip(axes, shp):
            if ax is not None:
                if ax in size and size[ax] != d:
                    raise ValueError("zip mismatch in oracle")
                size[ax] = d
    internal = tuple(f.get("internal") or ())
    mask = tuple(x in ext for x in oidx)
    full = []
    it = iter(internal)
    for x, m in zip(oidx, mask):
        full.append(size[x] if m else next(it))
    outs_arr = {o: _empty(tuple(full)) for o in f["outputs"]}
    eshape = tuple(size[x] for x in ext)
    for e in itertools.product(*[range(d) for d in eshape]):
        where = dict(zip(ext, e))
        kw = {}
        for p in f["params"]:
            v = _arg(f, p, vals)
            if p in mapped:
                key = tuple(slice(None) if ax is None else where[ax] for ax in mapped[p])
                v = _get(v, key)
            kw[p] = v
        tag, outs = oracle_body(f, kw)
        calls.append((f["name"], tag))
        CALL_INDEX.append((f["name"], tag, dict(where)))
        for o in f["outputs"]:
            if internal:
                for t in itertools.product(*[range(d) for d in internal]):
                    ti = iter(t)
                    ei = iter(e)
                    idx = tuple(next(ei) if m else next(ti) for m in mask)
                    _set(outs_arr[o], idx, _get(outs[o], t))
            else:
                _set(outs_arr[o], e, outs[o]) if e else outs_arr.__setitem__(o, outs[o])
    vals.update(outs_arr)


def to_nested(v):
    """Normalise a pipefunc result (ndarray / masked / list / scalar) to nested lists (MASKED for masked entries, None
    for a stored None)."""
    if v is np.ma.masked:
        return MASKED
    if isinstance(v, np.ma.MaskedArray):
        v = _unmask(v)
    if isinstance(v, np.ndarray):
        v = v.tolist()
    if isinstance(v, (list, tuple)):
        return [to_nested(x) for x in v]
    if isinstance(v, np.generic):
        v = v.item()
    if type(v).__name__ == "VerifBox":
        return "VerifBox:" + v.s
    return v


def xr_nested(v):
    """to_nested for values read from an xarray object: xarray represents None inside object arrays as NaN (its
    missing-value convention, applied by xarray.DataArray itself), so NaN is read back as None."""
    def fix(x):
        if isinstance(x, list):
            return [fix(y) for y in x]
        if isinstance(x, float) and x != x:
            return None
        return x
    return fix(to_nested(v))


# ---- generator ---------------------------------------------------------------------------------------------------
def gen_map_program(rng: random.Random, n_funcs: int = 2, max_rank: int = 2, allow_internal: bool = True,
                    allow_multi: bool = True, allow_nomapspec: bool = True, allow_generator: bool = True,
                    sizes_pool=(1, 2, 3), allow_none: bool = True) -> dict:
    """Random valid map program.  Every array has canonical axis names; uses may replace a name by ':'."""
    sizes: dict[str, int] = {}
    pool = list(sizes_pool)

    def size_of(ix):
        if ix not in sizes:
            used = set(sizes.values())
            free = [s for s in pool if s not in used] or pool
            sizes[ix] = rng.choice(free)
        return sizes[ix]

    arrays: dict[str, tuple] = {}  # name -> canonical axes (tuple of index names) ; () for non-array values
    inputs: dict[str, dict] = {}
    funcs = []
    root_names = ["x", "y", "z"]
    out_names = iter(["a", "b", "c", "d", "e", "g", "h", "m"])
    n_roots = rng.randint(1, 2)
    for r in root_names[:n_roots]:
        rank = rng.randint(1, max_rank)
        axes = tuple(rng.sample(IDX, rank))
        arrays[r] = axes
        inputs[r] = {"shape": tuple(size_of(a) for a in axes), "kind": rng.choice(["ndarray", "list"]) if rank == 1 else "ndarray"}
    produced_plain: list[str] = []  # outputs without array structure (reductions)
    plain_arrays: set[str] = set()  # arrays returned whole by a function without a MapSpec
    for q in range(n_funcs):
        name = f"f{q}"
        cands = list(arrays)
        kind = rng.random()
        n_out = 2 if (allow_multi and rng.random() < 0.25) else 1
        outs = [next(out_names) for _ in range(n_out)]
        if allow_generator and kind < 0.08:
            d = rng.choice(pool)
            ix = rng.choice([i for i in IDX if i not in sizes] or list(IDX))
            if ix in sizes:
                continue
            sizes[ix] = d
            spec = {"inputs": [], "outputs": [(o, (ix,)) for o in outs]}
            funcs.append({"name": name, "params": [], "outputs": outs, "spec": spec, "internal": (d,)})
            _via_map(funcs[-1], rng)
            for o in outs:
                arrays[o] = (ix,)
            continue
        if allow_nomapspec and 0.08 <= kind < 0.15 and n_out == 1:
            # a function without a MapSpec that returns a whole array (rank 1-2), which later functions map over: the
            # library generates "... -> v[i, j]" for it from its consumers' MapSpecs
            free = [i for i in IDX if i not in sizes]
            rk = rng.choice((1, 2))
            if len(free) >= rk:
                new_ix = free[:rk]
                for ix in new_ix:
                    sizes[ix] = rng.choice(pool)
                prm = [p for p in (list(inputs) + produced_plain) if rng.random() < 0.4][:2]
                funcs.append({"name": name, "params": prm, "outputs": outs, "spec": None,
                              "internal": tuple(sizes[ix] for ix in new_ix), "plain_array": True,
                              # (a nested list cannot be indexed by a tuple key: only 1-d values are also returned as a list)
                              "as_list": rk == 1 and rng.choice((False, False, True, "tuple"))})
                if funcs[-1]["as_list"] == "tuple":
                    # a tuple is one value, not an array (the library refuses tuples as mapped inputs): later functions
                    # can only take it whole
                    produced_plain.append(outs[0])
                else:
                    arrays[outs[0]] = tuple(new_ix)
                    plain_arrays.add(outs[0])
                continue
        k = rng.randint(1, min(2, len(cands)))
        params = rng.sample(cands, k)
        if allow_nomapspec and kind > 0.85:
            extra = [p for p in produced_plain if rng.random() < 0.5]
            funcs.append({"name": name, "params": params + extra, "outputs": outs, "spec": None})
            if n_out > 1 and rng.random() < 0.5:
                funcs[-1]["picker"] = True  # returns a dict, routed by a custom output_picker
            produced_plain += outs
            continue
        spec_in = []
        named: list[str] = []
        for p in params:
            axes = arrays[p]
            mode = rng.random()
            if mode < 0.12 and len(params) > 1:
                continue  # unlisted: delivered whole
            use = tuple(a if (rng.random() < 0.8) else None for a in axes)
            if all(u is None for u in use) and rng.random() < 0.5:
                use = axes  # (otherwise the array is handed over whole through a fully sliced key, e.g. x[:, :])
            spec_in.append((p, use))
            named += [u for u in use if u is not None and u not in named]
        if not spec_in or not named:
            p = spec_in[0][0] if spec_in else params[0]
            spec_in = [(q_, u_) for q_, u_ in spec_in if q_ != p]
            spec_in.insert(0, (p, arrays[p]))
            named = list(arrays[p]) + [u for _, us in spec_in[1:] for u in us if u is not None and u not in arrays[p]]
        oidx = list(named)
        rng.shuffle(oidx)
        internal = None
        if allow_internal and rng.random() < 0.2:
            ix = next((i for i in IDX if i not in sizes and i not in oidx), None)
            if ix is not None:
                d = rng.choice(pool)
                sizes[ix] = d
                oidx.insert(rng.randint(0, len(oidx)), ix)
                internal = (d,)
        spec = {"inputs": spec_in, "outputs": [(o, tuple(oidx)) for o in outs]}
        funcs.append({"name": name, "params": params, "outputs": outs, "spec": spec, "internal": internal})
        if allow_none and internal is None and n_out == 1 and rng.random() < 0.2:
            funcs[-1]["none_mod"] = rng.choice((2, 3))  # some elements of this output are None (a value like any other)
        _via_map(funcs[-1], rng)
        for o in outs:
            arrays[o] = tuple(oidx)
    used = {p for f in funcs for p in f["params"]}
    inputs = {k: v for k, v in inputs.items() if k in used}
    # array-valued defaults on root parameters: either overridden by an input of a different size on one axis
    # (shapes must come from the supplied input) or used because the input is omitted
    for r in list(inputs):
        if rng.random() < 0.15 and len(inputs[r]["shape"]) == 1:
            mode = rng.choice(["override", "omit"])
            dshape = tuple(inputs[r]["shape"]) if mode == "omit" else tuple(d + 1 for d in inputs[r]["shape"])
            dval = nested_input(r + "d", {"shape": dshape})
            for f in funcs:
                if r in f["params"]:
                    f.setdefault("defaults", {})[r] = dval
            if mode == "omit":
                inputs[r] = {**inputs[r], "omit": True, "default": dval}
    return {"funcs": funcs, "inputs": inputs, "sizes": sizes}


def _via_map(f: dict, rng) -> None:
    if f.get("internal") and rng.random() < 0.4:
        f["internal_via_map"] = True
        f["internal_bare_int"] = rng.random() < 0.5


def gen_internal_consumer_program(rng: random.Random, n_ext=None, pos=None, use_mask=None) -> dict:
    """A producer whose output has an internal axis at position `pos` among `n_ext` mapped axes, and a consumer that
    reads that output through a key mixing slices and names over internal *and* mapped axes (`use_mask[q]`: axis q is
    named; all False = fully sliced), next to a second mapped input.  (Element order inside sliced blocks is what such
    consumers observe.)  Unspecified parameters are drawn at random."""
    n_ext = rng.choice((1, 1, 2)) if n_ext is None else n_ext
    ext = list(IDX[:n_ext])
    sizes = {a: rng.choice((2, 3)) for a in ext}
    ix = IDX[n_ext]
    sizes[ix] = rng.choice((2, 3))
    oidx = list(ext)
    oidx.insert(rng.randint(0, len(oidx)) if pos is None else pos, ix)
    inputs = {"n": {"shape": tuple(sizes[a] for a in ext), "kind": "ndarray"}}
    f0 = {"name": "f0", "params": ["n"], "outputs": ["x"], "internal": (sizes[ix],),
          "spec": {"inputs": [("n", tuple(ext))], "outputs": [("x", tuple(oidx))]}}
    _via_map(f0, rng)
    if use_mask is None:
        use_mask = tuple(rng.random() < 0.35 for _ in oidx)
    use = tuple(a if m else None for a, m in zip(oidx, use_mask))
    named = [u for u in use if u is not None]
    kx = IDX[n_ext + 1]
    sizes[kx] = rng.choice((1, 2, 3))
    inputs["w"] = {"shape": (sizes[kx],), "kind": rng.choice(("ndarray", "list"))}
    out_axes = named + [kx]
    rng.shuffle(out_axes)
    f1 = {"name": "f1", "params": ["x", "w"], "outputs": ["s"], "internal": None,
          "spec": {"inputs": [("x", use), ("w", (kx,))], "outputs": [("s", tuple(out_axes))]}}
    return {"funcs": [f0, f1], "inputs": inputs, "sizes": sizes}


def all_internal_consumer_programs(rng: random.Random) -> list:
    """Every (number of mapped axes 1..2, position of the internal axis, named/sliced pattern of the consumer's key)."""
    out = []
    for n_ext in (1, 2):
        for pos in range(n_ext + 1):
            for use_mask in itertools.product((False, True), repeat=n_ext + 1):
                out.append(gen_internal_consumer_program(rng, n_ext, pos, use_mask))
    return out


def describe(prog: dict) -> dict:
    return {"funcs": [{"name": f["name"], "params": f["params"], "outputs": f["outputs"],
                       "mapspec": ref.canonical_str(f["spec"]) if f.get("spec") else None,
                       "internal": f.get("internal"), "internal_via_map": f.get("internal_via_map", False),
                       "internal_bare_int": f.get("internal_bare_int", False), **({"defaults": f["defaults"]} if f.get("defaults") else {}),
                       **({"bound": f["bound"]} if f.get("bound") else {}),
                       **({"none_mod": f["none_mod"]} if f.get("none_mod") else {}),
                       **({"picker": True} if f.get("picker") else {}),
                       **({"plain_array": True, "as_list": f.get("as_list") or False} if f.get("plain_array") else {})}
                      for f in prog["funcs"]],
            "inputs": prog["inputs"]}
