"""Call-level DAG programs (no MapSpec) for C02 / C09 / C10 / C11 / C18: description, builder, reference evaluator.

desc = {"funcs": [{"name": "f0", "params": ["x", "a"],        # pipeline-level parameter names
                   "orig": {"x": "x_in"},                     # optional: pipeline-level name -> function arg name
                   "outputs": ["b"] | ["b", "c"], "defaults": {"x": "D_x"}, "bound": {"a": "B_a"}}]}
Bodies are tagging: result = "f0(arg=value,...)" over the function's *own* argument names, so that a value built from a
swapped, stale, defaulted-instead-of-supplied or recomputed argument differs.
"""
from __future__ import annotations

import itertools
import random
from typing import Any

from .progs import _body, fz

ROOTS = ("x", "y", "z")


def make_callable(f: dict):
    orig = f.get("orig", {})
    args = [orig.get(p, p) for p in f["params"]]
    sig = ", ".join(args)
    kw = ", ".join(f"{a}={a}" for a in args)
    ret = "None" if f.get("returns_none") else "r"
    src = (f"def {f['name']}({sig}):\n    from rtc.progs import _body\n"
           f"    r = _body({f['name']!r}, {tuple(f['outputs'])!r}, None, dict({kw}))\n    return {ret}\n")
    ns: dict = {}
    exec(src, ns)  # noqa: S102
    fn = ns[f["name"]]
    fn.__module__ = "__main__"
    return fn


def build(desc: dict, order=None, lazy: bool = False, cache_type=None, cached: set | None = None, **kw):
    from pipefunc import PipeFunc, Pipeline
    funcs = []
    idxs = order if order is not None else range(len(desc["funcs"]))
    for q in idxs:
        f = desc["funcs"][q]
        outs = tuple(f["outputs"])
        pkw: dict[str, Any] = {}
        if f.get("orig"):
            pkw["renames"] = {v: k for k, v in f["orig"].items()}
        if f.get("defaults"):
            inv = f.get("orig", {})
            # defaults are declared on the pipeline-level names
            pkw["defaults"] = dict(f["defaults"])
        if f.get("bound"):
            pkw["bound"] = dict(f["bound"])
        if cached is not None:
            pkw["cache"] = f["name"] in cached
        if f.get("out_orig"):  # outputs renamed: {pipeline-level name: name given to PipeFunc(output_name=...)}
            pkw.setdefault("renames", {}).update({v: k for k, v in f["out_orig"].items()})
            outs = tuple(f["out_orig"].get(o, o) for o in outs)
        funcs.append(PipeFunc(make_callable(f), output_name=outs if len(outs) > 1 else outs[0], **pkw))
    return Pipeline(funcs, lazy=lazy, cache_type=cache_type, **kw)


def producers(desc: dict) -> dict:
    return {o: f for f in desc["funcs"] for o in f["outputs"]}


def tag(f: dict, kw_pipeline_level: dict) -> str:
    orig = f.get("orig", {})
    kw = {orig.get(p, p): v for p, v in kw_pipeline_level.items()}
    return f"{f['name']}(" + ",".join(f"{k}={fz(v)}" for k, v in sorted(kw.items())) + ")"


class NotComputable(Exception):
    pass


def refeval(desc: dict, output: str, kwargs: dict) -> tuple[Any, dict, list]:
    """-> (value, all values of this evaluation incl. supplied ones, call order).  Resolution per parameter:
    bound value, else supplied keyword, else upstream output, else default."""
    prod = producers(desc)
    vals: dict[str, Any] = {}
    calls: list[str] = []

    def get(name: str):
        if name in vals:
            return vals[name]
        if name in kwargs:  # supplied (root argument or intermediate replacing its producer)
            vals[name] = kwargs[name]
            return vals[name]
        if name in prod:
            f = prod[name]
            kw = {}
            for p in f["params"]:
                if p in f.get("bound", {}):
                    kw[p] = f["bound"][p]
                elif p in kwargs:
                    kw[p] = kwargs[p]
                    vals[p] = kwargs[p]
                elif p in prod:
                    kw[p] = get(p)
                elif p in f.get("defaults", {}):
                    kw[p] = f["defaults"][p]
                    vals[p] = kw[p]
                else:
                    # a default declared by another function for the same parameter name is shared pipeline-wide
                    d = shared_defaults(desc)
                    if p in d:
                        kw[p] = d[p]
                        vals[p] = kw[p]
                    else:
                        raise NotComputable(p)
            t = tag(f, kw)
            calls.append(f["name"])
            if f.get("returns_none"):
                vals[f["outputs"][0]] = None
            elif len(f["outputs"]) == 1:
                vals[f["outputs"][0]] = t
            else:
                for o in f["outputs"]:  # (the body labels its tuple elements with the names it was built with)
                    vals[o] = f"{t}.{f.get('labels', {}).get(o, o)}"
            return vals[name]
        raise NotComputable(name)

    return get(output), vals, calls


def shared_defaults(desc: dict) -> dict:
    d: dict = {}
    prod = producers(desc)
    for f in desc["funcs"]:
        for p, v in f.get("defaults", {}).items():
            if p not in f.get("bound", {}) and p not in prod:
                d[p] = v
    return d


def conflicting_defaults(desc: dict) -> set:
    """Parameters with different signature defaults in different functions.  While an upstream function produces such
    a parameter the pipeline is well-formed; any pipeline in which it becomes a *root* argument (producer cut off,
    consumers nested together) is ill-formed by the library's own rule (inconsistent defaults, C12) and is refused."""
    seen: dict = {}
    out = set()
    for f in desc["funcs"]:
        for p, v in f.get("defaults", {}).items():
            if p in seen and seen[p] != v:
                out.add(p)
            seen.setdefault(p, v)
    return out


def needed_roots(desc: dict, output: str, supplied: set) -> set:
    """Root arguments that the evaluation of `output` consumes when `supplied` intermediates replace producers."""
    prod = producers(desc)
    need: set = set()
    seen: set = set()

    def visit(name):
        if name in seen:
            return
        seen.add(name)
        if name in supplied:
            need.add(name)
            return
        if name in prod:
            f = prod[name]
            for p in f["params"]:
                if p in f.get("bound", {}):
                    continue
                visit(p)
        else:
            need.add(name)
    visit(output)
    return need


def gen_dag(rng: random.Random, n_funcs: int = 3, allow_multi=True, allow_defaults=True, allow_bound=True,
            allow_renames=True, allow_nullary=True) -> dict:
    pool = list("abcdefghmnpq")
    rng.shuffle(pool)  # output names in no particular (e.g. topological) order
    names = iter(pool)
    avail: list[str] = []
    funcs = []
    defaults_seen: dict[str, str] = {}
    for q in range(n_funcs):
        pool = list(ROOTS) + avail
        if allow_nullary and rng.random() < 0.08:
            params: list[str] = []
        else:
            k = rng.randint(1, min(3, len(pool)))
            params = rng.sample(pool, k)
            # prefer consuming something produced earlier so that chains and diamonds arise
            if avail and not any(p in avail for p in params) and rng.random() < 0.7:
                params[0] = rng.choice(avail)
            params = list(dict.fromkeys(params))
        n_out = 2 if (allow_multi and rng.random() < 0.25) else 1
        outs = [next(names) for _ in range(n_out)]
        f: dict[str, Any] = {"name": f"f{q}", "params": params, "outputs": outs}
        for p in params:
            if p in ROOTS and allow_defaults and (p in defaults_seen or rng.random() < 0.2):
                defaults_seen.setdefault(p, f"D_{p}")
                f.setdefault("defaults", {})[p] = defaults_seen[p]
            elif allow_bound and rng.random() < 0.1:
                f.setdefault("bound", {})[p] = f"B_{p}_{q}"
            elif p not in ROOTS and allow_defaults and rng.random() < 0.12:
                # a signature default for an argument that an upstream function produces: never used (upstream wins),
                # and free to differ between consumers
                f.setdefault("defaults", {})[p] = f"D_{p}_{q}"
            if allow_renames and rng.random() < 0.15:
                f.setdefault("orig", {})[p] = f"{p}_in{q}"
        if n_out == 1 and rng.random() < 0.12:
            f["returns_none"] = True  # None is a value like any other
        funcs.append(f)
        avail += outs
    # a default must be consistent pipeline-wide: every function taking a defaulted root gets the same default
    for f in funcs:
        for p in f["params"]:
            if p in defaults_seen and p not in f.get("bound", {}):
                f.setdefault("defaults", {})[p] = defaults_seen[p]
    return {"funcs": funcs}


def all_outputs(desc: dict) -> list[str]:
    return [o for f in desc["funcs"] for o in f["outputs"]]


def describe(desc: dict) -> dict:
    return desc
