"""Environment models passed through the public `executor=` argument: executors whose tasks *complete* in a chosen
order (reverse / seeded random) relative to submission.  Used by C03 to sample completion orders deterministically."""
from __future__ import annotations

import random
import threading
import time
from concurrent.futures import Executor, Future


class ShuffleExecutor(Executor):
    """Collects the tasks submitted in a burst (a generation), then runs them in `order` on one worker thread."""

    def __init__(self, order: str = "reverse", seed: int = 0, quiet_s: float = 0.002):
        self.order, self.rng, self.quiet_s = order, random.Random(seed), quiet_s
        self._pending: list = []
        self._cv = threading.Condition()
        self._last_submit = 0.0
        self._stop = False
        self.completion_log: list = []
        self._t = threading.Thread(target=self._loop, daemon=True)
        self._t.start()

    def submit(self, fn, /, *args, **kwargs):
        fut: Future = Future()
        with self._cv:
            self._pending.append((fut, fn, args, kwargs, len(self.completion_log) + len(self._pending)))
            self._last_submit = time.monotonic()
            self._cv.notify()
        return fut

    def _loop(self):
        while True:
            with self._cv:
                while not self._pending and not self._stop:
                    self._cv.wait(0.05)
                if self._stop and not self._pending:
                    return
                if time.monotonic() - self._last_submit < self.quiet_s:
                    batch = None
                else:
                    batch, self._pending = self._pending, []
            if batch is None:
                time.sleep(self.quiet_s / 2)
                continue
            if self.order == "reverse":
                batch.reverse()
            elif self.order == "random":
                self.rng.shuffle(batch)
            for fut, fn, args, kwargs, n in batch:
                if not fut.set_running_or_notify_cancel():
                    continue
                try:
                    res = fn(*args, **kwargs)
                except BaseException as e:  # noqa: BLE001
                    self.completion_log.append(n)
                    fut.set_exception(e)
                else:
                    self.completion_log.append(n)
                    fut.set_result(res)

    def shutdown(self, wait=True, *, cancel_futures=False):
        with self._cv:
            self._stop = True
            self._cv.notify()
        if wait:
            self._t.join(timeout=5)
