"""Replacement-policy models written from the statement of C14 (import nothing from pipefunc)."""
from __future__ import annotations

from collections import OrderedDict
from fractions import Fraction


class LRUModel:
    def __init__(self, max_size: int):
        self.max_size = max_size
        self.d: OrderedDict = OrderedDict()

    def put(self, k, v):
        if k in self.d:
            self.d[k] = v
            self.d.move_to_end(k)
            return None
        evicted = None
        if len(self.d) >= self.max_size:
            evicted, _ = self.d.popitem(last=False)  # least recently used
        self.d[k] = v
        return evicted

    def get(self, k):
        if k in self.d:
            self.d.move_to_end(k)
            return self.d[k]
        return None

    def clear(self):
        self.d.clear()

    def keys(self):
        return set(self.d)

    def __len__(self):
        return len(self.d)


class SimpleModel(LRUModel):
    def __init__(self):
        super().__init__(10**9)


class HybridModel:
    """score(k) = w_a * count_k / sum(count) + w_d * dur_k / sum(dur); the lowest score is evicted when full."""

    def __init__(self, max_size: int, wa=0.5, wd=0.5):
        self.max_size, self.wa, self.wd = max_size, Fraction(wa), Fraction(wd)
        self.val: dict = {}
        self.cnt: dict = {}
        self.dur: dict = {}

    def scores(self):
        tc = sum(self.cnt.values())
        td = sum(Fraction(d) for d in self.dur.values())
        out = {}
        for k in self.val:
            s = self.wa * Fraction(self.cnt[k], tc)
            if td != 0:
                s += self.wd * Fraction(self.dur[k]) / td
            out[k] = s
        return out

    def victims(self) -> set:
        """Keys the policy allows to evict now (ties are all legal; tolerance for float rounding in the code)."""
        sc = self.scores()
        m = min(sc.values())
        return {k for k, s in sc.items() if s - m <= Fraction(1, 10**9)}

    def needs_eviction(self) -> bool:
        return len(self.val) >= self.max_size

    def evict(self, k):
        for d in (self.val, self.cnt, self.dur):
            del d[k]

    def store(self, k, v, dur):
        self.val[k] = v
        self.cnt[k] = 1
        self.dur[k] = dur

    def get(self, k):
        if k in self.val:
            self.cnt[k] += 1
            return self.val[k]
        return None

    def clear(self):
        self.val.clear()
        self.cnt.clear()
        self.dur.clear()

    def keys(self):
        return set(self.val)

    def __len__(self):
        return len(self.val)
