"""Reference reading of the Resources value domain, from the statement of C20 (imports nothing from pipefunc)."""
from __future__ import annotations

from fractions import Fraction

UNITS = {"B": Fraction(1, 10**9), "KB": Fraction(1, 10**6), "MB": Fraction(1, 10**3), "GB": Fraction(1), "TB": Fraction(10**3),
         "PB": Fraction(10**6)}


def valid_mem(s) -> bool:
    if not isinstance(s, str):
        return False
    u = s.upper()
    for unit in ("KB", "MB", "GB", "TB", "PB", "B"):
        if u.endswith(unit):
            num = u[: -len(unit)]
            break
    else:
        return False
    if not num or num != num.strip():
        return False
    parts = num.split(".")
    if len(parts) > 2 or not all(p.isascii() and p.isdigit() for p in parts):
        return False
    return True


def memsize(s) -> Fraction:
    u = s.upper()
    for unit in ("KB", "MB", "GB", "TB", "PB", "B"):
        if u.endswith(unit):
            return Fraction(u[: -len(unit)]) * UNITS[unit]
    raise ValueError(s)


def valid_time(s) -> bool:
    if not isinstance(s, str):
        return False
    parts = s.split(":")
    if not 2 <= len(parts) <= 4:
        return False
    if not all(p.isascii() and p.isdigit() and p for p in parts):
        return False
    # MM:SS, H+:MM:SS, D+:HH:MM:SS : all but the leading field have exactly two digits
    if len(parts) == 2:
        return all(len(p) == 2 for p in parts)
    return all(len(p) == 2 for p in parts[1:])


def duration(s) -> int:
    parts = [int(p) for p in s.split(":")]
    parts = [0] * (4 - len(parts)) + parts
    d, h, m, sec = parts
    return ((d * 24 + h) * 60 + m) * 60 + sec
