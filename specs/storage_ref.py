"""Reference for C07, written from the statement: a masked NumPy object array of the *full* shape (external and
internal axes interleaved by shape_mask).  An element is masked until it is written; a dump writes one value per
selected external index (all internal positions of that index at once).

Only `numpy.ma` indexing semantics are used: negative ints count from the end, out-of-range ints and wrong-rank keys
raise IndexError, slices select ranges and never raise.
"""
from __future__ import annotations

import itertools
from typing import Any

import numpy as np

MASKED = "<masked>"


def full_shape(shape, internal_shape, shape_mask):
    out, i, j = [], 0, 0
    for m in shape_mask:
        if m:
            out.append(shape[i])
            i += 1
        else:
            out.append(internal_shape[j])
            j += 1
    return tuple(out)


def _norm_key(key, sizes):
    """ints normalised, slices kept; IndexError like numpy for a wrong rank or an out-of-range int."""
    if not isinstance(key, tuple):
        key = (key,)
    if len(key) != len(sizes):
        raise IndexError("wrong rank")
    out = []
    for k, n in zip(key, sizes):
        if isinstance(k, slice):
            out.append(k)
        else:
            kk = k + n if k < 0 else k
            if not 0 <= kk < n:
                raise IndexError("out of range")
            out.append(kk)
    return tuple(out)


class RefArray:
    def __init__(self, shape, internal_shape, shape_mask):
        self.shape, self.internal_shape = tuple(shape), tuple(internal_shape or ())
        self.shape_mask = tuple(shape_mask) if shape_mask is not None else (True,) * len(self.shape)
        self.full_shape = full_shape(self.shape, self.internal_shape, self.shape_mask)
        self.data = np.empty(self.full_shape, dtype=object)
        self.missing = np.ones(self.full_shape, dtype=bool)
        self.whole: dict[tuple, Any] = {}  # external index -> the value as it was dumped (for get_from_index)

    # -- writes ------------------------------------------------------------------------------------------------------
    def dump(self, key, value):
        nk = _norm_key(key, self.shape)
        ranges = [range(*k.indices(n)) if isinstance(k, slice) else range(k, k + 1) for k, n in zip(nk, self.shape)]
        for ext in itertools.product(*ranges):
            self.whole[ext] = value
            if self.internal_shape:
                arr = np.asarray(value)
                for internal in itertools.product(*map(range, self.internal_shape)):
                    full = self._full(ext, internal)
                    self.data[full] = arr[internal]
                    self.missing[full] = False
            else:
                self.data[ext] = value
                self.missing[ext] = False

    def _full(self, ext, internal):
        out, i, j = [], 0, 0
        for m in self.shape_mask:
            if m:
                out.append(ext[i])
                i += 1
            else:
                out.append(internal[j])
                j += 1
        return tuple(out)

    # -- reads (all results already normalised to nested lists with MASKED) ------------------------------------------------
    def getitem(self, key):
        nk = _norm_key(key, self.full_shape)
        if not any(isinstance(k, slice) for k in nk):
            return MASKED if self.missing[nk] else norm(self.data[nk])
        ranges = [range(*k.indices(n)) if isinstance(k, slice) else [k] for k, n in zip(nk, self.full_shape)]
        sliced_axes = [i for i, k in enumerate(nk) if isinstance(k, slice)]

        def build(prefix, axis):
            if axis == len(nk):
                idx = tuple(prefix)
                return MASKED if self.missing[idx] else norm(self.data[idx])
            if axis in sliced_axes:
                return [build(prefix + [v], axis + 1) for v in ranges[axis]]
            return build(prefix + [ranges[axis][0]], axis + 1)
        return build([], 0)

    def to_array(self):
        return self._nested(self.full_shape, lambda idx: MASKED if self.missing[idx] else norm(self.data[idx]))

    def to_array_unsplatted(self):
        return self._nested(self.shape, lambda ext: norm(self.whole[ext]) if ext in self.whole else MASKED)

    def mask(self):
        return self._nested(self.shape, lambda ext: ext not in self.whole)

    def mask_linear(self):
        return [ext not in self.whole for ext in itertools.product(*map(range, self.shape))]

    def has_index(self, i):
        return not self.mask_linear()[i]

    def get_from_index(self, i):
        ext = tuple(int(x) for x in np.unravel_index(i, self.shape)) if self.shape else ()
        return norm(self.whole[ext])

    @staticmethod
    def _nested(shape, f):
        def build(prefix, axis):
            if axis == len(shape):
                return f(tuple(prefix))
            return [build(prefix + [v], axis + 1) for v in range(shape[axis])]
        return build([], 0)


def norm(x):
    """Nested-list view of a value / array / masked array, MASKED for masked entries."""
    if x is np.ma.masked:
        return MASKED
    if isinstance(x, np.ndarray):  # incl. MaskedArray
        mask = np.ma.getmaskarray(x) if isinstance(x, np.ma.MaskedArray) else np.zeros(x.shape, dtype=bool)
        data = x.data if isinstance(x, np.ma.MaskedArray) else x
        if x.ndim == 0:
            return MASKED if bool(mask[()]) else norm(data[()])

        def build(prefix, axis):
            if axis == x.ndim:
                idx = tuple(prefix)
                return MASKED if bool(mask[idx]) else norm(data[idx])
            return [build(prefix + [v], axis + 1) for v in range(x.shape[axis])]
        return build([], 0)
    if isinstance(x, np.generic):
        return x.item()
    if isinstance(x, (list, tuple)):
        return [norm(v) for v in x]
    return x
