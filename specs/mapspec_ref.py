"""Reference semantics of the MapSpec index DSL, written from the statement of C08/C01 only (imports nothing from
pipefunc).  A spec is plain data: {"inputs": [(name, axes)], "outputs": [(name, axes)]} with axes a tuple of index
names or None for ':'."""
from __future__ import annotations

import itertools
import random

NAMES_IN = ("a", "b1", "s.c")
NAMES_OUT = ("y", "z.w")
IDX = ("i", "j", "k", "l")


def spec_str(spec, ws=lambda: "") -> str:
    """Whitespace variants: around '->', around commas, inside the brackets around index names, leading/trailing.
    (No whitespace between an array name and its '[': the notation does not evidently allow it and the statement of
    C08 does not demand it.)"""
    def arr(name, axes):
        return f"{name}[{ws()}" + f"{ws()},{ws()}".join(":" if x is None else x for x in axes) + f"{ws()}]"
    ins = f"{ws()},{ws()}".join(arr(n, ax) for n, ax in spec["inputs"]) if spec["inputs"] else "..."
    outs = f"{ws()},{ws()}".join(arr(n, ax) for n, ax in spec["outputs"])
    return f"{ws()}{ins}{ws()}->{ws()}{outs}{ws()}"


def canonical_str(spec) -> str:
    def arr(name, axes):
        return f"{name}[" + ", ".join(":" if x is None else x for x in axes) + "]"
    ins = ", ".join(arr(n, ax) for n, ax in spec["inputs"]) if spec["inputs"] else "..."
    return f"{ins} -> " + ", ".join(arr(n, ax) for n, ax in spec["outputs"])


def is_identifier_name(name: str) -> bool:
    parts = name.split(".", 1)
    return all(p.isidentifier() for p in parts)


def malformed_reason(spec) -> str | None:
    """The four classes of the statement (+ non-identifier index names)."""
    outs = spec["outputs"]
    if any(ax is None for ax in outs[0][1]):
        return "colon-in-output"
    oi = tuple(x for x in outs[0][1] if x is not None)
    for _, axes in outs[1:]:
        if tuple(x for x in axes if x is not None) != oi:
            return "outputs-differ"
    in_idx = {x for _, axes in spec["inputs"] for x in axes if x is not None}
    if in_idx - set(oi):
        return "input-index-absent-from-output"
    for n, axes in spec["inputs"] + spec["outputs"]:
        if not is_identifier_name(n):
            return "non-identifier-name"
        if any(x is not None and not x.isidentifier() for x in axes):
            return "non-identifier-index"
    return None


def well_formed_strict(spec) -> bool:
    """Well-formed + the stated preconditions of the index-map contracts (DESIGN C08): index names within one array
    spec pairwise distinct, array names pairwise distinct, every output fully indexed."""
    if malformed_reason(spec) is not None:
        return False
    names = [n for n, _ in spec["inputs"]] + [n for n, _ in spec["outputs"]]
    if len(set(names)) != len(names):
        return False
    for _, axes in spec["inputs"] + spec["outputs"]:
        named = [x for x in axes if x is not None]
        if len(set(named)) != len(named):
            return False
    for _, axes in spec["outputs"][1:]:
        if any(x is None for x in axes):
            return False
    return True


def output_indices(spec):
    return tuple(spec["outputs"][0][1])


def external_indices(spec):
    in_idx = {x for _, axes in spec["inputs"] for x in axes if x is not None}
    return tuple(x for x in output_indices(spec) if x in in_idx)


def unravel(shape, l):
    key = []
    for i in range(len(shape)):
        stride = 1
        for d in shape[i + 1:]:
            stride *= d
        key.append((l // stride) % shape[i])
    return tuple(key)


def input_keys(spec, ext_shape, l):
    pos = unravel(ext_shape, l)
    where = dict(zip(external_indices(spec), pos))
    return {n: tuple(slice(None) if x is None else where[x] for x in axes) for n, axes in spec["inputs"]}


def shape(spec, input_shapes: dict, internal_shapes: dict | None):
    """-> ("ok", shape, mask) | ("raise", reason)"""
    internal_shapes = internal_shapes or {}
    in_names = [n for n, _ in spec["inputs"]]
    if set(input_shapes) != set(in_names):
        return ("raise", "names")
    for n, axes in spec["inputs"]:
        if len(input_shapes[n]) != len(axes):
            return ("raise", "rank")
    out_names = [n for n, _ in spec["outputs"]]
    if any(n not in out_names for n in internal_shapes):
        return ("raise", "internal-name")
    shp, mask = [], []
    used = 0
    oname = spec["outputs"][0][0]
    for idx in output_indices(spec):
        dims = [input_shapes[n][axes.index(idx)] for n, axes in spec["inputs"] if idx in axes]
        if dims:
            if any(d != dims[0] for d in dims):
                return ("raise", "zip-mismatch")
            shp.append(dims[0])
            mask.append(True)
        else:
            if oname not in internal_shapes or used >= len(internal_shapes[oname]):
                return ("raise", "internal-missing")
            shp.append(internal_shapes[oname][used])
            mask.append(False)
            used += 1
    return ("ok", tuple(shp), tuple(mask))


# ---- generators -----------------------------------------------------------------------------------------
def gen_specs(rng: random.Random, n: int, max_inputs=3, max_outputs=2, max_rank=3, allow_internal=True):
    """Random well-formed (strict) specs."""
    out = []
    tries = 0
    while len(out) < n and tries < n * 50:
        tries += 1
        n_in = rng.randint(0, max_inputs)
        n_out = rng.randint(1, max_outputs)
        orank = rng.randint(1, max_rank)
        oidx = tuple(rng.sample(IDX, orank))
        inputs = []
        names = rng.sample(NAMES_IN, n_in)
        for nm in names:
            r = rng.randint(1, max_rank)
            pool = list(oidx)
            rng.shuffle(pool)
            axes = []
            for _ in range(r):
                if pool and rng.random() < 0.75:
                    axes.append(pool.pop())
                else:
                    axes.append(None)
            inputs.append((nm, tuple(axes)))
        outputs = [(nm, oidx) for nm in rng.sample(NAMES_OUT, n_out)]
        spec = {"inputs": inputs, "outputs": outputs}
        if not allow_internal and n_in and external_indices(spec) != oidx:
            continue
        if well_formed_strict(spec):
            out.append(spec)
    return out


def all_small_specs(max_inputs=2, max_rank=2):
    """Exhaustive enumeration of strict well-formed specs over a tiny vocabulary (1 output, indices {i,j})."""
    idx = ("i", "j")
    res = []
    for orank in range(1, max_rank + 1):
        for oidx in itertools.permutations(idx, orank):
            axes_choices = []
            for r in range(1, max_rank + 1):
                for axes in itertools.product(oidx + (None,), repeat=r):
                    named = [x for x in axes if x is not None]
                    if len(set(named)) == len(named):
                        axes_choices.append(axes)
            for n_in in range(0, max_inputs + 1):
                for combo in itertools.product(axes_choices, repeat=n_in):
                    spec = {"inputs": [(NAMES_IN[q], ax) for q, ax in enumerate(combo)], "outputs": [("y", oidx)]}
                    res.append(spec)
    return res
