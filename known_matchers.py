"""Matchers for known_findings.jsonl: predicates over a vf.driver.Failure identifying the *specific* failing
input / call site / history of a recorded finding.  A failure that no matcher accepts is reported as a VIOLATION."""
from __future__ import annotations


def _case(f):
    c = f.case or {}
    return c.get("case", c)


def f10c_product_left_dims_none_right_zipped(f) -> bool:
    """Sweep.product: receiver has dims=None, another operand has a zipped group -> the zip is lost."""
    if f.check != "sweep-product-add":
        return False
    c = _case(f)
    if c.get("kind") != "product" or "product-differs" not in str(f.what):
        return False
    ops = c.get("ops") or []
    if not ops or ops[0].get("dims") is not None:
        return False
    return any(isinstance(g, (list, tuple)) and len(g) >= 2 for o in ops[1:] for g in (o.get("dims") or []))


def f5c_stale_cache_after_replace(f) -> bool:
    """Pipeline.replace/drop+add keeps result-cache entries computed by the replaced function: the cached value is
    exactly the uncached value with the replacement's tag (`f0v2(`) turned back into the original's (`f0(`)."""
    import re
    if f.check != "cached-twin-histories":
        return False
    c = _case(f)
    hist = c.get("history") or []
    replaced = {h["func"] for h in hist if h.get("op") == "replace"}
    if not replaced:
        return False
    ok = False
    for msg in (f.case or {}).get("violated", []):
        m = re.search(r"cached '([^']*)' != uncached '([^']*)'", msg) or re.search(r"differs: '([^']*)' != '([^']*)'", msg)
        pairs = [m.groups()] if m else re.findall(r"\('([^']*)', '([^']*)'\)", msg)
        if not pairs:
            return False
        for cached, uncached in pairs:
            # the two values differ only in *which version* of a replaced function computed them
            a, b = cached, uncached
            for fn in replaced:
                a = re.sub(rf"{fn}v\d+\(", f"{fn}(", a)
                b = re.sub(rf"{fn}v\d+\(", f"{fn}(", b)
            if a != b or cached == uncached:
                return False
            ok = True
    return ok


def f22_dataframe_index_not_in_key(f) -> bool:
    """to_hashable(DataFrame) ignores the index: DataFrames that differ only in their index get equal keys."""
    v = (f.case or {}).get("violated", [])
    return f.check == "key-iff-value" and bool(v) and all("{dataframes-differ-only-in-index}" in x for x in v)


def f23_series_duplicate_index(f) -> bool:
    """to_hashable(Series) goes through to_dict(): duplicate index labels collapse."""
    v = (f.case or {}).get("violated", [])
    return f.check == "key-iff-value" and bool(v) and all("{duplicate-index-series}" in x for x in v)


def f22_f23_memoize(f) -> bool:
    v = (f.case or {}).get("violated", [])
    return f.check == "key-iff-value" and bool(v) and all(
        x.startswith("memoize") and ("{duplicate-index-series}" in x or "{dataframes-differ-only-in-index}" in x) for x in v)


def f26_nest_after_scope(f) -> bool:
    """nest_funcs / NestedPipeFunc on a pipeline whose parameters carry a scope: inspect.Parameter rejects 'sc.x'."""
    if f.check != "rewrites-preserve-values":
        return False
    c = _case(f)
    rw = c.get("rewrites") or []
    v = (f.case or {}).get("violated", [])
    scoped = [i for i, r in enumerate(rw) if r in ("scope", "scope-partial")]  # (any rewrite that leaves scoped parameters)
    return bool(scoped) and any(r in ("nest", "nest-all", "simplify") for r in rw[scoped[0] + 1:]) and \
        bool(v) and all("is not a valid parameter name" in x and ("rewrite nest" in x or "rewrite simplify" in x)
                        for x in v)


def f30_simplify_overlapping_groups(f) -> bool:
    """simplified_pipeline puts a function into two combinable groups: the second NestedPipeFunc re-declares an output."""
    if f.check != "rewrites-preserve-values":
        return False
    c = _case(f)
    v = (f.case or {}).get("violated", [])
    return "simplify" in (c.get("rewrites") or []) and bool(v) and all(
        "rewrite simplify" in x and "already exists in the pipeline (`NestedPipeFunc_" in x for x in v)


def f47_lazy_disk_cache_without_front(f) -> bool:
    """A lazy pipeline whose disk cache has no in-memory front (with_lru_cache=False): every hit unpickles a fresh copy
    of the deferred node, so a node reached through two cache hits is evaluated once per copy."""
    if f.check != "lazy-equals-eager":
        return False
    c = _case(f)
    return c.get("sequential") and c.get("cache") == "disk-nofront" and \
        "disk cache without an in-memory front" in str(f.what) and "invoked more than once" in str(f.what)
