"""Matchers for known_findings.jsonl: predicates over a vf.driver.Failure identifying the *specific* failing
input / call site / history of a recorded finding.  A failure that no matcher accepts is reported as a VIOLATION."""
from __future__ import annotations


def _case(f):
    c = f.case or {}
    return c.get("case", c)


def f10c_product_left_dims_none_right_zipped(f) -> bool:
    """Sweep.product: receiver has dims=None, another operand has a zipped group -> the zip is lost."""
    if f.check != "sweep-product-add":
        return False
    c = _case(f)
    if c.get("kind") != "product" or "product-differs" not in str(f.what):
        return False
    ops = c.get("ops") or []
    if not ops or ops[0].get("dims") is not None:
        return False
    return any(isinstance(g, (list, tuple)) and len(g) >= 2 for o in ops[1:] for g in (o.get("dims") or []))
