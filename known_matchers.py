# matchers for known_findings.jsonl (predicates over a vf.driver.Failure)
