#!/usr/bin/env bash
# Offline setup: builds /verif/.venv (python 3.12, same interpreter as the repo's test venv) with
# z3-solver, cvc5, icontract, deal, crosshair-tool, hypothesis, jsonschema from the offline wheelhouse and a
# .pth line that exposes the repo's third-party dependencies installed in /venv.
set -euo pipefail
cd "$(dirname "$0")"
export PIP_NO_INDEX=1 PIP_DISABLE_PIP_VERSION_CHECK=1
if [ ! -x .venv/bin/python ] || ! .venv/bin/python -c "import z3, jsonschema, icontract" 2>/dev/null; then
  rm -rf .venv
  /venv/bin/python -m venv .venv
  .venv/bin/python -m pip install -q --no-index --find-links /opt/veriftools/wheels \
      z3-solver cvc5 icontract deal crosshair-tool hypothesis jsonschema
  SP=$(.venv/bin/python -c "import sysconfig; print(sysconfig.get_paths()['purelib'])")
  echo "import site; site.addsitedir('/venv/lib/python3.12/site-packages')" > "$SP/zz_repo_deps.pth"
fi
mkdir -p evidence replays
.venv/bin/python - <<'PY'
import sys
sys.modules['zarr'] = None
sys.path.insert(0, '/repo')
import z3, cvc5, icontract, jsonschema, numpy, networkx, cloudpickle
import pipefunc
print("setup ok: python", sys.version.split()[0], "z3", z3.get_version_string(), "pipefunc from", pipefunc.__file__)
PY
