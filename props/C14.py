"""C14 - Cache containers conform to their replacement-policy model."""
from __future__ import annotations

import itertools
import os
import shutil
import tempfile

from specs.cache_models import HybridModel, LRUModel, SimpleModel
from vf.bounded import Check
from vf.driver import ProofItem

ID = "C14"
LEVEL = "other"
LEVEL_TEXT = ("Deductive: LRUCache / SimpleCache / HybridCache methods (non-shared mode) against an abstract view with a "
              "representation invariant, VCs from the real method bodies. Bounded: every cache class (incl. DiskCache, "
              "shared mode, reopening) checked transition by transition against the policy models over all operation "
              "sequences up to a depth. The several-processes clause is reached through what can be stated on one "
              "object: the pickled copy of a shared cache (what a worker process receives) is driven alternately with "
              "the original against one model, it must hold the *same* lock (holding it through one handle excludes the "
              "other), and every modification of the state the handles share must happen while the lock is held "
              "(recording containers). 'other': part proved, part bounded; genuine multi-process interleavings are "
              "not explored.")
LEVEL_TEXT += (' Also proved: HybridCache.clear (no value, no access count and no computation duration remains - a later eviction scores only what is resident -, the cache stays well-formed, configuration unchanged).')
LEVEL_NOTE = ("Proof assumes sequential execution, `with lock` = no-op for nullcontext (non-shared), floats as reals for "
              "HybridCache scores. Bounded: 3-key alphabet, max_size 1..3, depth 5 (quick) / 6-7 (thorough) exhaustive + "
              "seeded random depth 30. Genuinely concurrent multi-process histories are N/A for this family.")
TECHNIQUE = "contract-based deductive verification (representation invariant + whole-view postconditions, VCs from the ast, z3/cvc5) + bounded model-based contract checking"
EXPLANATION = ("Every public operation of the cache classes is checked against the policy model of the statement; "
               "eviction victims with tied scores / equal file ctimes are all accepted. See functions_under_contract "
               "for the proved methods.")
RULE = ("all operation sequences over {put(k), get(k), clear} x keys {a,b,c}, with `in` for every key and len observed "
        "after every operation; put values are fresh per operation; distinct = distinct (class, config, sequence); "
        "non-trivial = sequence contains an eviction or a re-put of a resident key")
TRUSTED_BASE = ["policy models specs/cache_models.py (from the statement)", "pyvc encoding of Python semantics", "z3/cvc5"]
ASSUMPTIONS = ["single process / sequential for the proved part", "file ctime ties: any oldest file may be evicted",
               "HybridCache durations are injected through put(key, value, duration)"]

KEYS = ("a", "b", "c")
# observed keys; 1 and "1" are different keys with the same str(); -1 and -2 (and tuples of them) are different keys with
# the same hash() (used by the disk alphabet)
OBS = KEYS + (1, "1", -1, -2, (-1, "a"), (-2, "a"))


def registry():
    try:
        from contracts import cache as cc
        return {c.name: c for c in cc.ALL}
    except ImportError:
        return {}


def proof_items():
    try:
        from contracts import cache as cc
        return cc.proof_items()
    except ImportError:
        return []


# ---------------------------------------------------------------------------------------------------------
def _mk_cache(kind, cfg, tmp):
    from pipefunc.cache import DiskCache, HybridCache, LRUCache, SimpleCache
    if kind == "lru":
        return LRUCache(max_size=cfg["max_size"], shared=cfg.get("shared", False),
                        allow_cloudpickle=cfg.get("cloudpickle", True))
    if kind == "simple":
        return SimpleCache()
    if kind == "hybrid":
        return HybridCache(max_size=cfg["max_size"], shared=cfg.get("shared", False),
                           allow_cloudpickle=cfg.get("cloudpickle", True))
    if kind == "disk":
        return DiskCache(tmp, max_size=cfg["max_size"], with_lru_cache=cfg.get("with_lru", False),
                         lru_cache_size=cfg.get("lru_size", 2), lru_shared=False)
    raise ValueError(kind)


def _observe(cache):
    return {k: (k in cache) for k in OBS}, len(cache)


class _Unserialisable:
    def __reduce__(self):
        raise TypeError("cannot pickle this value")


def run_sequence(kind, cfg, ops):
    """Execute ops on the real cache and on the model; return list of violated clauses."""
    tmp = tempfile.mkdtemp(prefix="vf_c14_") if kind == "disk" else None
    try:
        return _run_sequence(kind, cfg, ops, tmp)
    finally:
        if tmp:
            shutil.rmtree(tmp, ignore_errors=True)


def _run_sequence(kind, cfg, ops, tmp):
    cache = _mk_cache(kind, cfg, tmp)
    ms = cfg.get("max_size")
    if kind == "lru":
        model = LRUModel(ms)
    elif kind == "simple":
        model = SimpleModel()
    elif kind == "hybrid":
        model = HybridModel(ms)
    else:
        model = None
        files: dict = {}  # key -> value   (disk layer)
        mem = LRUModel(cfg.get("lru_size", 2)) if cfg.get("with_lru") else None
    bad = []
    settled = True
    handles = [cache]
    if cfg.get("handles", 1) > 1:
        # what a worker process receives: the pickled cache.  It must be a handle on the same state under the same lock
        import pickle
        try:
            handles.append(pickle.loads(pickle.dumps(cache)))
        except Exception as e:  # noqa: BLE001
            return [f"a shared cache cannot be pickled: {type(e).__name__}: {str(e)[:80]}"]
        bad += _same_lock(handles[0], handles[1])
    if cfg.get("guard"):
        _guard(cache, bad)
    for n, op in enumerate(ops):
        name = op[0]
        if name == "put":
            settled = True
        cache = handles[n % len(handles)] if name != "reopen" else cache
        try:
            if name == "reopen":  # DiskCache only: a new object on the same directory
                cfg = {**cfg, "max_size": op[1]}
                ms = op[1]
                settled = False  # the constructor does not evict: len <= max_size is demanded again after the next put
                cache = _mk_cache(kind, cfg, tmp)
                handles = [cache]
                mem = LRUModel(cfg.get("lru_size", 2)) if cfg.get("with_lru") else None
                continue
            if name == "put-fail":
                # a put that fails while the value is serialised (shared caches pickle on put, the disk cache writes a
                # file) is not a put: the cache afterwards is the cache before, and no later operation raises
                serialises = kind == "disk" or (cfg.get("shared") and cfg.get("cloudpickle", True))
                if serialises:
                    try:
                        if kind == "hybrid":
                            cache.put(op[1], _Unserialisable(), 1.0)
                        else:
                            cache.put(op[1], _Unserialisable())
                        bad.append(f"op{n} put-fail({op[1]}): storing a value that cannot be serialised did not raise")
                        break
                    except Exception:  # noqa: BLE001
                        pass
            elif name == "put":
                k = op[1]
                v = f"v{n}"
                if kind == "hybrid":
                    dur = op[2]
                    victims = model.victims() if model.needs_eviction() else None
                    before = model.keys()
                    cache.put(k, v, dur)
                    present, _ = _observe(cache)
                    if victims is not None:
                        gone = {x for x in before if not present[x] and x != k}
                        # the victim may be k itself (then it is re-stored)
                        if len(gone) > 1:
                            bad.append(f"op{n} put({k}): evicted more than one entry {sorted(gone)}")
                        elif len(gone) == 1:
                            (g,) = gone
                            if g not in victims:
                                bad.append(f"op{n} put({k}): evicted {g}, policy designates {sorted(victims)}")
                            model.evict(g)
                        else:
                            if k in before and k in victims:
                                model.evict(k)
                            else:
                                bad.append(f"op{n} put({k}): cache full but nothing evicted (policy: {sorted(victims)})")
                    model.store(k, v, dur)
                elif kind == "disk":
                    ctimes = {kk: os.stat(cache._get_file_path(kk)).st_ctime_ns for kk in files}
                    if len(op) > 2 and op[2] == "none":
                        v = None
                    cache.put(k, v)
                    files[k] = v
                    if mem is not None:
                        mem.put(k, v)
                    if ms is not None and len(files) > ms:
                        excess = len(files) - ms
                        gone = {kk for kk in files if not cache._get_file_path(kk).exists()}
                        if len(gone) != excess:
                            bad.append(f"op{n} put({k}): {len(gone)} files evicted, expected {excess}")
                        # every evicted file must be at least as old as every surviving old file
                        surv = [ctimes[kk] for kk in files if kk not in gone and kk in ctimes and kk != k]  # k itself was just rewritten
                        for g in gone:
                            if g == k:
                                bad.append(f"op{n} put({k}): the file just written was evicted instead of an older one")
                            elif g not in ctimes:
                                bad.append(f"op{n} put({k}): the file just written was evicted instead of an older one")
                            elif surv and ctimes[g] > min(surv):
                                bad.append(f"op{n} put({k}): evicted file of {g} is not the oldest")
                        for g in gone:
                            del files[g]
                else:
                    if len(op) > 2 and op[2] == "none":
                        v = None
                    cache.put(k, v)
                    model.put(k, v)
            elif name == "get":
                k = op[1]
                got = cache.get(k)
                if kind == "disk":
                    if mem is not None and k in mem.d:
                        want = mem.get(k)
                    elif k in files:
                        want = files[k]
                        if mem is not None:
                            mem.put(k, want)
                    else:
                        want = None
                else:
                    want = model.get(k)
                if got != want:
                    bad.append(f"op{n} get({k}) returned {got!r}, most recent value is {want!r}")
            elif name == "clear":
                cache.clear()
                if kind == "disk":
                    files.clear()
                    if mem is not None:
                        mem.clear()
                else:
                    model.clear()
            present, ln = _observe(cache)
        except Exception as e:  # noqa: BLE001
            bad.append(f"op{n} {op} raised {type(e).__name__}: {str(e)[:80]}")
            break
        if kind == "disk":
            want_present = {kk: (kk in files) or (mem is not None and kk in mem.d) for kk in OBS}
            want_len = len(files)
        else:
            want_present = {kk: kk in model.keys() for kk in OBS}
            want_len = len(model)
        if present != want_present:
            bad.append(f"op{n} {op}: presence {present} but model {want_present}")
            break
        if ln != want_len:
            bad.append(f"op{n} {op}: len {ln} but model {want_len}")
            break
        if ms is not None and ln > ms and settled:
            bad.append(f"op{n} {op}: len {ln} exceeds max_size {ms}")
    return bad


def _locks_of(cache):
    return [cache._cache_lock] if hasattr(cache, "_cache_lock") else []


def _same_lock(c1, c2):
    """Representation invariant of a shared cache handle: it holds the manager lock of the cache it was pickled from
    (holding it through one handle excludes the other)."""
    bad = []
    for l1, l2 in zip(_locks_of(c1), _locks_of(c2)):
        if not hasattr(l2, "acquire"):
            bad.append(f"the unpickled handle of a shared cache has no lock ({type(l2).__name__})")
            continue
        l2.acquire()
        try:
            if l1.acquire(False):
                l1.release()
                bad.append("the lock of the unpickled handle does not exclude the original handle")
        finally:
            l2.release()
    return bad


class _HeldLock:
    def __init__(self):
        self.depth = 0

    def __enter__(self):
        self.depth += 1

    def __exit__(self, *a):
        self.depth -= 1


def _guard(cache, bad):
    """Frame condition of the shared mode: the state shared between processes is only modified while the cache lock is
    held.  The containers are replaced by recording ones and the lock by a counter (same code path as shared=True except
    that the containers are local)."""
    lock = _HeldLock()

    def note(what):
        if lock.depth == 0 and len(bad) < 4:
            bad.append(f"shared state modified outside the cache lock: {what}")

    class GDict(dict):
        def __setitem__(self, k, v):
            note("dict[k] = v")
            super().__setitem__(k, v)

        def __delitem__(self, k):
            note("del dict[k]")
            super().__delitem__(k)

        def pop(self, *a):
            note("dict.pop")
            return super().pop(*a)

        def setdefault(self, *a):
            note("dict.setdefault")
            return super().setdefault(*a)

        def update(self, *a, **k):
            note("dict.update")
            return super().update(*a, **k)

        def clear(self):
            note("dict.clear")
            return super().clear()

    class GList(list):
        def append(self, x):
            note("queue.append")
            super().append(x)

        def remove(self, x):
            note("queue.remove")
            super().remove(x)

        def pop(self, *a):
            note("queue.pop")
            return super().pop(*a)

        def __delitem__(self, i):
            note("del queue[...]")
            super().__delitem__(i)

        def insert(self, *a):
            note("queue.insert")
            super().insert(*a)

        def clear(self):
            note("queue.clear")
            super().clear()

    cache._cache_lock = lock
    for attr, val in list(vars(cache).items()):
        if attr == "_cache_lock":
            continue
        if type(val) is dict:
            setattr(cache, attr, GDict(val))
        elif type(val) is list:
            setattr(cache, attr, GList(val))


# ---------------------------------------------------------------------------------------------------------
def _alphabet(kind):
    ops = [("get", k) for k in KEYS] + [("clear",)]
    if kind == "hybrid":
        ops += [("put", k, d) for k in KEYS for d in (0.0, 1.0, 3.0)]
    else:
        ops += [("put", k) for k in KEYS]
        if kind == "lru":
            ops += [("put", k, "none") for k in KEYS]  # a cached None is a value like any other
    return ops


def _seqs(kind, depth):
    alpha = _alphabet(kind)
    for d in range(1, depth + 1):
        yield from itertools.product(alpha, repeat=d)


def _cases_mem(kind):
    def cases(tier, rng):
        depth = {"lru": 5, "simple": 4, "hybrid": 4}[kind] + (0 if tier == "quick" else 1)
        sizes = (1, 2, 3) if kind != "simple" else (None,)
        for ms in sizes:
            for seq in _seqs(kind, depth):
                if sum(1 for o in seq if o[0] == "put") == 0:
                    continue
                yield {"kind": kind, "cfg": {"max_size": ms, "shared": False}, "ops": list(seq)}
        # seeded random long sequences
        alpha = _alphabet(kind)
        for _ in range(300 if tier == "quick" else 5000):
            ms = rng.choice(sizes)
            yield {"kind": kind, "cfg": {"max_size": ms, "shared": False},
                   "ops": [rng.choice(alpha) for _ in range(rng.randint(6, 30))]}
    return cases


def _cases_shared(tier, rng):
    """shared=True, single process (proxy objects): a sample, Manager start-up dominates."""
    for kind in ("lru", "hybrid"):
        alpha = _alphabet(kind)
        for cp in (True, False):
            for ms in (1, 2, 3):
                for _ in range(2 if tier == "quick" else 25):
                    yield {"kind": kind, "cfg": {"max_size": ms, "shared": True, "cloudpickle": cp},
                           "ops": [rng.choice(alpha) for _ in range(rng.randint(5, 14))]}


def _cases_failed_put(tier, rng):
    """Histories with puts that fail while serialising, for the configurations that serialise on put."""
    for kind, cfg in (("lru", {"shared": True, "cloudpickle": True}), ("hybrid", {"shared": True, "cloudpickle": True}),
                      ("disk", {"with_lru": True}), ("disk", {"with_lru": False})):
        alpha = _alphabet(kind) + [("put-fail", k) for k in KEYS] * 2
        for ms in (1, 2, 3):
            for _ in range(2 if tier == "quick" else 20):
                ops = [rng.choice(alpha) for _ in range(rng.randint(5, 12))]
                # (directed: a failed put onto a resident key, then reads and further puts)
                ops = [_put(kind, "a"), ("put-fail", "a"), ("get", "a"), _put(kind, "b")] + ops
                yield {"kind": kind, "cfg": {"max_size": ms, **cfg}, "ops": ops}


def _cases_kinds(tier, rng):
    """Keys that compare equal but are of different kinds (1 / 1.0 / True), with look-ups of other keys in between."""
    pairs = [(("x", 1), ("x", 1.0)), (("x", 1), ("x", True)), (2, 2.0), (("y", 0.0), ("y", False)), ((1, 2), (1.0, 2.0))]
    for kind, cfg in (("simple", {}), ("lru", {}), ("hybrid", {}), ("disk", {"with_lru": False}), ("disk", {"with_lru": True})):
        for k1, k2 in pairs:
            for between in ((0, 1, 130, 300) if tier == "quick" else (0, 1, 2, 64, 127, 128, 129, 130, 200, 300, 600)):
                yield {"kind": kind, "cfg": {"max_size": None if kind == "disk" else 5000, **cfg}, "k1": k1, "k2": k2,
                       "between": between, "swap": rng.random() < 0.5}


def _check_kinds(case):
    kind, k1, k2 = case["kind"], case["k1"], case["k2"]
    k1, k2 = (tuple(k1) if isinstance(k1, list) else k1), (tuple(k2) if isinstance(k2, list) else k2)
    if case.get("swap"):
        k1, k2 = k2, k1
    tmp = tempfile.mkdtemp(prefix="vf_c14k_") if kind == "disk" else None
    bad = []
    try:
        cache = _mk_cache(kind, case["cfg"], tmp)
        put = (lambda k, v: cache.put(k, v, 1.0)) if kind == "hybrid" else cache.put
        put(k1, "v1")
        for i in range(case["between"]):  # look-ups of keys that were never put: nothing is stored, nothing evicted
            if ("other", i) in cache:
                bad.append(f"('other', {i}) reported present, it was never put")
        _ = k2 in cache
        cache.get(k2)
        what = f"put({k1!r}), {case['between']} look-ups of other keys, one look-up of {k2!r}"
        if k1 not in cache or cache.get(k1) != "v1":
            bad.append(f"{what}: {k1!r} in cache = {k1 in cache}, get = {cache.get(k1)!r}; 'v1' was put for it and nothing "
                       "was put, cleared or evicted since")
        if kind == "disk":
            again = _mk_cache(kind, case["cfg"], tmp)
            if k1 not in again or again.get(k1) != "v1":
                bad.append(f"{what}, directory reopened: {k1!r} in cache = {k1 in again}, get = {again.get(k1)!r}")
        put(k2, "v2")
        if k2 not in cache or cache.get(k2) != "v2":
            bad.append(f"{what}, put({k2!r}): get({k2!r}) = {cache.get(k2)!r}, 'v2' was put for it last")
        # (whether the container takes k1 and k2 for one key is its own matter: either value, but presence agrees with get)
        g1 = cache.get(k1)
        if g1 not in ("v1", "v2") or (k1 not in cache):
            bad.append(f"{what}, put({k2!r}): {k1!r} in cache = {k1 in cache}, get = {g1!r}")
        return bad
    finally:
        if tmp:
            shutil.rmtree(tmp, ignore_errors=True)


def _put(kind, k):
    return ("put", k, 1.0) if kind == "hybrid" else ("put", k)


def _cases_handles(tier, rng):
    """shared=True used through two handles (the original and its pickled copy, which is what a worker process gets);
    and the lock discipline on the state that the handles share."""
    for kind in ("lru", "hybrid"):
        alpha = _alphabet(kind)
        for ms in (1, 2, 3):
            for _ in range(2 if tier == "quick" else 20):
                yield {"kind": kind, "cfg": {"max_size": ms, "shared": True, "cloudpickle": rng.random() < 0.5, "handles": 2},
                       "ops": [rng.choice(alpha) for _ in range(rng.randint(5, 14))]}
            for _ in range(60 if tier == "quick" else 600):
                yield {"kind": kind, "cfg": {"max_size": ms, "shared": False, "guard": True},
                       "ops": [rng.choice(alpha) for _ in range(rng.randint(5, 20))]}


def _cases_disk(tier, rng):
    alpha = _alphabet("disk")
    depth = 3 if tier == "quick" else 4
    for with_lru in (False, True):
        for ms in (1, 2, 3, None):
            for seq in _seqs("disk", depth):
                if sum(1 for o in seq if o[0] == "put") < 2:
                    continue
                yield {"kind": "disk", "cfg": {"max_size": ms, "with_lru": with_lru}, "ops": list(seq)}
    # keys of different types with the same str(): each is its own entry
    alpha2 = [(op, k) for op in ("put", "get") for k in (1, "1", "a")] + [("clear",)]
    for _ in range(60 if tier == "quick" else 600):
        yield {"kind": "disk", "cfg": {"max_size": rng.choice((None, 3, 2)), "with_lru": rng.random() < 0.5},
               "ops": [rng.choice(alpha2) for _ in range(rng.randint(3, 9))]}
    # different keys with the same hash(): each is its own entry
    alpha3 = [(op, k) for op in ("put", "get") for k in (-1, -2, (-1, "a"), (-2, "a"))] + [("clear",)]
    for _ in range(60 if tier == "quick" else 600):
        yield {"kind": "disk", "cfg": {"max_size": rng.choice((None, 3, 2)), "with_lru": rng.random() < 0.5},
               "ops": [rng.choice(alpha3) for _ in range(rng.randint(3, 9))]}
    # reopening on the same directory, possibly with a smaller max_size
    for _ in range(150 if tier == "quick" else 2000):
        ms0 = rng.choice((None, 3, 2))
        ops = [rng.choice(alpha) for _ in range(rng.randint(3, 8))]
        ops.append(("reopen", rng.choice((1, 2, 3, None))))
        ops += [rng.choice(alpha) for _ in range(rng.randint(1, 6))]
        yield {"kind": "disk", "cfg": {"max_size": ms0, "with_lru": rng.random() < 0.5}, "ops": ops}


def _check(case):
    return run_sequence(case["kind"], case["cfg"], [tuple(o) for o in case["ops"]])


def _nontrivial(case):
    seen = set()
    for o in case["ops"]:
        if o[0] == "put":
            if o[1] in seen or len(seen) >= (case["cfg"].get("max_size") or 99):
                return True
            seen.add(o[1])
    return False


def bounded_checks():
    kw = dict(nontrivial=_nontrivial, key=repr)
    out = []
    for kind in ("lru", "simple", "hybrid"):
        out.append((f"{kind}-vs-model", Check(f"{kind}-vs-model", _cases_mem(kind), _check, RULE,
                                              shards=4 if kind != "simple" else 1, **kw)))
    out.append(("shared-single-process-vs-model", Check("shared-single-process-vs-model", _cases_shared, _check,
                                                        RULE + " (shared=True, one process)", shards=6, **kw)))
    out.append(("shared-handles-and-lock-discipline", Check("shared-handles-and-lock-discipline", _cases_handles, _check,
                                                            RULE + " (two handles on one shared cache; modifications "
                                                            "only under the lock)", shards=6, **kw)))
    out.append(("failed-puts-are-no-puts", Check("failed-puts-are-no-puts", _cases_failed_put, _check,
                                                 RULE + " + puts of a value that cannot be serialised", shards=2)))
    out.append(("equal-keys-of-different-kinds", Check("equal-keys-of-different-kinds", _cases_kinds, _check_kinds,
                                                       "cache type x pair of equal keys of different kinds x number of "
                                                       "look-ups of other keys in between (0..600)", shards=2, key=repr)))
    out.append(("disk-vs-model", Check("disk-vs-model", _cases_disk, _check, RULE + " + reopen(max_size)", shards=4,
                                       **kw)))
    return out
