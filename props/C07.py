"""C07 - Every storage backend behaves as a masked n-d object array."""
from __future__ import annotations

from contracts import slices, storage
from vf.driver import ProofItem

ID = "C07"
LEVEL = "other"
EXPLANATION = ("Key/geometry arithmetic of the storage layer (normalize_key, select_by_mask, shape helpers) is put "
               "under sidecar contracts; VCs are generated from the ast of the real functions in the working tree and "
               "discharged by z3/cvc5 for all inputs; the same contracts are evaluated on the real functions over a "
               "small scope (bounded). Class-level behaviour of the backends (file_array, dict, shared_memory_dict) "
               "is checked bounded against a reference masked numpy array (specs/storage_ref.py): every single dump "
               "key followed by every read key on tiny shapes, and random operation sequences over all "
               "external/internal interleavings.")
RULE = ("proof rung: one obligation per (path, contract clause); bounded rung: contract evaluated on the real function "
        "for all small inputs of the parameter sorts (distinct = distinct argument tuples for which `requires` holds)")
LEVEL_TEXT = ("Deductive: contracts on the real key/geometry functions of the storage layer, VCs from their ast, discharged "
              "for all inputs (z3/cvc5). Bounded: the same contracts and a reference masked-array model evaluated on "
              "the real backends over small shapes/keys/operation sequences. 'other' because the class-level clause "
              "is decided only within bounds.")
LEVEL_TEXT += (' Proved this way are also the slice expansions of both backends (DictArray._slice_indices, FileArray._slice_indices: one range per key position - an integer addresses itself, a slice what slice.indices gives for the size of the axis that the position indexes under the mask / in dump mode; slice.indices as three uninterpreted functions, ValueError for a zero step) and the delegation FileArray._normalize_key.')
LEVEL_NOTE = ("Trusted: pyvc's encoding of Python semantics (DESIGN 2.1.7), z3/cvc5, spec-function axioms; numpy indexing, "
              "cloudpickle and the file system are outside the proof (assumed); zarr backends cannot be imported here.")
TECHNIQUE = "contract-based deductive verification (self-generated VCs from the Python ast, z3/cvc5) + bounded contract checking"
TRUSTED_BASE = ["pyvc encoding of Python semantics (DESIGN 2.1.7)", "z3 5.1 / cvc5 1.0.3",
                "spec-function axioms (cnt, prod, dot)"]
ASSUMPTIONS = ["ints are mathematical (exact for Python)", "slices are opaque values passed through unchanged"]


def registry():
    return {c.short: c for c in storage.ALL}


def _nk_gen(rng, tier):
    import itertools
    sizes = (0, 1, 2, 3)
    keyvals = (-4, -3, -2, -1, 0, 1, 2, 3, slice(None), slice(0, 2))
    for rank in range(0, 4):
        for mask in itertools.product((False, True), repeat=rank):
            ne = sum(mask)
            for _ in range(6 if tier == "quick" else 40):
                shape = tuple(rng.choice(sizes[1:]) for _ in range(ne))
                internal = tuple(rng.choice(sizes[1:]) for _ in range(rank - ne))
                for for_dump in (False, True):
                    klen = rng.choice([ne if for_dump else rank] * 4 + [rank + 1, max(0, ne - 1)])
                    for _ in range(4):
                        key = tuple(rng.choice(keyvals) for _ in range(klen))
                        yield {"key": key, "shape": shape, "internal_shape": internal, "shape_mask": mask,
                               "for_dump": for_dump}


def _call_nk(fn, a):
    return fn(a["key"], a["shape"], a["internal_shape"], a["shape_mask"], for_dump=a["for_dump"])


def _sreg():
    return {**{c.short: c for c in slices.ALL}, **{c.name: c for c in slices.ALL}}


def proof_items():
    return [
        ProofItem(storage.select_by_mask, bounds={"ints": (0, 1, 2), "maxlen": 3}),
        ProofItem(storage.normalize_key, gen=_nk_gen, call=_call_nk),
        ProofItem(storage.external_shape_from_mask, bounds={"ints": (0, 1, 2), "maxlen": 3}),
        ProofItem(storage.internal_shape_from_mask, bounds={"ints": (0, 1, 2), "maxlen": 3}),
        # slice keys: one range per key position - an integer addresses itself, a slice what slice.indices gives for the
        # size of the axis the position indexes (dict backends: the full shape; file backend: by the mask / dump mode)
        ProofItem(slices.dict_slice_indices, gen=slices.dsi_gen, registry=_sreg),
        ProofItem(slices.file_slice_indices, gen=slices.fsi_gen, call=slices.fsi_call, registry=_sreg),
        ProofItem(slices.fa_normalize_key_real, gen=slices.fnk_gen, call=slices.fsi_call,
                  registry=lambda: {**{c.short: c for c in slices.NK_REAL}, **{c.name: c for c in slices.NK_REAL}}),
    ]


# ---- class level: every backend against the reference masked array (specs/storage_ref.py) ---------------------------
BACKENDS = ("file_array", "dict", "shared_memory_dict")
INT_KEYS = (-4, -3, -2, -1, 0, 1, 2, 3)
SLICES = (slice(None), slice(0, 2), slice(1, None), slice(None, None, -1), slice(0, 3, 2), slice(-1, None), slice(2, 1))


def _configs():
    """(shape, internal_shape, shape_mask) for every full rank <= 3 and every external/internal interleaving."""
    import itertools
    out = []
    for rank in range(1, 4):
        for mask in itertools.product((True, False), repeat=rank):
            if not any(mask):
                continue  # at least one external axis (an array without external axes has no elements to dump)
            out.append(mask)
    return out


def _value(n, internal_shape, as_list=False):
    import numpy as np
    if internal_shape:
        size = 1
        for d in internal_shape:
            size *= d
        arr = (np.arange(size) + 100 * n).reshape(internal_shape)
        return arr.tolist() if as_list else arr
    return [f"v{n}", n, ("t", n), None, {"k": n}][n % 5] if n % 7 else f"v{n}"


class _Unserialisable:
    def __reduce__(self):
        raise OSError(28, "No space left on device")


def _rand_key(rng, sizes, wrong_rank_p=0.08, slice_p=0.3):
    n = len(sizes)
    if rng.random() < wrong_rank_p:
        n = rng.choice([x for x in (n - 1, n + 1) if x >= 0])
        sizes = (list(sizes) + [2])[:n]
    key = []
    for sz in sizes:
        if rng.random() < slice_p:
            key.append(rng.choice(SLICES))
        else:
            # mostly in range (incl. negative), sometimes just outside
            key.append(rng.choice([k for k in INT_KEYS if -sz <= k < sz] * 4 + [sz, -sz - 1]))
    return tuple(key)


def _cases_class(tier, rng):
    import itertools
    from specs.storage_ref import full_shape
    # 1. tiny shapes, every single dump key (ints incl. out of range, slices, wrong rank) followed by every read key
    tiny = [((2,), (), (True,)), ((2, 2), (), (True, True)), ((2,), (2,), (True, False)), ((2,), (2,), (False, True))]
    dom = (-3, -2, -1, 0, 1, 2, slice(None), slice(0, 1), slice(None, None, -1))
    for shape, internal, mask in tiny:
        fs = full_shape(shape, internal, mask)
        dkeys = [k for r in (len(shape) - 1, len(shape), len(shape) + 1) if r >= 0
                 for k in itertools.product(dom, repeat=r)]
        gkeys = list(itertools.product(dom, repeat=len(fs)))
        if tier == "quick":
            dkeys = rng.sample(dkeys, min(len(dkeys), 30))
        for q, dk in enumerate(dkeys):
            gk = gkeys if len(gkeys) <= 81 else rng.sample(gkeys, 81)
            ops = [("dump", (0,) * len(shape), 1), ("dump", dk, 2)] + [("get", k) for k in gk]
            yield {"backend": BACKENDS[q % 2], "shape": shape, "internal": internal, "mask": mask, "ops": ops}
    # 2. random operation sequences over every interleaving
    n = 260 if tier == "quick" else 4000
    L = 8 if tier == "quick" else 14
    masks = _configs()
    for q in range(n):
        mask = masks[q % len(masks)]
        shape = tuple(rng.randint(1, 3) for m in mask if m)
        internal = tuple(rng.randint(1, 3) for m in mask if not m)
        fs = full_shape(shape, internal, mask)
        size = 1
        for d in shape:
            size *= d
        ops = []
        for j in range(rng.randint(2, L)):
            r = rng.random()
            if r < 0.4:
                ops.append(("dump", _rand_key(rng, shape, slice_p=0.2), 10 * q + j, rng.random() < 0.3))
            elif r < 0.65:
                ops.append(("get", _rand_key(rng, fs)))
            elif r < 0.72:
                ops.append(("reopen",))
            elif r < 0.80:
                ops.append(("has_index", rng.randrange(size)))
            elif r < 0.88:
                ops.append(("get_from_index", rng.randrange(size)))
            else:
                ops.append((rng.choice(("to_array", "mask", "mask_linear", "to_array_unsplat")),))
        backend = "shared_memory_dict" if q % 9 == 0 else BACKENDS[q % 2]
        yield {"backend": backend, "shape": shape, "internal": internal, "mask": mask, "ops": ops}
    # 3. overwrite histories: an element is written, the whole array is read, the element is overwritten by a value of
    #    the same serialised size, and everything is read again (every read must show the second value)
    for q, mask in enumerate(masks):
        shape = tuple(rng.randint(1, 2) for m in mask if m)
        internal = tuple(rng.randint(1, 2) for m in mask if not m)
        k = tuple(rng.randrange(d) for d in shape)
        fs = full_shape(shape, internal, mask)
        for n1, n2 in ((10, 15), (11, 16), (12, 17)):
            for read in ("to_array_unsplat", "to_array", "mask_linear"):
                ops = [("dump", k, n1), (read,), ("dump", k, n2), ("to_array_unsplat",), ("to_array",),
                       ("get", tuple(rng.randrange(d) for d in fs)), ("get_from_index", 0)]
                for backend in BACKENDS:
                    yield {"backend": backend, "shape": shape, "internal": internal, "mask": mask, "ops": ops}
        # ... and twice in a row (the file system may hand the first file's identity to the third): the last value counts
        for n1, n2, n3 in ((10, 15, 20), (11, 16, 26), (12, 17, 22)):
            for read in ("to_array", "get_from_index"):
                r1 = (read,) if read == "to_array" else ("get_from_index", 0)
                ops = [("dump", k, n1), r1, ("dump", k, n2), ("dump", k, n3), r1, ("to_array_unsplat",),
                       ("get", tuple(rng.randrange(d) for d in fs))]
                for backend in BACKENDS:
                    yield {"backend": backend, "shape": shape, "internal": internal, "mask": mask, "ops": ops}
        # ... and a failed dump onto a written element (int key, and a slice key covering it) leaves it as it was
        for fk in (k, tuple(slice(None) for _ in shape)):
            yield {"backend": "file_array", "shape": shape, "internal": internal, "mask": mask,
                   "ops": [("dump", k, 13), ("dump-fail", fk), ("get", tuple(rng.randrange(d) for d in fs)), ("to_array",)]}


def _check_class(case):
    import shutil
    import tempfile
    from pipefunc.map._storage_array._base import storage_registry
    from specs.storage_ref import MASKED, RefArray, norm
    cls = storage_registry[case["backend"]]
    shape, internal, mask = case["shape"], case["internal"], case["mask"]
    top = tempfile.mkdtemp(prefix="vf_c07_")
    folder = top + "/arr"  # created by the backend itself
    bad = []

    def make():
        return cls(folder, shape, internal or None, mask if internal else None)
    try:
        arr = make()
        ref = RefArray(shape, internal, mask)
        for step, op in enumerate(case["ops"]):
            kind = op[0]
            if kind == "reopen":
                arr.persist()
                arr = make()
                continue
            if kind == "dump-fail":
                # a dump that fails while the value is serialised (no space left, an unpicklable value) is not a write:
                # what was stored before is still there (file backend; the dict backends do not serialise on dump)
                if case["backend"] == "file_array":
                    try:
                        arr.dump(op[1], _Unserialisable())
                        bad.append(f"dump-fail: step {step}: the dump of a value that cannot be serialised did not raise")
                        break
                    except Exception:  # noqa: BLE001
                        pass
                continue

            def run(target, is_ref):
                if kind == "dump":
                    v = _value(op[2], internal, as_list=len(op) > 3 and op[3])
                    return target.dump(op[1], v)
                if kind == "get":
                    return target.getitem(op[1]) if is_ref else norm(target[op[1]])
                if kind == "to_array":
                    return target.to_array() if is_ref else norm(target.to_array())
                if kind == "to_array_unsplat":
                    return target.to_array_unsplatted() if is_ref else norm(target.to_array(splat_internal=False))
                if kind == "mask":
                    return target.mask() if is_ref else norm(target.mask.data)
                if kind == "mask_linear":
                    return target.mask_linear() if is_ref else [bool(x) for x in target.mask_linear()]
                if kind == "has_index":
                    return bool(target.has_index(op[1]))
                if kind == "get_from_index":
                    if is_ref and not target.has_index(op[1]):
                        return "<unspecified>"
                    return target.get_from_index(op[1]) if is_ref else norm(target.get_from_index(op[1]))
                raise AssertionError(kind)
            try:
                want = ("ok", run(ref, True))
            except IndexError:
                want = ("IndexError", None)
            if want == ("ok", "<unspecified>"):
                continue  # reading an element that was never written through its linear index: not specified
            try:
                got = ("ok", run(arr, False))
            except Exception as e:  # noqa: BLE001
                got = (type(e).__name__, str(e)[:80])
            if want[0] != got[0]:
                bad.append(f"{kind}: step {step} {op[1:2]}: backend -> {got[0]} {str(got[1])[:60]}, masked array -> {want[0]}")
                break
            if want[0] == "ok" and kind != "dump" and want[1] != got[1]:
                bad.append(f"{kind}: step {step} {op[1:2]}: backend gives {str(got[1])[:120]}, masked array gives {str(want[1])[:120]}")
                break
        if not bad:
            # final observation of the whole state through every read operation
            present = [i for i, m in enumerate(ref.mask_linear()) if not m]
            obs = [("to_array", lambda: norm(arr.to_array()), ref.to_array()),
                   ("mask", lambda: norm(arr.mask.data), ref.mask()),
                   ("mask_linear", lambda: [bool(x) for x in arr.mask_linear()], ref.mask_linear()),
                   ("has_index", lambda: [bool(arr.has_index(i)) for i in range(len(ref.mask_linear()))],
                    [not m for m in ref.mask_linear()]),
                   ("get_from_index", lambda: [norm(arr.get_from_index(i)) for i in present],
                    [ref.get_from_index(i) for i in present])]
            for name, get, want in obs:
                try:
                    got = get()
                except Exception as e:  # noqa: BLE001  (the masked array answers all of these without an error)
                    bad.append(f"final-{name}: backend raised {type(e).__name__}: {str(e)[:80]}")
                    continue
                if got != want:
                    bad.append(f"final-{name}: backend gives {str(got)[:120]}, masked array gives {str(want)[:120]}")
        return bad
    finally:
        shutil.rmtree(top, ignore_errors=True)


def _describe_class(case):
    return {**{k: case[k] for k in ("backend", "shape", "internal", "mask")},
            "ops": [[repr(x) for x in op] for op in case["ops"]]}


def bounded_checks():
    from vf.bounded import Check
    return [("backend-vs-masked-array", Check(
        "backend-vs-masked-array", _cases_class, _check_class,
        "every backend x (every single dump key then every read key on tiny shapes; random operation sequences of dump/"
        "getitem (int, negative, slice, out-of-range, wrong-rank keys)/to_array/mask/mask_linear/has_index/"
        "get_from_index/persist-and-reopen over all external/internal interleavings of rank<=3, sizes 1..3); distinct = "
        "distinct (backend, configuration, sequence); non-trivial = at least one dump precedes a read",
        describe=_describe_class, key=lambda c: repr(_describe_class(c)), shards=8,
        nontrivial=lambda c: any(o[0] == "dump" for o in c["ops"])))]
