"""C07 - Every storage backend behaves as a masked n-d object array."""
from __future__ import annotations

from contracts import storage
from vf.driver import ProofItem

ID = "C07"
LEVEL = "other"
EXPLANATION = ("Key/geometry arithmetic of the storage layer (normalize_key, select_by_mask, shape helpers) is put "
               "under sidecar contracts; VCs are generated from the ast of the real functions in the working tree and "
               "discharged by z3/cvc5 for all inputs; the same contracts are evaluated on the real functions over a "
               "small scope (bounded). Class-level behaviour of the backends is checked bounded against a reference "
               "masked numpy array.")
RULE = ("proof rung: one obligation per (path, contract clause); bounded rung: contract evaluated on the real function "
        "for all small inputs of the parameter sorts (distinct = distinct argument tuples for which `requires` holds)")
LEVEL_TEXT = ("Deductive: contracts on the real key/geometry functions of the storage layer, VCs from their ast, discharged "
              "for all inputs (z3/cvc5). Bounded: the same contracts and a reference masked-array model evaluated on "
              "the real backends over small shapes/keys/operation sequences. 'other' because the class-level clause "
              "is decided only within bounds.")
LEVEL_NOTE = ("Trusted: pyvc's encoding of Python semantics (DESIGN 2.1.7), z3/cvc5, spec-function axioms; numpy indexing, "
              "cloudpickle and the file system are outside the proof (assumed); zarr backends cannot be imported here.")
TECHNIQUE = "contract-based deductive verification (self-generated VCs from the Python ast, z3/cvc5) + bounded contract checking"
TRUSTED_BASE = ["pyvc encoding of Python semantics (DESIGN 2.1.7)", "z3 5.1 / cvc5 1.0.3",
                "spec-function axioms (cnt, prod, dot)"]
ASSUMPTIONS = ["ints are mathematical (exact for Python)", "slices are opaque values passed through unchanged"]


def registry():
    return {c.short: c for c in storage.ALL}


def _nk_gen(rng, tier):
    import itertools
    sizes = (0, 1, 2, 3)
    keyvals = (-4, -3, -2, -1, 0, 1, 2, 3, slice(None), slice(0, 2))
    for rank in range(0, 4):
        for mask in itertools.product((False, True), repeat=rank):
            ne = sum(mask)
            for _ in range(6 if tier == "quick" else 40):
                shape = tuple(rng.choice(sizes[1:]) for _ in range(ne))
                internal = tuple(rng.choice(sizes[1:]) for _ in range(rank - ne))
                for for_dump in (False, True):
                    klen = rng.choice([ne if for_dump else rank] * 4 + [rank + 1, max(0, ne - 1)])
                    for _ in range(4):
                        key = tuple(rng.choice(keyvals) for _ in range(klen))
                        yield {"key": key, "shape": shape, "internal_shape": internal, "shape_mask": mask,
                               "for_dump": for_dump}


def _call_nk(fn, a):
    return fn(a["key"], a["shape"], a["internal_shape"], a["shape_mask"], for_dump=a["for_dump"])


def proof_items():
    return [
        ProofItem(storage.select_by_mask, bounds={"ints": (0, 1, 2), "maxlen": 3}),
        ProofItem(storage.normalize_key, gen=_nk_gen, call=_call_nk),
        ProofItem(storage.external_shape_from_mask, bounds={"ints": (0, 1, 2), "maxlen": 3}),
        ProofItem(storage.internal_shape_from_mask, bounds={"ints": (0, 1, 2), "maxlen": 3}),
    ]


def bounded_checks():
    return []
