"""C17 - Sweeps enumerate exactly the documented combinations."""
from __future__ import annotations

import itertools

from pyvc.engine import Contract, LoopSpec
from pyvc.types import TInt, TNone, TObj, TSeq, TStr
from vf.bounded import Check
from vf.driver import ProofItem

ID = "C17"
LEVEL = "exploration"
LEVEL_TEXT = ("Bounded contract checking: every clause of the statement (enumeration, order, len, product, +, "
              "filtered_sweep, count_sweep) is evaluated on the real classes against a reference written from the "
              "statement, over all small sweeps of the quantifier. Only the helper _check_dim_lengths is discharged "
              "deductively; Sweep.generate is a generator over itertools.product of a variable number of sequences and "
              "closures (exclude/derivers), which is outside the proof rung - hence 'exploration'.")
LEVEL_TEXT += (" Also proved: MultiSweep.combine (the receiver's list of sweeps is extended by the operand - a MultiSweep contributes its sweeps, in order, anything else itself - and the receiver is returned), Sweep.__add__ (a + b is the MultiSweep of exactly (a, b), in this order; TypeError exactly for a non-Sweep operand; the MultiSweep constructor is an assumed contract) and MultiSweep.__add__: the part of '+ / MultiSweep yields their concatenation' that is list manipulation.")
LEVEL_TEXT += (' And Sweep.__len__ (31 obligations): with an exclude function the number of combinations that list() yields (list is an assumed contract); without items 0; otherwise the product of the lengths of all items when dims is None or names exactly the keys (stated along the duplicate-free enumeration of the keys that the loop follows - a ghost witness), else the product of the sizes of the zipped groups, a group having the length of its first member; IndexError / KeyError exactly for an empty group / a group whose first member is not an item.')
LEVEL_NOTE = ("Bounds: <=4 keys (quick <=3), value lists of length 0..3 with pairwise distinct values, all partitions of "
              "the keys into dims groups and dims=None, optional constants/derivers/exclude that read only the "
              "operand's own keys, pairs and triples for product and +. Reference: reference semantics in this file.")
TECHNIQUE = "bounded contract checking against a reference from the statement (+ one deductively verified helper)"
TECHNIQUE += ('; MultiSweep.combine, Sweep.__add__ and MultiSweep.__add__ discharged by z3')
TECHNIQUE += ('; Sweep.__len__ as well')
EXPLANATION = "see level text; obligations/discharged count the VCs of _check_dim_lengths only"
RULE = ("all item dicts over keys a..d with value lists of length 0..3 (distinct values), all set partitions as dims and "
        "dims=None, with/without constants, derivers, exclude; distinct = distinct (items, dims, options); non-trivial "
        "= at least two keys or a zipped group")
TRUSTED_BASE = ["reference semantics in props/C17.py (from the statement)", "pyvc/z3 for _check_dim_lengths"]
ASSUMPTIONS = ["exclude/derivers are pure functions of their own operand's keys", "value lists contain distinct values"]

F = "pipefunc/sweep.py"
SSO = TSeq(TSeq(TObj))

check_dim_lengths = Contract(
    f"{F}::_check_dim_lengths", params={"seqs": SSO, "dims": TSeq(TStr)}, returns=TNone,
    requires=lambda S, a: {"same-number": S.len(a.seqs) == S.len(a.dims), "non-empty": S.len(a.seqs) >= 1},
    raises=[("ValueError", lambda S, a: S.exists(0, S.len(a.seqs),
                                                 lambda i: S.len(a.seqs[i]) != S.len(a.seqs[0])))],
    ensures=lambda S, a, r, post: {},
    loops={0: LoopSpec(lambda S, a, v, k: {
        "seq_len": v.seq_len == S.len(a.seqs[0]),
        "prefix-equal": S.forall(0, k, lambda i: S.len(a.seqs[i]) == S.len(a.seqs[0])),
    })},
)


def registry():
    return {"_check_dim_lengths": check_dim_lengths}


def proof_items():
    from contracts import sweep_c
    return [ProofItem(check_dim_lengths, bounds={"maxlen": 2, "objs": ("o",), "strs": ("a",), "per_len": 40}),
            # "+ / MultiSweep yields their concatenation": the list of sweeps behind a MultiSweep
            ProofItem(sweep_c.multisweep_combine, gen=sweep_c.combine_gen,
                      registry=lambda: {**{c.short: c for c in sweep_c.ALL}, **{c.name: c for c in sweep_c.ALL}}),
            ProofItem(sweep_c.sweep_add, gen=sweep_c.sweep_add_gen, registry=_add_reg),
            ProofItem(sweep_c.multisweep_add, gen=sweep_c.add_gen, registry=_add_reg),
            # len(sweep) without an exclude function: the product of the sizes of the zipped groups
            ProofItem(sweep_c.sweep_len, gen=sweep_c.len_gen,
                      registry=lambda: {**{c.short: c for c in sweep_c.LEN}, **{c.name: c for c in sweep_c.LEN}})]


def _add_reg():
    from contracts import sweep_c
    return {**{c.short: c for c in sweep_c.ADD}, **{c.name: c for c in sweep_c.ADD}}


# ---- reference semantics (from the statement) ---------------------------------------------------------------
def ref_list(sw: dict) -> list:
    items = sw["items"]
    if not items:
        return []
    dims = sw.get("dims")
    groups = [(k,) for k in items] if dims is None else [g if isinstance(g, tuple) else (g,) for g in dims]
    parts = []
    for g in groups:
        seqs = [items[k] for k in g]
        if len({len(s) for s in seqs}) > 1:
            raise ValueError("zip length mismatch")
        parts.append([dict(zip(g, vals)) for vals in zip(*seqs)])
    out = []
    for combo in itertools.product(*parts):
        d: dict = {}
        for part in combo:
            d.update(part)
        for k, v in (sw.get("constants") or {}).items():
            d.setdefault(k, v)
        for k, fn in (sw.get("derivers") or {}).items():
            d[k] = DERIVERS[fn](d)
        if sw.get("exclude") and EXCLUDES[sw["exclude"]](d):
            continue
        out.append(d)
    return out


def row_major(sw: dict) -> bool:
    dims = sw.get("dims")
    if dims is None:
        return True
    flat = [k for g in dims for k in (g if isinstance(g, tuple) else (g,))]
    return flat == list(sw["items"])


# named closures so that cases are plain data
DERIVERS = {
    "sum_ab": lambda d: f"S({d.get('a')},{d.get('b')})",
    "dbl_a": lambda d: f"D({d.get('a')})",
    "neg_c": lambda d: f"N({d.get('c')})",
}
EXCLUDES = {
    "a_is_first": lambda d: d.get("a") == "a0",
    "b_is_last": lambda d: d.get("b") == "b1",
    "c_first": lambda d: d.get("c") == "c0",
    "d_first": lambda d: d.get("d") == "d0",
    "f_last": lambda d: d.get("f") == "f1",
}
_OWN = {"sum_ab": {"a", "b"}, "dbl_a": {"a"}, "neg_c": {"c"}, "a_is_first": {"a"}, "b_is_last": {"b"}, "c_first": {"c"},
        "d_first": {"d"}, "f_last": {"f"}}


def mk(sw: dict):
    from pipefunc.sweep import Sweep
    return Sweep(dict(sw["items"]), dims=list(sw["dims"]) if sw.get("dims") is not None else None,
                 exclude=EXCLUDES[sw["exclude"]] if sw.get("exclude") else None,
                 constants=dict(sw["constants"]) if sw.get("constants") else None,
                 derivers={k: DERIVERS[v] for k, v in sw["derivers"].items()} if sw.get("derivers") else None)


def _partitions(keys):
    keys = list(keys)
    if not keys:
        yield []
        return
    first, rest = keys[0], keys[1:]
    for p in _partitions(rest):
        yield [(first,)] + p
        for i in range(len(p)):
            yield p[:i] + [(first,) + p[i]] + p[i + 1:]


def _sweeps(rng, keys, tier, n_random):
    """Random sweep descriptions over the given keys."""
    for _ in range(n_random):
        ks = rng.sample(keys, rng.randint(0, len(keys)))
        ks.sort(key=lambda k: rng.random())
        items = {}
        base_len = rng.randint(0, 3)
        for k in ks:
            items[k] = [f"{k}{i}" for i in range(rng.choice((base_len, rng.randint(0, 3))))]
        sw = {"items": items}
        mode = rng.random()
        if mode < 0.35 or not ks:
            sw["dims"] = None
        else:
            parts = list(_partitions(ks))
            part = rng.choice(parts)
            if rng.random() < 0.5:
                rng.shuffle(part)
            sw["dims"] = [g if len(g) > 1 or rng.random() < 0.5 else g[0] for g in part]
        if rng.random() < 0.3:
            sw["constants"] = {"const": 7} if rng.random() < 0.7 or not ks else {ks[0]: "overridden?"}
        if rng.random() < 0.3:
            own = [d for d, need in _OWN.items() if d in DERIVERS and need <= set(ks)]
            if own:
                d = rng.choice(own)
                sw["derivers"] = {rng.choice(("derived", ks[0])): d}
        if rng.random() < 0.3:
            own = [e for e, need in _OWN.items() if e in EXCLUDES and need <= set(ks)]
            if own:
                sw["exclude"] = rng.choice(own)
        yield sw


def _canon(lst):
    return sorted(repr(sorted(d.items())) for d in lst)


# -- single sweeps ---------------------------------------------------------------------------------------------
def _single_cases(tier, rng):
    keys = ["a", "b", "c"] if tier == "quick" else ["a", "b", "c", "d"]
    # exhaustive: all partitions, lengths 0..2 per zipped group
    for n in range(0, len(keys) + 1):
        ks = keys[:n]
        for part in _partitions(ks):
            for lens in itertools.product((0, 1, 2, 3) if tier != "quick" else (0, 1, 2), repeat=len(part)):
                items = {}
                for g, ln in zip(part, lens):
                    for k in g:
                        items[k] = [f"{k}{i}" for i in range(ln)]
                items = {k: items[k] for k in ks}
                for dims in ([list(part), None] if part else [None]):
                    if dims is None and any(len(g) > 1 for g in part):
                        pass
                    yield {"items": items, "dims": dims}
    yield from _sweeps(rng, keys, tier, 1500 if tier == "quick" else 20000)


def _check_single(sw):
    bad = []
    try:
        want = ref_list(sw)
        want_exc = None
    except ValueError:
        want, want_exc = None, "ValueError"
    try:
        s = mk(sw)
        got = s.list()
    except ValueError:
        got = None
        if want_exc is None:
            return ["list-raised-ValueError-on-a-valid-sweep"]
        return []
    if want_exc is not None:
        # zipped lengths differ: the code may only notice when that group is reached
        return [] if got is None else ["zip-length-mismatch-not-rejected"]
    if _canon(got) != _canon(want):
        bad.append(f"combinations-differ: got {got} want {want}")
    elif row_major(sw) and got != want:
        bad.append(f"order-not-row-major: got {got} want {want}")
    it = list(iter(mk(sw)))
    if it != got:
        bad.append("iteration != list()")
    if len(mk(sw)) != len(got):
        bad.append(f"len {len(mk(sw))} != len(list()) {len(got)}")
    return bad


# -- product / + -------------------------------------------------------------------------------------------------
def _multi_cases(tier, rng):
    groups = (["a", "b"], ["c"], ["d", "e"])
    for _ in range(1200 if tier == "quick" else 12000):
        n = rng.choice((2, 2, 3))
        ops = []
        for g in rng.sample(groups, n):
            (sw,) = list(_sweeps(rng, g, tier, 1))
            if not sw["items"]:
                sw = {"items": {g[0]: [f"{g[0]}0", f"{g[0]}1"]}, "dims": None}
            # derivers must write keys that are unique per operand (disjoint keys)
            if sw.get("derivers"):
                sw["derivers"] = {f"derived_{g[0]}": v for v in sw["derivers"].values()}
            if sw.get("constants"):
                sw["constants"] = {f"const_{g[0]}": 1}
            ops.append(sw)
        yield {"ops": ops, "kind": rng.choice(("product", "add", "add-right", "add-nested"))}
    # products of 3 and 4 operands in which *every* operand excludes something of its own
    full = {"a": ["a0", "a1"], "b": ["b0", "b1"], "c": ["c0", "c1", "c2"], "d": ["d0", "d1"], "f": ["f0", "f1", "f2"]}
    pool = [("a", "a_is_first"), ("b", "b_is_last"), ("c", "c_first"), ("d", "d_first"), ("f", "f_last")]
    for _ in range(40 if tier == "quick" else 400):
        chosen = rng.sample(pool, rng.choice((3, 3, 4)))
        ops = [{"items": {k: list(full[k])}, "dims": None, "exclude": e} for k, e in chosen]
        yield {"ops": ops, "kind": "product"}


def _check_multi(case):
    ops = case["ops"]
    try:
        lists = [ref_list(sw) for sw in ops]
    except ValueError:
        return []
    real = [mk(sw) for sw in ops]
    bad = []
    if case["kind"] == "product":
        # disjointness of everything the operands write
        want = []
        for combo in itertools.product(*lists):
            d: dict = {}
            for part in combo:
                d.update(part)
            want.append(d)
        try:
            p = real[0].product(*real[1:])
            got = p.list()
        except Exception as e:  # noqa: BLE001
            return [f"product-raised-{type(e).__name__}: {str(e)[:80]}"]
        if _canon(got) != _canon(want):
            bad.append(f"product-differs: got {len(got)} combos {got[:3]} want {len(want)} {want[:3]}")
        if len(p) != len(got):
            bad.append(f"product-len {len(p)} != {len(got)}")
        for sw, r in zip(ops, real):
            if _canon(r.list()) != _canon(ref_list(sw)):
                bad.append("product-changed-an-operand")
    else:
        # concatenation of the operands' own combination lists (each operand's list is checked by sweep-enumeration)
        want = [d for r in real for d in r.list()]
        try:
            if case["kind"] == "add-right":  # s1 + (s2 + s3): a MultiSweep as an operand
                m = real[-1]
                for r in reversed(real[:-1]):
                    m = r + m
            elif case["kind"] == "add-nested":
                from pipefunc.sweep import MultiSweep
                m = MultiSweep(real[0], MultiSweep(*real[1:]))
            else:
                m = real[0]
                for r in real[1:]:
                    m = m + r
            got = m.list()
            if list(iter(m)) != got:
                bad.append("add: iteration != list()")
        except Exception as e:  # noqa: BLE001
            return [f"add-raised-{type(e).__name__}: {str(e)[:80]}"]
        if [sorted(d.items()) for d in got] != [sorted(d.items()) for d in want]:
            bad.append(f"add-not-concatenation: got {got[:4]} want {want[:4]}")
        if len(m) != len(got):
            bad.append(f"add-len {len(m)} != {len(got)}")
    return bad


# -- filtered_sweep ----------------------------------------------------------------------------------------------
def _filt_cases(tier, rng):
    keys = ["a", "b", "c"]
    for sw in _sweeps(rng, keys, tier, 1500 if tier == "quick" else 15000):
        sw.pop("constants", None)
        sw.pop("exclude", None)
        ks = list(sw["items"])
        if not ks:
            continue
        sel = rng.sample(ks, rng.randint(1, len(ks)))
        if sw.get("derivers") and rng.random() < 0.5:
            sel = sel + [k for k in sw["derivers"] if k not in sel]
        yield {"sweep": sw, "keys": sel}


def _check_filt(case):
    sw, keys = case["sweep"], case["keys"]
    try:
        full = ref_list(sw)
    except ValueError:
        return []
    want = {tuple((k, d[k]) for k in sorted(keys)) for d in full}
    try:
        got = mk(sw).filtered_sweep(list(keys)).list()
    except Exception as e:  # noqa: BLE001
        return [f"filtered_sweep-raised-{type(e).__name__}: {str(e)[:80]}"]
    gotc = [tuple((k, d[k]) for k in sorted(keys)) for d in got if set(d) >= set(keys)]
    bad = []
    if len(gotc) != len(got):
        bad.append("filtered_sweep-missing-keys")
    if set(gotc) != want:
        bad.append(f"filtered_sweep-projections-differ: got {sorted(set(gotc))[:4]} want {sorted(want)[:4]}")
    if len(set(gotc)) != len(gotc):
        bad.append("filtered_sweep-duplicates")
    return bad


# -- count_sweep ---------------------------------------------------------------------------------------------------
def _count_cases(tier, rng):
    for sw in _sweeps(rng, ["a", "b", "c"], tier, 200 if tier == "quick" else 2000):
        if set(sw["items"]) != {"a", "b", "c"} or sw.get("derivers") or sw.get("constants"):
            continue
        yield {"sweep": sw, "use_pandas": rng.random() < 0.3}
    # full products in every key order (the combinations sharing a root tuple are then not adjacent), no pandas
    for order in itertools.permutations(("a", "b", "c")):
        items = {k: [f"{k}0", f"{k}1"] for k in order}
        yield {"sweep": {"items": items, "dims": None}, "use_pandas": False}
        yield {"sweep": {"items": items, "dims": [(order[0], order[2]), order[1]]}, "use_pandas": False}
        # history: the pipeline was already asked (counted) once, then a root argument of one of its functions is bound:
        # that argument no longer distinguishes calls
        yield {"sweep": {"items": items, "dims": None}, "use_pandas": False, "bind_after_first_count": "b"}


def _check_count(case):
    from pipefunc import Pipeline, pipefunc
    from pipefunc.sweep import count_sweep

    @pipefunc(output_name="u")
    def fu(a, b):
        return (a, b)

    @pipefunc(output_name="w")
    def fw(u, c):
        return (u, c)

    @pipefunc(output_name="z")
    def fz(w, a):
        return (w, a)

    p = Pipeline([fu, fw, fz])
    sw = case["sweep"]
    try:
        combos = ref_list(sw)
    except ValueError:
        return []
    if not combos:
        return []
    got = count_sweep("z", mk(sw), p, use_pandas=case["use_pandas"])
    root = {"u": ("a", "b"), "w": ("a", "b", "c")}
    if case.get("bind_after_first_count"):
        bound = case["bind_after_first_count"]
        p["u"].update_bound({bound: "BOUND"})
        got = count_sweep("z", mk(sw), p, use_pandas=case["use_pandas"])
        root = {k: tuple(a for a in v if a != bound) for k, v in root.items()}
    bad = []
    for dep, args in root.items():
        want: dict = {}
        for d in combos:
            key = tuple(d[a] for a in args)
            want[key] = want.get(key, 0) + 1
        g = got.get(dep)
        if g is None:
            bad.append(f"count_sweep-missing-dependency-{dep}")
            continue
        # the order of the root-argument tuple is the pipeline's; compare as multisets of sorted tuples
        norm = lambda m: sorted((tuple(sorted(map(str, k if isinstance(k, tuple) else (k,)))), v) for k, v in m.items())  # noqa: E731
        if norm(g) != norm(want):
            bad.append(f"count_sweep-{dep}: got {g} want {want}")
    return bad


def _nt(case):
    sw = case if "items" in case else case.get("sweep") or case["ops"][0]
    return len(sw["items"]) >= 2 or any(isinstance(g, tuple) and len(g) > 1 for g in (sw.get("dims") or []))


def bounded_checks():
    return [
        ("sweep-enumeration", Check("sweep-enumeration", _single_cases, _check_single, RULE, nontrivial=_nt, shards=4)),
        ("sweep-product-add", Check("sweep-product-add", _multi_cases, _check_multi,
                                    "pairs/triples of sweeps with disjoint keys: product = Cartesian product of the "
                                    "combination lists, + = concatenation, operands unchanged", nontrivial=_nt, shards=3)),
        ("sweep-filtered", Check("sweep-filtered", _filt_cases, _check_filt,
                                 "filtered_sweep(keys) = distinct projections (sweeps without constants/exclude)",
                                 nontrivial=_nt, shards=2)),
        ("sweep-count", Check("sweep-count", _count_cases, _check_count,
                              "count_sweep counts per dependency the combinations sharing each root-argument tuple",
                              nontrivial=_nt)),
    ]
