"""C01 - Map results equal the MapSpec denotation for every pipeline and input."""
from __future__ import annotations

import shutil
import tempfile

from contracts import mapspec as cm
from contracts import storage as cs
from rtc import progs
from vf.bounded import Check
from vf.driver import ProofItem

ID = "C01"
LEVEL = "other"
LEVEL_TEXT = ("Leaf contracts of the map machinery (linear index -> output position, interleaving of external/internal "
              "axes, dump-key normalisation, which value each parameter of a function receives in a map - "
              "_func_kwargs: bound, else given input, else upstream output read from the store, else default -, how "
              "one result is split over the output names - _pick_output) are discharged deductively from the real "
              "source; the property itself - "
              "Pipeline.map == MapSpec denotation - is a statement-level contract evaluated on the real Pipeline.map "
              "over generated programs with tagging bodies (bounded). 'other': proved leaves + bounded top level.")
LEVEL_TEXT += (" Also proved: _construct_internal_shapes - the sizes of function-supplied axes that a run records are the caller's entries plus, for every function that declares an internal shape and whose output name the caller did not list, that shape under each of its output names (108 obligations; unique output names enter as a ghost producer-of-a-name witness).")
LEVEL_NOTE = ("Bounded: random valid programs of 1..3 (thorough 4) functions, rank<=2 (thorough 3), axis sizes 1..3 "
              "(distinct per index name where possible), storages dict/file_array/shared_memory_dict, sequential. "
              "Trusted: numpy indexing, cloudpickle, the reference denotation in rtc/progs.py (written from the "
              "statement); zarr backends cannot be imported here.")
TECHNIQUE = "contract-based deductive verification of leaf functions (VCs from the ast, z3/cvc5) + bounded statement-level contract checking"
EXPLANATION = ("proof rung: _shape_to_key, shape_to_strides, select_by_mask, external/internal_shape_from_mask, "
               "normalize_key under contract (VCs from the working tree). bounded rung: for each generated program the "
               "result of Pipeline.map (returned and stored) must equal the denotation computed by an independent "
               "reference interpreter; user functions are tagging bodies so that swapped, mis-sliced or permuted "
               "arguments change the value.")
RULE = ("programs from rtc.progs.gen_map_program (zip / outer product / ':' reduction / full reduction / internal axes at "
        "any position / generator functions / tuple outputs / list vs ndarray inputs); distinct = distinct program "
        "descriptions x storage; non-trivial = some function executes on >=2 elements or >=2 functions are chained")
TRUSTED_BASE = ["pyvc encoding of Python semantics", "z3/cvc5", "reference interpreter rtc/progs.py::denote",
                "numpy indexing/reshape", "cloudpickle"]
ASSUMPTIONS = ["user functions deterministic", "zarr storages out of scope (cannot be imported)",
               "sequential execution here; executors are C03"]


def registry():
    from contracts import map_run, run
    allc = cs.ALL + cm.ALL + run.ALL + map_run.ALL
    return {**{c.short: c for c in allc}, **{c.name: c for c in allc}}


def proof_items():
    from contracts import map_run, run, small
    from props.C07 import _call_nk, _nk_gen
    from props.C08 import _okey_gen
    return [
        ProofItem(cm.shape_to_strides, bounds={"ints": (0, 1, 2, 3), "maxlen": 3}),
        ProofItem(cm.shape_to_key, bounds={"ints": (0, 1, 2, 3, 5), "maxlen": 3, "per_len": 60}),
        ProofItem(cs.select_by_mask, bounds={"ints": (0, 1, 2), "maxlen": 3}),
        ProofItem(cs.external_shape_from_mask, bounds={"ints": (0, 1, 2), "maxlen": 3}),
        ProofItem(cs.internal_shape_from_mask, bounds={"ints": (0, 1, 2), "maxlen": 3}),
        ProofItem(cs.normalize_key, gen=_nk_gen, call=_call_nk),
        # the denotation's index maps: which input elements call l receives, and where its outputs are stored
        ProofItem(cm.mapspec_input_keys, gen=_okey_gen),
        ProofItem(cm.mapspec_output_key, gen=_okey_gen),
        ProofItem(run.update_array, gen=run.gen),
        # what each parameter of a function receives in a map: bound value, else given input, else upstream output read
        # from the store, else default; and how one result is split over the function's output names
        ProofItem(map_run.func_kwargs, gen=map_run.fk_gen),
        ProofItem(map_run.pick_output, gen=map_run.po_gen),
        # the sizes of function-supplied axes: the caller's entries plus the shapes declared on the functions
        ProofItem(small.construct_internal_shapes, gen=small.cis_gen,
                  registry=lambda: {**{c.short: c for c in small.INTERNAL_SHAPES}, **{c.name: c for c in small.INTERNAL_SHAPES}}),
    ]


# ---------------------------------------------------------------------------------------------------------
def run_map_case(prog, storage="dict", run_folder=None, **kw):
    """Run the real Pipeline.map on a program; returns (results dict name->nested, call log)."""
    p = progs.build_pipeline(prog)
    log: list = []
    progs.set_log(log)
    try:
        res = p.map(progs.real_inputs(prog), run_folder=run_folder, parallel=False, storage=storage, **progs.map_kwargs(prog), **kw)
    finally:
        progs.set_log(None)
    return p, res, log


def compare_with_oracle(prog, res, log, want, calls, load_from=None):
    bad = []
    for f in prog["funcs"]:
        for o in f["outputs"]:
            if o not in res:
                bad.append(f"missing-output:{o}")
                continue
            got = progs.to_nested(res[o].output)
            if got != want[o]:
                bad.append(f"result-differs:{o}: got {str(got)[:200]} want {str(want[o])[:200]}")
            if load_from is not None:
                from pipefunc.map import load_outputs
                st = progs.to_nested(load_outputs(o, run_folder=load_from))
                if st != want[o]:
                    bad.append(f"stored-differs:{o}: got {str(st)[:200]} want {str(want[o])[:200]}")
    if sorted(log) != sorted(calls):
        bad.append(f"calls-differ: {len(log)} real vs {len(calls)} expected")
    return bad


def _cases(tier, rng):
    n = 1200 if tier == "quick" else 12000
    for q in range(n):
        prog = progs.gen_map_program(rng, n_funcs=rng.randint(1, 3 if tier == "quick" else 4),
                                     max_rank=2 if tier == "quick" or q % 3 else 3)
        storage = ("dict", "file_array", "dict", "shared_memory_dict")[q % 4] if tier != "quick" or q % 8 else "shared_memory_dict"
        yield {"prog": prog, "storage": storage}
    for rep in range(1 if tier == "quick" else 5):  # block-reading consumers of outputs with interior internal axes
        for prog in progs.all_internal_consumer_programs(rng):
            for st_ in ("dict", "file_array"):
                yield {"prog": prog, "storage": st_}


def _check(case):
    prog, storage = case["prog"], case["storage"]
    want, calls = progs.denote(prog)
    folder = tempfile.mkdtemp(prefix="vf_c01_") if storage != "dict" else None
    try:
        try:
            p, res, log = run_map_case(prog, storage=storage, run_folder=folder)
        except Exception as e:  # noqa: BLE001
            return [f"valid-request-refused: {type(e).__name__}: {str(e)[:200]}"]
        return compare_with_oracle(prog, res, log, want, calls, load_from=folder)
    finally:
        if folder:
            shutil.rmtree(folder, ignore_errors=True)


def _nontrivial(case):
    prog = case["prog"]
    return len(prog["funcs"]) >= 2 or any(max(d.get("shape", (1,)), default=1) >= 2 for d in prog["inputs"].values())


def _describe(case):
    return {"program": progs.describe(case["prog"]), "storage": case["storage"]}


def bounded_checks():
    return [("map-equals-denotation", Check("map-equals-denotation", _cases, _check, RULE, nontrivial=_nontrivial,
                                            describe=_describe, key=lambda c: repr(_describe(c)), shards=12,
                                            time_budget_s=lambda tier: 90 if tier == "quick" else 900))]
