"""C04 - Results stored in a run folder reload exactly, from any process."""
from __future__ import annotations

import gc
import json
import os
import shutil
import subprocess
import sys
import tempfile

from rtc import progs
from vf.bounded import Check
from vf.common import REPO, VERIF

ID = "C04"
LEVEL = "exploration"
LEVEL_TEXT = ("Bounded contract on Pipeline.map(..., run_folder=F): for generated programs and every persisting storage "
              "(file_array, dict and shared_memory_dict with persist_memory=True, per-output mixes) the postcondition "
              "'load_outputs / RunInfo.load / load_xarray_dataset yield exactly what the run produced or was given' is "
              "evaluated (i) in process, (ii) in a fresh interpreter started after the parent dropped the results and "
              "its manager processes, (iii) twice. Proved part (pyvc): FileArray._key_to_file - an element dumped "
              "under the unravelled key of linear index l lands in the file of l (row-major; lemma L4 ravel o unravel "
              "= id, by induction), the file a later process looks at for element l. Serialisation (cloudpickle/json) "
              "and the file system are outside the proof rung, so the property is decided on the bounded rung: "
              "'exploration'.")
LEVEL_TEXT += (' Also proved: RunInfo.storage_class (the per-output storage choice) and _maybe_persist_memory (with persist_memory=True every storage array of the store is persisted exactly once before map returns, nothing otherwise, other entries untouched; StorageBase.persist is an assumed contract with a ghost counter).')
LEVEL_TEXT += (" Also proved: load_outputs (one entry per requested name, in the order asked, each what the recorded store holds for it after _maybe_load_array; a single name is handed out unwrapped) relative to assumed pure contracts for Path, RunInfo.load, RunInfo.init_store, _load_from_store and _maybe_load_array.")
LEVEL_NOTE = ("Bounds: programs of rtc.progs.gen_map_program (1..3 functions, rank<=2, sizes 1..3). Trusted: cloudpickle, "
              "json, the reference denotation. The fresh interpreter is /verif/.venv/bin/python with the same sys.path.")
TECHNIQUE = ("bounded contract checking incl. a fresh-interpreter postcondition; FileArray._key_to_file (element -> file) "
             "discharged by z3 with lemma L4")
TECHNIQUE += ('; RunInfo.storage_class and _maybe_persist_memory discharged by z3')
TECHNIQUE += ('; load_outputs discharged by z3')
EXPLANATION = LEVEL_TEXT
RULE = ("program x storage configuration; distinct = distinct (program, storage); non-trivial = some output array has "
        ">=2 elements")
TRUSTED_BASE = ["reference denotation rtc/progs.py", "cloudpickle/json round trip of their value domains"]
ASSUMPTIONS = ["user functions deterministic"]

STORAGES = ["file_array", "dict", "shared_memory_dict", "mix"]

_CHILD = r"""
import sys, json
sys.modules['zarr'] = None
sys.path.insert(0, {repo!r}); sys.path.insert(0, {verif!r})
from pipefunc.map import load_outputs
from pipefunc.map._run_info import RunInfo
from rtc import progs
folder, outs = {folder!r}, {outs!r}
res = {{}}
for o in outs:
    try:
        res[o] = progs.to_nested(load_outputs(o, run_folder=folder))
    except Exception as e:
        res[o] = {{"__error__": type(e).__name__ + ": " + str(e)[:200]}}
ri = RunInfo.load(folder)
info = {{"shapes": {{str(k): list(v) for k, v in ri.shapes.items()}},
        "masks": {{str(k): list(v) for k, v in ri.shape_masks.items()}},
        "mapspecs": list(ri.mapspecs_as_strings), "storage": ri.storage if isinstance(ri.storage, str) else
        {{str(k): v for k, v in ri.storage.items()}},
        "inputs": {{k: progs.to_nested(v) for k, v in ri.inputs.items()}},
        "defaults": {{k: progs.to_nested(v) for k, v in ri.defaults.items()}}}}
try:
    from pipefunc.map import load_xarray_dataset
    ds = load_xarray_dataset(run_folder=folder)
    info["xr"] = {{str(k): [list(map(str, ds[k].dims)), progs.xr_nested(ds[k].values)] for k in ds.data_vars}}
    info["xr"]["__coords__"] = {{str(k): [str(x) for x in ds.coords[k].values.tolist()] for k in ds.coords
                                if ds.coords[k].ndim == 1}}
except Exception as e:
    info["xr"] = {{"__error__": type(e).__name__ + ": " + str(e)[:200]}}
print("RESULT" + json.dumps({{"outputs": res, "info": info}}))
"""


def registry():
    from contracts import filearray, mapspec
    allc = filearray.ALL + mapspec.ALL
    return {**{c.short: c for c in allc}, **{c.name: c for c in allc}}


def proof_items():
    from contracts import filearray
    from vf.driver import ProofItem
    # where an element lives on disk: the file of its row-major linear index (what a later process reads)
    from contracts import small
    reg = lambda cs: (lambda: {**{c.short: c for c in cs}, **{c.name: c for c in cs}})  # noqa: E731
    return [ProofItem(filearray.key_to_file, gen=filearray.gen, call=filearray.call),
            # the per-output storage choice recorded in the folder: one backend, else the output's entry, else ""
            ProofItem(small.storage_class, gen=small.sc_gen, registry=reg(small.STORAGE)),
            # persist_memory=True: every in-memory storage array of the store is persisted before map returns
            ProofItem(small.maybe_persist_memory, gen=small.mpm_gen, registry=reg(small.PERSIST)),
            # load_outputs: one entry per requested name, in the order asked, each what the recorded store holds for it
            ProofItem(small.load_outputs_real, gen=small.lo_gen, call=small.lo_call, registry=reg(small.LOAD_OUTPUTS))]


def _cases(tier, rng):
    n = 40 if tier == "quick" else 400
    q = 0
    while q < n:
        prog = progs.gen_map_program(rng, n_funcs=rng.randint(1, 3))
        if not any(max(d.get("shape", (1,)), default=1) >= 2 for d in prog["inputs"].values()):
            continue
        for st in STORAGES:
            yield {"prog": prog, "storage": st, "scoped": (q + len(st)) % 4 == 0}
        # history: an earlier map into the same folder, given other input values, died before it had written
        # run_info.json (which is written last); the run under test then uses the folder with cleanup=False
        yield {"prog": prog, "storage": STORAGES[q % 3], "scoped": False, "after_died_run": True}
        # history: an earlier *partial* run (one index of an axis fixed) persisted its part; the run under test completes
        # it with cleanup=False, computing the rest in worker processes
        yield {"prog": prog, "storage": ("shared_memory_dict", "dict", "file_array")[q % 3], "scoped": False,
               "after_partial_run": True}
        # history: the folder held an earlier, complete run of another program (other names, shapes and storage) that
        # was loaded in this process; the run under test replaces it (cleanup=True): every later load shows this run
        yield {"prog": prog, "storage": STORAGES[(q + 1) % 3], "scoped": False,
               "after_loaded_run": progs.gen_map_program(rng, n_funcs=rng.randint(1, 2), allow_generator=False)}
        # history: the folder held an earlier complete run of the *same* program given other input values, loaded in this
        # process through every entry point; the run under test replaces it
        yield {"prog": prog, "storage": STORAGES[(q + 2) % 3], "scoped": False, "after_loaded_same": True}
        # history: after the run under test returned, a further map that opens the folder with cleanup=False is *refused*
        # for its arguments (an index name no MapSpec has / an index out of range): the folder still yields what the run
        # produced.  (Not with cleanup=True: such a request asks for the folder to be emptied, and nothing in the
        # statements says that a refusal has to come before that - see DESIGN, Corrections.)
        yield {"prog": prog, "storage": STORAGES[q % 3], "scoped": False, "then_refused": ("unknown", "range")[q % 2]}
        # an input whose class is defined in __main__ of the process that runs the map (a script, a notebook)
        scalars = [n for n, d in prog["inputs"].items() if not d.get("omit")]
        if scalars:
            import copy
            prog2 = copy.deepcopy(prog)
            prog2["inputs"][scalars[0]]["main_class"] = True
            yield {"prog": prog2, "storage": ("file_array", "dict")[q % 2], "scoped": False}
        q += 1
    # the run was *given* a value for a parameter that also has an (array) default: what is reloaded is the given value
    want, tries = (6 if tier == "quick" else 60), 0
    while want and tries < 20000:
        tries += 1
        prog = progs.gen_map_program(rng, n_funcs=rng.randint(1, 2))
        if any(p in prog["inputs"] and not prog["inputs"][p].get("omit")
               for f in prog["funcs"] for p in f.get("defaults", {})):
            yield {"prog": prog, "storage": STORAGES[want % len(STORAGES)], "scoped": False}
            want -= 1


def _storage_arg(prog, st):
    if st != "mix":
        return st
    s = {"": "file_array"}
    for i, f in enumerate(prog["funcs"]):
        key = tuple(f["outputs"]) if len(f["outputs"]) > 1 else f["outputs"][0]
        s[key] = ("dict", "shared_memory_dict", "file_array")[i % 3]
    return s


def _info(ri):
    return {"shapes": {str(k): list(v) for k, v in ri.shapes.items()},
            "masks": {str(k): list(v) for k, v in ri.shape_masks.items()},
            "mapspecs": list(ri.mapspecs_as_strings),
            "storage": ri.storage if isinstance(ri.storage, str) else {str(k): v for k, v in ri.storage.items()},
            "inputs": {k: progs.to_nested(v) for k, v in ri.inputs.items()},
            "defaults": {k: progs.to_nested(v) for k, v in ri.defaults.items()}}


def _loaded_run(prog0, folder, storage, inputs=None, mk=None, p0=None):
    """An earlier complete run (of another program, or of this one given other values) into the folder, loaded through
    every entry point in this process."""
    from pipefunc.map import load_outputs, load_xarray_dataset
    from pipefunc.map._run_info import RunInfo
    try:
        p0 = p0 or progs.build_pipeline(prog0)
        p0.map(inputs if inputs is not None else progs.real_inputs(prog0), run_folder=folder, parallel=False,
               storage=storage, **(mk if mk is not None else progs.map_kwargs(prog0)))
        for f in p0.functions:
            for o in ((f.output_name,) if isinstance(f.output_name, str) else f.output_name):
                load_outputs(o, run_folder=folder)
        RunInfo.load(folder)
        load_xarray_dataset(run_folder=folder)
    except Exception:  # noqa: BLE001  (whatever the earlier run did: the run under test starts from this folder)
        pass


def _check(case):
    from pipefunc.map import load_outputs
    from pipefunc.map._run_info import RunInfo
    prog, st = case["prog"], case["storage"]
    want, _ = progs.denote(prog)
    pre = "foo." if case.get("scoped") else ""
    want = {pre + k: v for k, v in want.items()}
    outs = [pre + o for f in prog["funcs"] for o in f["outputs"]]
    folder = tempfile.mkdtemp(prefix="vf_c04_")
    bad = []
    try:
        p = progs.build_pipeline(prog, scope="foo") if pre else progs.build_pipeline(prog)
        progs.set_log(None)
        real_in = {pre + k: v for k, v in progs.real_inputs(prog).items()}
        mk = progs.map_kwargs(prog)
        if pre and mk:
            mk = {"internal_shapes": {pre + k: v for k, v in mk["internal_shapes"].items()}}
        stor = _storage_arg(prog, st)
        if pre and isinstance(stor, dict):
            stor = {(k if k == "" else (tuple(pre + x for x in k) if isinstance(k, tuple) else pre + k)): v
                    for k, v in stor.items()}
        extra = {}
        if case.get("after_died_run"):
            _died_run(p, real_in, folder, stor, mk)
            extra = {"cleanup": False}
        if case.get("after_loaded_same"):
            _loaded_run(prog, folder, stor, inputs={k: _primed(v) for k, v in real_in.items()}, mk=mk, p0=p)
        if case.get("after_loaded_run"):
            _loaded_run(case["after_loaded_run"], folder, ("dict", "file_array")[len(prog["funcs"]) % 2])
        pool = None
        if case.get("after_partial_run"):
            ax = next((a for f in prog["funcs"] if f.get("spec") for n, axes in f["spec"]["inputs"] if n in prog["inputs"]
                       for a in axes if a is not None), None)
            try:
                if ax is None:
                    raise ValueError("no axis")
                p.map(real_in, run_folder=folder, parallel=False, storage=stor, fixed_indices={ax: 0}, **mk)
                extra = {"cleanup": False}
            except Exception:  # noqa: BLE001  (the axis is reduced somewhere / not fixable: a plain run then)
                extra = {}
            from concurrent.futures import ProcessPoolExecutor
            pool = ProcessPoolExecutor(2)
            extra.update(parallel=True, executor=pool)
        try:
            res = p.map(real_in, run_folder=folder, **{"parallel": False, "storage": stor, **mk, **extra})
        except Exception as e:  # noqa: BLE001
            return [f"map-raised-{type(e).__name__}: {str(e)[:150]}"]
        finally:
            if pool is not None:
                pool.shutdown(wait=True)
        produced = {o: progs.to_nested(res[o].output) for o in outs}
        for o in outs:
            if produced[o] != want[o]:
                bad.append(f"run-result-differs:{o}")
        if case.get("then_refused"):
            ax = next((a for f in prog["funcs"] if f.get("spec") for n, axes in f["spec"]["inputs"] if n in prog["inputs"]
                       for a in axes if a is not None), None)
            fixed = {"no_such_index_name": 0} if case["then_refused"] == "unknown" or ax is None else {ax: 10**6}
            try:
                p.map(real_in, run_folder=folder, **{"parallel": False, "storage": stor, **mk, "fixed_indices": fixed,
                                                     "cleanup": False})
                return bad  # accepted (C06's business): this history is not the one under test
            except (ValueError, IndexError, KeyError):
                pass
        given = {"inputs": {k: progs.to_nested(v) for k, v in real_in.items()}}
        info0 = None
        # (i) + (iii): same process, twice
        for rep in (1, 2):
            for o in outs:
                try:
                    raw = load_outputs(o, run_folder=folder)
                    got = progs.to_nested(raw)
                except Exception as e:  # noqa: BLE001
                    bad.append(f"same-process-load{rep}:{o}: raised {type(e).__name__}: {str(e)[:100]}")
                    continue
                if got != produced[o]:
                    bad.append(f"same-process-load{rep}:{o}: got {str(got)[:120]} produced {str(produced[o])[:120]}")
                _spoil(raw)  # what a caller does to the object it was handed must not change what the folder yields next
            ri = RunInfo.load(folder)
            inf = _info(ri)
            if info0 is None:
                info0 = inf
            elif inf != info0:
                bad.append("RunInfo.load not repeatable")
            if inf["inputs"] != given["inputs"]:
                bad.append(f"RunInfo.inputs differ: {inf['inputs']} vs {given['inputs']}")
        xr_same = _xr_summary(folder)
        # shapes/masks/mapspecs/storage recorded in the folder round-trip unchanged w.r.t. the run's own RunInfo
        # (ii) fresh interpreter after dropping everything
        del res, p
        gc.collect()
        code = _CHILD.format(repo=REPO, verif=VERIF, folder=folder, outs=outs)
        env = dict(os.environ, PYTHONDONTWRITEBYTECODE="1")
        cp = subprocess.run([sys.executable, "-c", code], capture_output=True, text=True, timeout=120, env=env)
        line = next((ln for ln in cp.stdout.splitlines() if ln.startswith("RESULT")), None)
        if line is None:
            bad.append(f"fresh-process: no result: {cp.stderr.strip()[-200:]}")
            return bad
        child = json.loads(line[len("RESULT"):])
        for o in outs:
            if child["outputs"][o] != produced[o]:
                bad.append(f"fresh-process-load:{o}: got {str(child['outputs'][o])[:150]} produced {str(produced[o])[:100]}")
        cinfo = dict(child["info"])
        xr = cinfo.pop("xr")
        if json.loads(json.dumps(xr_same)) != xr:
            d = next((k for k in set(xr) | set(xr_same) if xr.get(k) != json.loads(json.dumps(xr_same)).get(k)), "?") \
                if isinstance(xr, dict) and isinstance(xr_same, dict) else "?"
            bad.append(f"load_xarray_dataset in the process that ran the map differs from a fresh interpreter's at {d}: "
                       f"{str(xr_same.get(d) if isinstance(xr_same, dict) else xr_same)[:120]} vs "
                       f"{str(xr.get(d) if isinstance(xr, dict) else xr)[:120]}")
        if cinfo != info0:
            bad.append(f"fresh-process-RunInfo differs: {cinfo} vs {info0}")
        if isinstance(xr, dict) and "__error__" in xr:
            bad.append(f"fresh-process-load_xarray_dataset: {xr['__error__']}")
        else:
            # an input shown by the dataset (1-D mapped root inputs are coordinates) carries the values the run was given
            for name, cv in xr.pop("__coords__", {}).items():
                desc = prog["inputs"].get(name[len(pre):] if pre and name.startswith(pre) else name)
                if desc is None or desc.get("shape") is None or len(desc["shape"]) != 1:
                    continue
                given = desc["default"] if desc.get("omit") else progs.nested_input(name[len(pre):] if pre else name, desc)
                if cv != [str(v) for v in given]:
                    bad.append(f"xarray-input:{name}: dataset shows {cv}, the run was given {given}")
            for f in prog["funcs"]:
                if f.get("spec") and f["spec"]["inputs"]:
                    for o, axes in f["spec"]["outputs"]:
                        o = pre + o
                        if o in xr:
                            dims, vals = xr[o]
                            if list(dims) != list(axes):
                                bad.append(f"xarray-dims:{o}: {dims} != {list(axes)}")
                            if vals != produced[o]:
                                bad.append(f"xarray-values:{o}")
        return bad
    finally:
        shutil.rmtree(folder, ignore_errors=True)


def _xr_summary(folder):
    """What load_xarray_dataset shows, in the form the fresh interpreter reports it."""
    try:
        from pipefunc.map import load_xarray_dataset
        ds = load_xarray_dataset(run_folder=folder)
        out = {str(k): [list(map(str, ds[k].dims)), progs.xr_nested(ds[k].values)] for k in ds.data_vars}
        out["__coords__"] = {str(k): [str(x) for x in ds.coords[k].values.tolist()] for k in ds.coords
                             if ds.coords[k].ndim == 1}
        return out
    except Exception as e:  # noqa: BLE001
        return {"__error__": type(e).__name__ + ": " + str(e)[:200]}


def _spoil(raw):
    import numpy as np
    try:
        if isinstance(raw, list):
            raw.append("spoiled-by-the-caller")
        elif isinstance(raw, np.ndarray) and raw.size and raw.flags.writeable and raw.dtype == object:
            raw.flat[0] = "spoiled-by-the-caller"
        elif isinstance(raw, dict):
            raw["spoiled-by-the-caller"] = 1
    except Exception:  # noqa: BLE001
        pass


class _Died(BaseException):
    pass


def _primed(v):
    import numpy as np
    if isinstance(v, np.ndarray):
        w = np.empty(v.shape, dtype=object)
        for idx in np.ndindex(v.shape):
            w[idx] = f"{v[idx]}'"
        return w
    if isinstance(v, list):
        return [_primed(y) for y in v]
    return f"{v}'"


def _died_run(p, real_in, folder, stor, mk):
    """A map given other values for the same inputs that dies at the moment it would write run_info.json (fault
    injection at that one call; everything before it is the real code)."""
    from pipefunc.map._run_info import RunInfo
    orig = RunInfo.dump

    def die(self):
        raise _Died

    RunInfo.dump = die
    try:
        p.map({k: _primed(v) for k, v in real_in.items()}, run_folder=folder, parallel=False, storage=stor, **mk)
    except _Died:
        pass
    except Exception:  # noqa: BLE001
        pass
    finally:
        RunInfo.dump = orig


def _describe(case):
    return {"program": progs.describe(case["prog"]), "storage": case["storage"], "scoped": case.get("scoped", False),
            "after_died_run": bool(case.get("after_died_run")), "after_partial_run": bool(case.get("after_partial_run")),
            "after_loaded_same": bool(case.get("after_loaded_same")), "then_refused": case.get("then_refused")}


def bounded_checks():
    return [("reload-exactly", Check("reload-exactly", _cases, _check, RULE, describe=_describe,
                                     key=lambda c: repr(_describe(c)), shards=14,
                                     time_budget_s=lambda t: 100 if t == "quick" else 1200))]
