"""C02 - Calling a pipeline equals composing its functions along the DAG."""
from __future__ import annotations

import itertools

from rtc import dag, progs
from vf.bounded import Check

ID = "C02"
LEVEL = "other"
LEVEL_TEXT = ("Bounded contract checking of the statement on the real Pipeline: for generated DAGs (nullary and "
              "tuple-output functions, shared parameters, defaults, bound values, renames), every listing order, every "
              "output and every argument combination listed by arg_combinations, pipeline(...), run and func(...) must "
              "return the value of a reference evaluator written from the statement and invoke exactly the needed "
              "functions once each after their dependencies. The call path (PipeFunc.__call__, Pipeline._run, "
              "_get_func_args) manipulates networkx graphs, weak references and cached properties, which the proof rung "
              "cannot model; the property itself is decided on the bounded rung. Proved part (pyvc, listed under "
              "functions_under_contract): at_least_tuple, _default_output_picker (the i-th element of a tuple result "
              "is handed out for the i-th output name) and _update_all_results (a tuple result is entered under every "
              "one of its names, each picked by that name, every other entry untouched; the output_picker is an "
              "assumed pure callable) and Pipeline._get_func_args (every parameter gets its bound value, else the "
              "supplied keyword, else the upstream output, else the default, and ValueError exactly when none "
              "exists; the recursive Pipeline._run is an assumed contract) and, for the cache-free path, "
              "Pipeline._run itself (an output already computed in this evaluation is returned unchanged and nothing "
              "runs; otherwise the value is the producer applied to the resolved arguments, one element of it for a "
              "tuple output; _execute_func, root_args, _current_cache, task_graph are assumed). Category 'other' = a few "
              "discharged leaf contracts + bounded checking of the statement; it is not a proof of C02.")
LEVEL_NOTE = ("Bounds: 1..4 functions (quick 1..3 for the all-orders part), <=3 parameters each, roots {x,y,z}; values are "
              "tagging strings. Trusted: the reference evaluator rtc/dag.py::refeval; networkx.")
TECHNIQUE = ("bounded contract checking of the statement-level contract (tagging bodies + reference evaluator); leaf "
             "at_least_tuple, _default_output_picker, _update_all_results, _get_func_args and the cache-free "
             "Pipeline._run discharged by z3")
EXPLANATION = LEVEL_TEXT
RULE = ("random DAGs from rtc.dag.gen_dag; per DAG all outputs x all arg_combinations x all listing orders (n<=3) x "
        "{pipeline(), run, func}; distinct = distinct (DAG, order, output, combination); non-trivial = the evaluation "
        "invokes >=2 functions or supplies an intermediate")
TRUSTED_BASE = ["reference evaluator rtc/dag.py (from the statement)", "networkx"]
ASSUMPTIONS = ["user functions deterministic", "values compared as strings"]


def registry():
    from contracts import misc, pipeline_call
    allc = misc.ALL + pipeline_call.ALL
    return {**{c.short: c for c in allc}, **{c.name: c for c in allc}, **pipeline_call.registry_entries()}


def _alt_gen(rng, tier):
    for x in ("a", "", ("a",), ("a", "b"), ()):
        yield {"x": x}


def _dop_gen(rng, tier):
    for names in [("a", "b"), ("a", "b", "c"), ("b", "a"), ("a", "a")]:
        for name in ("a", "b", "c"):
            for extra in (0, 1):
                yield {"output": tuple(f"v{i}" for i in range(len(names) + extra)), "name": name, "output_name": names}


def proof_items():
    from contracts import misc
    from vf.driver import ProofItem
    from contracts import pipeline_call
    return [ProofItem(misc.at_least_tuple, gen=_alt_gen), ProofItem(misc.default_output_picker, gen=_dop_gen),
            # routing tuple outputs by name: how a function's result enters the results of one evaluation
            ProofItem(pipeline_call.update_all_results, gen=pipeline_call.gen),
            # the resolution order: bound value, else supplied keyword, else upstream output, else default
            ProofItem(pipeline_call.get_func_args, gen=pipeline_call.gfa_gen),
            # one evaluation: an output already computed is returned as it is (each function once); otherwise the
            # producer's result for the resolved arguments is entered and returned (cache-free path)
            ProofItem(pipeline_call.run, gen=pipeline_call.run_gen)]


def _cases(tier, rng):
    n = 2500 if tier == "quick" else 25000
    for q in range(n):
        nf = rng.randint(1, 4)
        d = dag.gen_dag(rng, nf)
        orders = list(itertools.permutations(range(nf))) if nf <= 3 else [tuple(range(nf)), tuple(reversed(range(nf)))]
        if tier == "quick" and len(orders) > 3:
            orders = [orders[0]] + rng.sample(orders[1:], 2)
        for order in orders:
            yield {"dag": d, "order": list(order)}


def check_calls(d, p, out, kw, modes=("call", "run", "func")):
    """Compare the real pipeline with the reference for one (output, kwargs)."""
    bad = []
    try:
        want, vals, calls = dag.refeval(d, out, kw)
    except dag.NotComputable:
        return ["oracle-not-computable"]
    for mode in modes:
        log: list = []
        progs.set_log(log)
        try:
            if mode == "call":
                got = p(out, **kw)
            elif mode == "run":
                got = p.run(out, kwargs=dict(kw))
            else:
                got = p.func(out)(**kw)
        except Exception as e:  # noqa: BLE001
            bad.append(f"{mode}-raised-{type(e).__name__}: {str(e)[:120]}")
            continue
        finally:
            progs.set_log(None)
        if got != want:
            bad.append(f"{mode}-value: got {got!r} want {want!r}")
        names = [n for n, _ in log]
        if sorted(names) != sorted(calls):
            bad.append(f"{mode}-calls: executed {names} expected {sorted(calls)}")
        else:
            # each function after its dependencies
            prod = dag.producers(d)
            pos = {n: i for i, n in enumerate(names)}
            for f in d["funcs"]:
                if f["name"] in pos:
                    for prm in f["params"]:
                        if prm in prod and prm not in kw and prm not in f.get("bound", {}) and \
                                pos.get(prod[prm]["name"], -1) > pos[f["name"]]:
                            bad.append(f"{mode}-order: {f['name']} ran before its dependency {prod[prm]['name']}")
    # full_output: every value of that same evaluation
    log = []
    progs.set_log(log)
    try:
        full = p.run(out, full_output=True, kwargs=dict(kw))
        for name, v in vals.items():
            if name in full and full[name] != v:
                bad.append(f"full_output[{name}]: got {full[name]!r} want {v!r}")
        prod = dag.producers(d)
        for name in vals:
            if name in prod and name not in full:
                bad.append(f"full_output-misses-{name}")
        if len(log) != len(calls):
            bad.append(f"full_output-calls: {len(log)} vs {len(calls)}")
    except Exception as e:  # noqa: BLE001
        bad.append(f"full_output-raised-{type(e).__name__}: {str(e)[:100]}")
    finally:
        progs.set_log(None)
    return bad


def _check(case):
    d, order = case["dag"], case["order"]
    try:
        p = dag.build(d, order=order)
    except Exception as e:  # noqa: BLE001
        return [f"construction-raised-{type(e).__name__}: {str(e)[:120]}"]
    bad = []
    for out in dag.all_outputs(d):
        try:
            combos = sorted(p.arg_combinations(out))
        except Exception as e:  # noqa: BLE001
            bad.append(f"arg_combinations-raised-{type(e).__name__}")
            continue
        for combo in combos:
            kw = {n: (f"v_{n}" if n in dag.ROOTS else f"SUPPLIED_{n}") for n in combo}
            bad += [f"{out}/{combo}: {b}" for b in check_calls(d, p, out, kw, modes=("call",) if len(combos) > 6 else ("call", "run", "func"))]
            # defaults: omitting a defaulted root argument uses the default
            dflt = [n for n in combo if n in dag.shared_defaults(d)]
            if dflt:
                kw2 = {k: v for k, v in kw.items() if k != dflt[0]}
                bad += [f"{out}/{combo}-minus-{dflt[0]}: {b}" for b in check_calls(d, p, out, kw2, modes=("call",))]
            # surplus keyword must be rejected
            try:
                p(out, **kw, surplus_kw=1)
                bad.append(f"{out}/{combo}: surplus keyword accepted")
            except Exception:  # noqa: BLE001
                pass
            if len(bad) > 6:
                return bad
    if not bad:
        bad += _rename_tuple_output_after_calls(d, p)
    return bad


def _rename_tuple_output_after_calls(d, p):
    """Routing of tuple outputs is by (current) name: after the calls above, rename one element of a multi-output
    function and evaluate again against the equally renamed description."""
    import copy
    multi = [f for f in d["funcs"] if len(f["outputs"]) > 1]
    if not multi:
        return []
    f0 = multi[0]
    old, new = f0["outputs"][0], f0["outputs"][0] + "_rn"
    d2 = copy.deepcopy(d)
    for f in d2["funcs"]:
        if old in f["outputs"]:
            f["labels"] = {new: old}
        f["outputs"] = [new if o == old else o for o in f["outputs"]]
        if old in f["params"]:  # the function's own argument keeps its name; only the pipeline-level name changes
            f.setdefault("orig", {})
            f["orig"][new] = f["orig"].pop(old, old)
        f["params"] = [new if q == old else q for q in f["params"]]
        for key in ("defaults", "bound"):
            if key in f and old in f[key]:
                f[key][new] = f[key].pop(old)
    try:
        p.update_renames({old: new}, update_from="current")
    except Exception as e:  # noqa: BLE001
        return [f"update_renames({old}->{new}) raised {type(e).__name__}: {str(e)[:100]}"]
    bad = []
    for out in dag.all_outputs(d2):
        need = dag.needed_roots(d2, out, set())
        kw = {n: f"v_{n}" for n in need if n in dag.ROOTS}
        if len(kw) != len(need):
            continue
        bad += [f"after renaming tuple element {old}->{new}: {out}: {b}" for b in check_calls(d2, p, out, kw, modes=("call",))]
    return bad[:4]


def _nontrivial(case):
    return len(case["dag"]["funcs"]) >= 2


def bounded_checks():
    return [("call-equals-composition", Check("call-equals-composition", _cases, _check, RULE, nontrivial=_nontrivial,
                                              shards=12, time_budget_s=lambda t: 100 if t == "quick" else 900))]
