"""C12 - Ill-formed pipelines and inputs are rejected before any user code runs."""
from __future__ import annotations

import copy
import hashlib
import os
import shutil
import tempfile

from rtc import dag, progs
from specs import mapspec_ref as ref
from vf.bounded import Check

ID = "C12"
LEVEL = "other"
LEVEL_TEXT = ("Bounded contract checking by single-fault mutation: every valid generated case (call-level DAGs and map "
              "programs) is subjected to each fault class the statement lists; the construction or the start of "
              "run/map must raise, no user function may have been invoked, and a run folder populated by a previous "
              "valid run and opened with cleanup=False must be byte-for-byte unchanged afterwards. The validators "
              "walk networkx graphs and numpy shapes and are decided on the bounded rung (the MapSpec.shape "
              "rank/zip checks are covered under C08). Proved part (pyvc): validate_unique_output_names (raises "
              "exactly when the new output name is already taken) and _validate_shapes (raises exactly for a surplus "
              "array, a missing array, a rank mismatch or an internal shape for a non-output) and "
              "_validate_complete_inputs (raises exactly for a root argument without input or default, or an input "
              "that is not a root argument) and validate_consistent_defaults (raises exactly when two functions "
              "declare different defaults for an argument that neither binds and no function produces; two nested loop "
              "invariants over the dict of recorded defaults). Category 'other' = "
              "those contracts + bounded fault-class checking; it is not a proof of C12.")
LEVEL_TEXT += (' Also proved: _check_inputs (raises exactly when an input that the MapSpecs index with more than one axis is given as a list or tuple).')
LEVEL_NOTE = ("Fault classes: duplicate output, output named like own parameter, cycle, inconsistent defaults, "
              "MapSpec/signature mismatch, inconsistent axes between MapSpecs, missing input, surplus input, wrong "
              "rank, zipped dimension mismatch, unknown storage, executor with parallel=False. Trusted: the generators' "
              "notion of a valid case (checked by C01/C02).")
TECHNIQUE = ("bounded single-fault mutation contract checking; validate_unique_output_names and _validate_shapes "
             "discharged by z3")
TECHNIQUE += ('; _validate_complete_inputs, validate_consistent_defaults and _check_inputs as well')
EXPLANATION = LEVEL_TEXT
RULE = ("valid case x fault class; distinct = distinct (case, fault); non-trivial = every case (each is a faulty request "
        "that must be rejected)")
TRUSTED_BASE = ["generators rtc/dag.py, rtc/progs.py produce valid cases"]
ASSUMPTIONS = []


def registry():
    from contracts import mapspec, misc, shape
    allc = misc.ALL + mapspec.ALL + shape.ALL
    return {**{c.short: c for c in allc}, **{c.name: c for c in allc}}


def _vuo_gen(rng, tier):
    names = ("a", "b", ("a", "b"), ("c", "d"), ("b", "c"))
    for out in names:
        for k in range(0, 3):
            for keys in __import__("itertools").combinations(names, k):
                yield {"output_name": out, "output_to_func": {kk: f"F{n}" for n, kk in enumerate(keys)}}


def proof_items():
    from contracts import misc
    from vf.driver import ProofItem
    from contracts import mapspec, shape, small
    from props.C08 import _vshape_gen
    return [ProofItem(misc.validate_unique_output_names, gen=_vuo_gen),
            # the map-level rejections of surplus / missing arrays and wrong ranks come from here
            ProofItem(mapspec.validate_shapes, gen=_vshape_gen),
            # missing / surplus inputs of a map request
            ProofItem(misc.validate_complete_inputs, gen=misc.vci_gen),
            # the "inconsistent defaults" fault class
            ProofItem(misc.validate_consistent_defaults, gen=misc.vcd_gen),
            # a list / tuple given where the MapSpecs index an input with more than one axis
            ProofItem(small.check_inputs, gen=small.ci_gen,
                      registry=lambda: {**{c.short: c for c in small.CHECK_INPUTS}, **{c.name: c for c in small.CHECK_INPUTS}}),
            # rank / zipped-dimension mismatch of the inputs of a map (thorough tier: ~45 s of solver time)
            ProofItem(shape.mapspec_shape, gen=shape.shape_gen, thorough_only=True)]


# ---- construction-level faults on call-level DAGs --------------------------------------------------------------
def _dag_cases(tier, rng):
    for bound in (True, False):
        for order in (False, True):
            yield {"dag": {"funcs": []}, "fault": "dataclass-function", "bound": bound, "order": order}
    for _ in range(400 if tier == "quick" else 4000):
        d = dag.gen_dag(rng, rng.randint(2, 4), allow_renames=False)
        fs = d["funcs"]
        # duplicate output name
        m = copy.deepcopy(d)
        m["funcs"][-1]["outputs"] = [m["funcs"][0]["outputs"][0]]
        if m["funcs"][0]["outputs"][0] not in m["funcs"][-1]["params"]:
            yield {"dag": m, "fault": "duplicate-output"}
        # output named like one of its own parameters
        cand = [f for f in fs if f["params"]]
        if cand:
            m = copy.deepcopy(d)
            pick = rng.choice(cand)["name"]
            f = next(x for x in m["funcs"] if x["name"] == pick)
            f["outputs"] = [f["params"][0]]
            yield {"dag": m, "fault": "output-equals-own-parameter"}
            # the same clash arrived at by renaming the output; with the parameter bound there is no cycle to fall back on
            m2 = copy.deepcopy(m)
            f2 = next(x for x in m2["funcs"] if x["name"] == pick)
            f2["out_orig"] = {f2["outputs"][0]: "out_before_rename"}
            if rng.random() < 0.6:
                f2.setdefault("bound", {})[f2["params"][0]] = "B"
            yield {"dag": m2, "fault": "output-equals-own-parameter", "alone": rng.random() < 0.5}
        # cycle: the first function additionally consumes the last function's output
        m = copy.deepcopy(d)
        last_out = m["funcs"][-1]["outputs"][0]
        first = m["funcs"][0]
        uses_first = any(o in f2["params"] for f2 in m["funcs"][1:] for o in first["outputs"])
        if uses_first and last_out not in first["params"]:
            chain = _depends_on(m, m["funcs"][-1], set(first["outputs"]))
            if chain:
                first["params"] = first["params"] + [last_out]
                yield {"dag": m, "fault": "cycle"}
        # inconsistent defaults
        shared = [p for p in dag.ROOTS if sum(p in f["params"] for f in fs) >= 2]
        if shared:
            m = copy.deepcopy(d)
            p = shared[0]
            users = [f for f in m["funcs"] if p in f["params"] and p not in f.get("bound", {})]
            if len(users) >= 2:
                for f in m["funcs"]:
                    f.get("defaults", {}).pop(p, None)
                # (also values that differ, but only barely, or only in kind: 0.1 + 0.2 vs 0.3, 1 vs 1.0000000001, "1" vs 1)
                one, two = rng.choice((("D_one", "D_two"), (None, "D_two"), ("D_one", None), (0, 1), ((), (1,)),
                                       (0.1 + 0.2, 0.3), (1.0, 1.0 + 1e-12), ("1", 1), (1e9, 1e9 + 1e-3)))
                users[0].setdefault("defaults", {})[p] = one
                users[1].setdefault("defaults", {})[p] = two
                yield {"dag": m, "fault": "inconsistent-defaults"}


import dataclasses as _dc


@_dc.dataclass
class _Settings:
    """A dataclass used as a pipeline function: its fields are its parameters, field defaults are parameter defaults."""
    scale: str = "S_default"
    offset: str = "O_default"

    def __post_init__(self) -> None:
        progs.log_call("Settings", f"Settings(scale={self.scale},offset={self.offset})")


def _uses_scale(x, scale):
    progs.log_call("g", f"g(x={x},scale={scale})")
    return (x, scale)


def _check_dataclass_function(case):
    """A missing input whose name is also a (defaulted) field of a dataclass function - bound there, or not."""
    from pipefunc import PipeFunc, Pipeline
    bound = {"scale": "S_bound"} if case["bound"] else {}
    fs = [PipeFunc(_Settings, output_name="settings", bound=bound), PipeFunc(_uses_scale, output_name="y")]
    if case["order"]:
        fs.reverse()
    log: list = []
    progs.set_log(log)
    try:
        p = Pipeline(fs)
        if not case["bound"]:
            # the field default is a default of the root argument: a call without it is well-formed
            return [] if p("y", x="vx") == ("vx", "S_default") else ["unbound dataclass field default not applied"]
        for how in ("call", "map"):
            log.clear()
            try:
                p("y", x="vx") if how == "call" else p.map({"x": "vx"}, parallel=False, storage="dict")
            except Exception:  # noqa: BLE001
                if log:
                    return [f"missing-input ({how}): user code ran before the rejection: {[n for n, _ in log]}"]
                continue
            return [f"missing-input ({how}): `scale` is bound in the dataclass function only and has no default for the "
                    f"other function, but the request without it was accepted"]
        return []
    finally:
        progs.set_log(None)


def _depends_on(d, f, names):
    prod = dag.producers(d)
    seen = set()
    stack = [q for q in f["params"] if q not in f.get("bound", {})]
    while stack:
        p = stack.pop()
        if p in names:
            return True
        if p in seen or p not in prod:
            continue
        seen.add(p)
        stack += [q for q in prod[p]["params"] if q not in prod[p].get("bound", {})]
    return False


def _check_dag(case):
    if case.get("fault") == "dataclass-function":
        return _check_dataclass_function(case)
    log: list = []
    progs.set_log(log)
    try:
        if case.get("alone"):  # the faulty function on its own: PipeFunc(...) itself must refuse
            d1 = {**case["dag"], "funcs": [f for f in case["dag"]["funcs"] if f.get("out_orig")]}
            try:
                dag.build(d1)
            except Exception:  # noqa: BLE001
                return [] if not log else ["user code ran before the rejection"]
            return [f"{case['fault']}: accepted (function on its own)"]
        try:
            p = dag.build(case["dag"])
        except Exception:  # noqa: BLE001
            return [] if not log else ["user code ran before the rejection"]
        # cycles may only be detected when the graph is used: the start of a call counts
        out = dag.all_outputs(case["dag"])[-1]
        try:
            p(out, **{r: f"v_{r}" for r in dag.ROOTS if r in p.root_args(out)})
        except Exception:  # noqa: BLE001
            return [] if not log else [f"{case['fault']}: user functions ran ({[n for n, _ in log]}) before the rejection"]
        return [f"{case['fault']}: accepted"]
    finally:
        progs.set_log(None)


# ---- map-level faults --------------------------------------------------------------------------------------------
def _snapshot(folder):
    """Every directory and every file with its content (loading the previous run's RunInfo re-dumps it with the same
    bytes: that is not counted as altering the folder)."""
    out = {}
    for root, dirs, files in os.walk(folder):
        for dn in dirs:
            out[os.path.relpath(os.path.join(root, dn), folder) + "/"] = "dir"
        for fn in files:
            path = os.path.join(root, fn)
            with open(path, "rb") as fh:
                out[os.path.relpath(path, folder)] = hashlib.sha256(fh.read()).hexdigest()
    return out


def _template_multi_output(rng):
    """x[i], y[j] -> a[i, j], b[i, j] ; each output has exactly one consumer."""
    si, sj = rng.sample((1, 2, 3), 2)
    return {"funcs": [
        {"name": "f0", "params": ["x", "y"], "outputs": ["a", "b"],
         "spec": {"inputs": [("x", ("i",)), ("y", ("j",))], "outputs": [("a", ("i", "j")), ("b", ("i", "j"))]},
         "internal": None},
        {"name": "f1", "params": ["a"], "outputs": ["c"],
         "spec": {"inputs": [("a", ("i", "j"))], "outputs": [("c", ("i", "j"))]}, "internal": None},
        {"name": "f2", "params": ["b"], "outputs": ["d"],
         "spec": {"inputs": [("b", ("i", "j"))], "outputs": [("d", ("i", "j"))]}, "internal": None}],
        "inputs": {"x": {"shape": (si,), "kind": "ndarray"}, "y": {"shape": (sj,), "kind": "list"}},
        "sizes": {"i": si, "j": sj}}


def _map_cases(tier, rng):
    for _ in range(6 if tier == "quick" else 40):
        prog = _template_multi_output(rng)
        for ft in ("axis-swap-in-consumer", "axis-rename-in-consumer"):
            for seed in range(4):
                yield {"prog": prog, "fault": ft, "target": "x", "zipped": [], "seed": seed}
    n = 900 if tier == "quick" else 9000
    q = 0
    while q < n:
        prog = progs.gen_map_program(rng, n_funcs=rng.randint(1, 3), allow_generator=False)
        mapped_roots = [r for r in prog["inputs"] if not prog["inputs"][r].get("omit")]
        if not mapped_roots:
            continue
        q += 1
        r0 = rng.choice(mapped_roots)
        faults = ["missing-input", "surplus-input", "unknown-storage", "executor-without-parallel", "wrong-rank",
                  "wrong-rank-lower"]
        # zipped dimension mismatch: some index shared by two root arrays
        zipped = []  # (an index name zips two arrays when they carry it in the *same* MapSpec)
        for f in prog["funcs"]:
            if f.get("spec"):
                ax = {}
                for nme, axes in f["spec"]["inputs"]:
                    if nme in prog["inputs"] and not prog["inputs"][nme].get("omit"):
                        for i, a in enumerate(axes):
                            if a is not None:
                                ax.setdefault(a, set()).add((nme, i))
                zipped += [(a, sorted(v)) for a, v in ax.items() if len({n_ for n_, _ in v}) >= 2]
        if zipped:
            faults.append("zip-mismatch")
        faults += ["mapspec-signature-mismatch", "inconsistent-axes", "axis-swap-in-consumer", "axis-rename-in-consumer"]
        for ft in faults:
            yield {"prog": prog, "fault": ft, "target": r0, "zipped": zipped[:1], "seed": rng.randrange(10**6),
                   # (only for faults that do not depend on what the folder held before)
                   "empty_folder": ft in ("unknown-storage", "executor-without-parallel", "surplus-input")
                   and rng.random() < 0.4,
                   # the folder holds what a start that died before writing run_info.json (written last) left behind
                   "no_run_info": rng.random() < 0.25}


def _check_map(case):
    import numpy as np
    prog, fault = copy.deepcopy(case["prog"]), case["fault"]
    base = tempfile.mkdtemp(prefix="vf_c12_")
    folder = os.path.join(base, "run")
    bad = []
    try:
        # a valid run populates the folder
        try:
            p0 = progs.build_pipeline(prog)
            progs.set_log(None)
            p0.map(progs.real_inputs(prog), run_folder=folder, parallel=False, storage="file_array",
                   **progs.map_kwargs(prog))
        except Exception as e:  # noqa: BLE001
            return [f"valid-base-case-raised-{type(e).__name__}"]
        if case.get("empty_folder"):
            # the folder exists but holds no run yet (created by the user, or left by an aborted start)
            shutil.rmtree(folder)
            os.makedirs(folder)
        elif case.get("no_run_info"):
            os.remove(os.path.join(folder, "run_info.json"))
        before = _snapshot(folder)
        inputs = progs.real_inputs(prog)
        kw = {"parallel": False, "storage": "file_array"}
        build_prog = prog
        if fault == "missing-input":
            inputs.pop(case["target"])
        elif fault == "surplus-input":
            inputs["not_a_parameter"] = [1, 2]
        elif fault == "unknown-storage":
            # as one name for everything, or for one output only in a per-output dict (before / after a valid entry)
            import random as _r
            rr = _r.Random(case["seed"])
            outs_ = [o for f in prog["funcs"] for o in f["outputs"]]
            form = rr.choice(("plain", "dict-valid-first", "dict-unknown-first"))
            if form == "plain":
                kw["storage"] = "no_such_storage"
            elif form == "dict-valid-first":
                kw["storage"] = {"": rr.choice(("file_array", "dict")), rr.choice(outs_): "no_such_storage"}
            else:
                kw["storage"] = {rr.choice(outs_): "no_such_storage", "": rr.choice(("file_array", "dict"))}
        elif fault == "executor-without-parallel":
            from concurrent.futures import ThreadPoolExecutor
            kw["executor"] = ThreadPoolExecutor(1)
        elif fault == "wrong-rank":
            v = np.asarray(inputs[case["target"]], dtype=object)
            inputs[case["target"]] = np.stack([v, v]) if v.ndim >= 1 else v
        elif fault == "wrong-rank-lower":
            # an array with too few dimensions (the MapSpec may name only the leading ones and slice the rest)
            v = np.asarray(inputs[case["target"]], dtype=object)
            if v.ndim < 2:
                return []
            inputs[case["target"]] = v[..., 0]
        elif fault == "zip-mismatch":
            (a, where) = case["zipped"][0]
            nme, axis = where[0]
            v = np.asarray(inputs[nme], dtype=object)
            inputs[nme] = np.concatenate([v, v.take([0], axis=axis)], axis=axis)
        elif fault == "mapspec-signature-mismatch":
            build_prog = copy.deepcopy(prog)
            f = next((f for f in build_prog["funcs"] if f.get("spec") and f["spec"]["inputs"]), None)
            if f is None:
                return []
            nme, axes = f["spec"]["inputs"][0]
            f["spec"]["inputs"][0] = ("not_a_param", axes)
        elif fault == "inconsistent-axes":
            build_prog = copy.deepcopy(prog)
            users = [(f, i) for f in build_prog["funcs"] if f.get("spec") for i, (nme, axes) in
                     enumerate(f["spec"]["inputs"]) if nme == case["target"]]
            if not users:
                return []
            f, i = users[-1]
            nme, axes = f["spec"]["inputs"][i]
            # one more axis on this use only: the array then has two different ranks in the pipeline
            new_ix = next((x for x in ref.IDX + ("m", "n") if x not in {a for _, ax_ in f["spec"]["inputs"] + f["spec"]["outputs"] for a in ax_}), None)
            if new_ix is None:
                return []
            f["spec"]["inputs"][i] = (nme, tuple(axes) + (new_ix,))
            f["spec"]["outputs"] = [(o, tuple(ax_) + (new_ix,)) for o, ax_ in f["spec"]["outputs"]]
            if len(users) < 2 and not any(nme in dict(g["spec"]["inputs"]) for g in build_prog["funcs"] if g.get("spec") and g is not f):
                return []  # the array is used once: adding an axis there is a (valid) different program
        elif fault in ("axis-swap-in-consumer", "axis-rename-in-consumer"):
            import random as _r
            rr = _r.Random(case["seed"])
            build_prog = copy.deepcopy(prog)
            # a consumer of an array that another MapSpec (producer or second consumer) also describes
            described: dict = {}
            for f in build_prog["funcs"]:
                if f.get("spec"):
                    for nme, axes in f["spec"]["inputs"] + f["spec"]["outputs"]:
                        described[nme] = described.get(nme, 0) + 1
            cands = [(f, i) for f in build_prog["funcs"] if f.get("spec") for i, (nme, axes) in
                     enumerate(f["spec"]["inputs"]) if described.get(nme, 0) >= 2
                     and sum(a is not None for a in axes) >= (2 if fault == "axis-swap-in-consumer" else 1)]
            if not cands:
                return []
            f, i = rr.choice(cands)
            nme, axes = f["spec"]["inputs"][i]
            named = [q for q, a in enumerate(axes) if a is not None]
            if fault == "axis-swap-in-consumer":
                q1, q2 = rr.sample(named, 2)
                # (a swap is a fault only if another MapSpec names one of the two positions of this array)
                named_elsewhere = {q for g_ in build_prog["funcs"] if g_.get("spec") and g_ is not f
                                   for n2, ax2 in g_["spec"]["inputs"] + g_["spec"]["outputs"] if n2 == nme
                                   for q, a2 in enumerate(ax2) if a2 is not None}
                if not {q1, q2} & named_elsewhere:
                    return []
                ren = {axes[q1]: axes[q2], axes[q2]: axes[q1]}
                if prog["sizes"][axes[q1]] != prog["sizes"][axes[q2]]:
                    pass
                new_axes = tuple(ren.get(a, a) for a in axes)
                # only this array's spec is changed: it now names its axes differently from the other MapSpecs
                f["spec"]["inputs"][i] = (nme, new_axes)
            else:
                used = {a for _, ax_ in f["spec"]["inputs"] + f["spec"]["outputs"] for a in ax_}
                fresh = next((x for x in ("m", "n", "p") if x not in used), None)
                # positions of this array that another MapSpec names as well (otherwise the rename is harmless)
                elsewhere = set()
                for g_ in build_prog["funcs"]:
                    if g_.get("spec") and g_ is not f:
                        for n2, ax2 in g_["spec"]["inputs"] + g_["spec"]["outputs"]:
                            if n2 == nme:
                                elsewhere |= {q for q, a2 in enumerate(ax2) if a2 is not None}
                named = [q for q in named if q in elsewhere]
                if not named or fresh is None:
                    return []
                q1 = rr.choice(named)
                old = axes[q1]
                if any(old in ax_ for n_, ax_ in f["spec"]["inputs"] if n_ != nme):
                    return []  # the index is shared with another input of this consumer: not a single-array fault
                # rename the index consistently inside this consumer (a well-formed MapSpec on its own)
                def rn(ax_):
                    return tuple(fresh if a == old else a for a in ax_)
                f["spec"]["inputs"] = [(n_, rn(ax_)) for n_, ax_ in f["spec"]["inputs"]]
                f["spec"]["outputs"] = [(n_, rn(ax_)) for n_, ax_ in f["spec"]["outputs"]]
                # downstream consumers of this function's outputs would also disagree now: that is still one fault
            if ref.malformed_reason(f["spec"]) is not None:
                return []
        if build_prog is not prog:
            # the pipeline itself is ill-formed: it must be rejected on its own (a fresh run, no previous folder that
            # could reject the request for being different from the previous run)
            log0: list = []
            progs.set_log(log0)
            try:
                p1 = progs.build_pipeline(build_prog)
                p1.map(progs.real_inputs(build_prog), parallel=False, storage="dict", **progs.map_kwargs(build_prog))
                bad.append(f"{fault}: accepted (fresh run)")
            except Exception:  # noqa: BLE001
                if log0:
                    bad.append(f"{fault}: user functions ran ({len(log0)} calls) before the rejection (fresh run)")
            finally:
                progs.set_log(None)
        mapped_somewhere = any(n_ == case.get("target") for f in prog["funcs"] if f.get("spec") for n_, _ in f["spec"]["inputs"])
        has_default = any(case.get("target") in f.get("defaults", {}) for f in prog["funcs"])
        really_faulty = {"missing-input": not has_default, "surplus-input": True, "wrong-rank": mapped_somewhere, "wrong-rank-lower": mapped_somewhere,
                         "zip-mismatch": True}.get(fault, False)
        if case.get("no_run_info") and not (really_faulty or build_prog is not prog
                                            or fault in ("unknown-storage", "executor-without-parallel")):
            return bad  # refused only for differing from the previous run: without its run_info.json there is no such run
        if really_faulty and build_prog is prog:
            # the request is ill-formed on its own: also a run without any previous folder (which could refuse the request
            # merely for differing from the previous run) must reject it before user code runs
            log0 = []
            progs.set_log(log0)
            try:
                p1 = progs.build_pipeline(prog)
                p1.map(inputs, parallel=False, storage="dict", **progs.map_kwargs(prog))
                bad.append(f"{fault}: accepted (fresh run)")
            except Exception:  # noqa: BLE001
                if log0:
                    bad.append(f"{fault}: user functions ran ({len(log0)} calls) before the rejection (fresh run)")
            finally:
                progs.set_log(None)
        log: list = []
        progs.set_log(log)
        try:
            p = progs.build_pipeline(build_prog)
            p.map(inputs, run_folder=folder, cleanup=False, **kw, **progs.map_kwargs(build_prog))
            bad.append(f"{fault}: accepted")
        except Exception:  # noqa: BLE001
            if log:
                bad.append(f"{fault}: user functions ran ({len(log)} calls) before the rejection")
        finally:
            progs.set_log(None)
            ex = kw.get("executor")
            if ex is not None:
                ex.shutdown(wait=False)
        after = _snapshot(folder)
        if after != before:
            changed = sorted(k for k in set(before) | set(after) if before.get(k) != after.get(k))
            bad.append(f"{fault}: the run folder opened with cleanup=False was altered: {changed[:4]}")
        return bad
    finally:
        shutil.rmtree(base, ignore_errors=True)


def _axes_family_cases(tier, rng):
    """Families of MapSpecs that index one array `a`: every selection of up to 3 (4) index patterns, in every order."""
    import itertools
    pats2 = [("i", None), (None, "j"), ("k", None), ("i", "j"), (None, None), ("j", "i"), ("i",), ("k", "j")]
    for n in (2, 3):
        for fam in itertools.permutations(pats2, n):
            yield {"family": [list(x) for x in fam]}
    pats3 = [("i", None, None), (None, "j", None), (None, "k", None), (None, None, "l"), ("i", "j", None), ("m", None, "l")]
    for _ in range(150 if tier == "quick" else 1500):
        yield {"family": [list(rng.choice(pats3)) for _ in range(rng.randint(2, 4))]}


def _check_axes_family(case):
    from pipefunc.map._mapspec import MapSpec, validate_consistent_axes
    fam = [tuple(x) for x in case["family"]]
    specs = []
    for n, pat in enumerate(fam):
        named = [a for a in pat if a is not None]
        inp = "a[" + ", ".join(a if a is not None else ":" for a in pat) + "]"
        if not named:
            inp += f", b{n}[q]"
            named = ["q"]
        specs.append(MapSpec.from_string(f"{inp} -> r{n}[{', '.join(named)}]"))
    # reference: one rank per array, at most one index name per position of an array
    ok = len({len(p_) for p_ in fam}) == 1 and all(
        len({p_[i] for p_ in fam if p_[i] is not None}) <= 1 for i in range(len(fam[0])))
    try:
        validate_consistent_axes(specs)
        accepted = True
    except ValueError:
        accepted = False
    shown = [str(m) for m in specs]
    if ok and not accepted:
        return [f"consistent family refused: {shown}"]
    if not ok and accepted:
        return [f"inconsistent family accepted (an array position named differently, or different ranks): {shown}"]
    return []


def bounded_checks():
    return [
        ("inconsistent-axes-families", Check("inconsistent-axes-families", _axes_family_cases, _check_axes_family,
                                             "ordered selections of 2-3 of 8 index patterns of one rank-2 array (exhaustive) "
                                             "+ random families of 2-4 rank-3 patterns", key=repr, shards=2)),
        ("reject-illformed-pipelines", Check("reject-illformed-pipelines", _dag_cases, _check_dag, RULE, shards=4,
                                             key=lambda c: repr(c))),
        ("reject-illformed-map-requests", Check("reject-illformed-map-requests", _map_cases, _check_map, RULE,
                                                describe=lambda c: {"program": progs.describe(c["prog"]),
                                                                    "fault": c["fault"], "target": c["target"]},
                                                key=lambda c: repr((progs.describe(c["prog"]), c["fault"], c["target"])),
                                                shards=12)),
    ]
