"""C19 - xarray datasets label results with the right dimensions and coordinates."""
from __future__ import annotations

import shutil
import tempfile

from rtc import progs
from specs import mapspec_ref as ref
from vf.bounded import Check

ID = "C19"
LEVEL = "exploration"
LEVEL_TEXT = ("Bounded contract on the real xarray_dataset_from_results / load_xarray_dataset over generated map "
              "programs with 1-D / 2-D inputs of distinct values: both entry points return identical datasets; every "
              "MapSpec output with inputs is a variable whose dims are its MapSpec axes in order and whose values equal "
              "the reference denotation; every 1-D root input mapped along an axis is a coordinate on exactly that axis "
              "with the input's values (zipped inputs: one multi-index); outputs without MapSpec are dimensionless / "
              "plain variables; selecting by coordinate value returns the element computed from that input value. "
              "xarray/pandas objects are outside the proof rung, so the labelling itself is decided by this bounded exploration "
              "('exploration'); what is discharged deductively is the wiring of the two entry points, listed next.")
LEVEL_TEXT += (" Proved part (pyvc): _data_loader - the only place where the two entry points differ: given the results of a run it hands out that run's output, otherwise what load_outputs reads from the folder (load_outputs is an assumed contract; that both hold the same values is C04).")
LEVEL_TEXT += (" Also proved: pipefunc.map.xarray.load_xarray_dataset (the dataset of a folder is _xarray_dataset on the given MapSpecs and inputs with the loader that reads each value from the folder, for the requested output names or - without a request - all recorded ones, sorted), relative to assumed pure contracts of RunInfo.load, sorted, functools.partial and _xarray_dataset.")
LEVEL_TEXT += (" And its twin xarray_dataset_from_results (the same _xarray_dataset construction on the pipeline's MapSpecs, defaults | inputs - in this order: given inputs win -, the loader that reads from the results, and all result names, sorted).")
LEVEL_NOTE = ("Bounds: programs of 1..3 functions, rank<=2, sizes 1..3, load_intermediate on/off, inputs supplied or "
              "taken from (array) defaults. Trusted: reference denotation rtc/progs.py, xarray.")
TECHNIQUE = ("bounded contract checking of the dataset labelling against the reference denotation; the loader "
             "_data_loader (the one place where the two entry points differ) discharged by z3")
TECHNIQUE += ('; load_xarray_dataset (map/xarray.py) and xarray_dataset_from_results discharged by z3')
EXPLANATION = LEVEL_TEXT
RULE = ("program x load_intermediate; distinct = distinct (program, flag); non-trivial = a mapped output with >=2 elements")
TRUSTED_BASE = ["reference denotation rtc/progs.py", "xarray / pandas", "pyvc/z3 for _data_loader"]
ASSUMPTIONS = ["input values are distinct strings"]


def registry():
    return {}


def proof_items():
    from contracts import small
    from vf.driver import ProofItem
    # xarray_dataset_from_results and load_xarray_dataset differ only in where a value is read from
    return [ProofItem(small.data_loader, gen=small.dl_gen, call=small.dl_call,
                      registry=lambda: {**{c.short: c for c in small.DATA_LOADER}, **{c.name: c for c in small.DATA_LOADER}}),
            # the dataset of a folder: the same construction (_xarray_dataset) with the folder's loader and the requested -
            # or, without a request, all recorded - output names
            ProofItem(small.xr_load_dataset, gen=small.xl_gen, call=small.xl_call,
                      registry=lambda: {**{c.short: c for c in small.XR_LOAD}, **{c.name: c for c in small.XR_LOAD}}),
            # ... and the twin: the same construction on the pipeline's MapSpecs, defaults | inputs and the results' loader
            ProofItem(small.xr_from_results, gen=small.xf_gen, call=small.xf_call,
                      registry=lambda: {**{c.short: c for c in small.XR_FROM}, **{c.name: c for c in small.XR_FROM}})]


def _cases(tier, rng):
    n = 1500 if tier == "quick" else 15000
    for _ in range(n):
        prog = progs.gen_map_program(rng, n_funcs=rng.randint(1, 3), allow_generator=(rng.random() < 0.5),
                                     sizes_pool=(1, 2, 3) if rng.random() < 0.7 else (2, 2, 3))
        yield {"prog": prog, "load_intermediate": rng.random() < 0.6, "rerun": rng.random() < 0.25,
               "storage": rng.choice(("file_array", "file_array", "dict")), "archive": rng.random() < 0.5}
    # several outputs without a MapSpec that are plain arrays of different shapes (each needs dimensions of its own)
    for shapes in (((3, 3), (2, 3)), ((2, 2), (2, 2)), ((2, 3), (3,)), ((1, 2), (2, 1))):
        prog = {"funcs": [{"name": f"f{k}", "params": [], "outputs": [nm], "spec": None, "internal": shp,
                           "plain_array": True, "as_list": False} for k, (nm, shp) in enumerate(zip("ab", shapes))]
                + [{"name": "f2", "params": ["x"], "outputs": ["c"], "internal": None,
                    "spec": {"inputs": [("x", ("i",))], "outputs": [("c", ("i",))]}}],
                "inputs": {"x": {"shape": (2,), "kind": "ndarray"}}, "sizes": {"i": 2}}
        for li in (True, False):
            yield {"prog": prog, "load_intermediate": li, "rerun": False, "storage": "file_array"}
    # intermediates that are produced by the pipeline itself (generator functions without mapped inputs) and consumed
    # downstream, with and without loading intermediates: such an array is a coordinate only if it may be loaded
    want, tries = (16 if tier == "quick" else 160), 0
    while want and tries < 20000:
        tries += 1
        prog = progs.gen_map_program(rng, n_funcs=rng.randint(2, 3), allow_generator=True,
                                     sizes_pool=(2, 2, 3))
        gens = {o for f in prog["funcs"] if f.get("spec") and not f["spec"]["inputs"] for o in f["outputs"]}
        if not any(p_ in gens for f in prog["funcs"] if f.get("spec") and f["spec"]["inputs"] for p_ in f["params"]):
            continue
        want -= 1
        yield {"prog": prog, "load_intermediate": want % 2 == 0, "rerun": False}


def _root_coord_expectations(prog):
    """{input name: (axis, values)} for 1-D root inputs that are mapped along a named axis by some function whose
    every use of that input names the axis."""
    out = {}
    for name, desc in prog["inputs"].items():
        shape = desc.get("shape")
        if shape is None or len(shape) != 1:
            continue
        axes = {ax[0] for f in prog["funcs"] if f.get("spec") for n, ax in f["spec"]["inputs"] if n == name}
        if len(axes) == 1 and None not in axes:
            vals = desc["default"] if desc.get("omit") else progs.nested_input(name, desc)
            out[name] = (axes.pop(), vals)
    return out


def _ds_summary(ds):
    out = {"vars": {}, "coords": {}}
    for k in ds.data_vars:
        out["vars"][str(k)] = (list(map(str, ds[k].dims)), progs.xr_nested(ds[k].values))
    for k in ds.coords:
        c = ds.coords[k]
        out["coords"][str(k)] = (list(map(str, c.dims)), [str(x) for x in c.values.tolist()] if c.ndim == 1 else "nd")
    return out


def _second_run_same_folder(p, prog, folder, li, storage="file_array", first=None):
    """A run folder is reused by a second run with other input values (same shapes): the dataset loaded afterwards
    belongs to the second run, and again agrees with the dataset built from its results."""
    import numpy as np
    from pipefunc.map import load_xarray_dataset
    from pipefunc.map.xarray import xarray_dataset_from_results
    inputs2 = {}
    for n, v in progs.real_inputs(prog).items():
        if isinstance(v, np.ndarray):
            w = np.empty(v.shape, dtype=object)
            for idx in np.ndindex(v.shape):
                w[idx] = f"{v[idx]}'"
            inputs2[n] = w
        elif isinstance(v, list):
            def prime(x):
                return [prime(y) for y in x] if isinstance(x, list) else f"{x}'"
            inputs2[n] = prime(v)
        else:
            inputs2[n] = f"{v}'"
    archive = None
    if first is not None:  # the first run is kept under another name before its path is reused
        archive = folder.rstrip("/") + "_archived"
        shutil.copytree(folder, archive)
    try:
        res2 = p.map(inputs2, run_folder=folder, parallel=False, storage=storage, **progs.map_kwargs(prog))
        a = _ds_summary(xarray_dataset_from_results(inputs2, res2, p, load_intermediate=li))
        b = _ds_summary(load_xarray_dataset(run_folder=folder, load_intermediate=li))
    except Exception as e:  # noqa: BLE001
        return [f"second run into the same folder: {type(e).__name__}: {str(e)[:140]}"]
    if a != b:
        d = {k: (a["vars"].get(k), b["vars"].get(k)) for k in set(a["vars"]) | set(b["vars"]) if a["vars"].get(k) != b["vars"].get(k)}
        return [f"after a second run into the same folder load_xarray_dataset does not show that run: {str(d)[:260]}"]
    if archive is not None:
        # whichever run the archived copy resolves to: its values and its labels belong to one and the same run, and
        # looking at it does not change what the reused folder shows
        try:
            c = _ds_summary(load_xarray_dataset(run_folder=archive, load_intermediate=li))
            b2 = _ds_summary(load_xarray_dataset(run_folder=folder, load_intermediate=li))
        except Exception as e:  # noqa: BLE001
            return [f"loading the archived copy of the first run: {type(e).__name__}: {str(e)[:140]}"]
        finally:
            shutil.rmtree(archive, ignore_errors=True)
        if c != first and c != a:
            return [f"the archived copy of the first run shows a dataset that is neither run's: coords {str(c['coords'])[:120]} "
                    f"vars {str(c['vars'])[:160]}"]
        if b2 != a:
            return ["after the archived copy was loaded, the reused folder no longer shows its own (second) run"]
    return []


def _check(case):
    from pipefunc.map import load_xarray_dataset
    from pipefunc.map.xarray import xarray_dataset_from_results
    prog, li = case["prog"], case["load_intermediate"]
    want, _ = progs.denote(prog)
    folder = tempfile.mkdtemp(prefix="vf_c19_")
    bad = []
    try:
        p = progs.build_pipeline(prog)
        progs.set_log(None)
        inputs = progs.real_inputs(prog)
        try:
            res = p.map(inputs, run_folder=folder, parallel=False, storage=case.get("storage", "file_array"),
                        **progs.map_kwargs(prog))
        except Exception as e:  # noqa: BLE001
            return [f"map raised {type(e).__name__}"]
        try:
            ds1 = xarray_dataset_from_results(inputs, res, p, load_intermediate=li)
        except Exception as e:  # noqa: BLE001
            return [f"xarray_dataset_from_results raised {type(e).__name__}: {str(e)[:160]}"]
        try:
            ds2 = load_xarray_dataset(run_folder=folder, load_intermediate=li)
        except Exception as e:  # noqa: BLE001
            return [f"load_xarray_dataset raised {type(e).__name__}: {str(e)[:160]}"]
        s1, s2 = _ds_summary(ds1), _ds_summary(ds2)
        if s1 != s2:
            d = {k: (s1["vars"].get(k), s2["vars"].get(k)) for k in set(s1["vars"]) | set(s2["vars"])
                 if s1["vars"].get(k) != s2["vars"].get(k)}
            c = {k: (s1["coords"].get(k), s2["coords"].get(k)) for k in set(s1["coords"]) | set(s2["coords"])
                 if s1["coords"].get(k) != s2["coords"].get(k)}
            bad.append(f"the two entry points disagree: vars {str(d)[:200]} coords {str(c)[:200]}")
        present = {**s1["vars"], **{k: v for k, v in s1["coords"].items()}}
        for f in prog["funcs"]:
            spec = f.get("spec")
            for o in f["outputs"]:
                if spec and spec["inputs"]:
                    axes = list(dict(spec["outputs"])[o])
                    if o in s1["vars"]:
                        dims, vals = s1["vars"][o]
                        if dims != axes:
                            bad.append(f"variable {o}: dims {dims} != MapSpec axes {axes}")
                        if vals != want[o]:
                            bad.append(f"variable {o}: values differ from the map result")
                    elif o not in s1["coords"]:
                        bad.append(f"MapSpec output {o} is neither a variable nor a coordinate")
                elif o not in s1["vars"] and o not in s1["coords"]:
                    bad.append(f"output {o} (no MapSpec inputs) is missing from the dataset")
                elif spec and o in s1["vars"]:
                    # a MapSpec output whose axes are all supplied by the function ("... -> x[i]"): still a MapSpec output
                    axes = list(dict(spec["outputs"])[o])
                    dims, vals = s1["vars"][o]
                    if dims != axes:
                        bad.append(f"variable {o} (MapSpec '... -> {o}[{', '.join(axes)}]'): dims {dims} != MapSpec axes {axes}")
                    elif o in want and progs.fz(vals) != progs.fz(want[o]):
                        bad.append(f"variable {o}: values differ from the map result")
                elif spec and o in s1["coords"]:
                    # ... consumed downstream it may serve as the coordinate of its axis: then on exactly that axis
                    axes = list(dict(spec["outputs"])[o])
                    if s1["coords"][o][0] != axes:
                        bad.append(f"MapSpec output {o} ('... -> {o}[{', '.join(axes)}]') is a coordinate on "
                                   f"{s1['coords'][o][0]}, its MapSpec axes are {axes}")
                elif o in s1["vars"] and not spec and o in want and not any(
                        n == o for g in prog["funcs"] if g.get("spec") for n, _ in g["spec"]["inputs"]):
                    # (an array indexed by a later MapSpec gets a generated MapSpec of its own and is not such an output)
                    # an output without a MapSpec: dimensionless, or a plain array with the value's own rank
                    dims, vals = s1["vars"][o]
                    rank = len(f["internal"]) if f.get("plain_array") and not f.get("as_list") else 0
                    if len(dims) != rank:
                        bad.append(f"output {o} without a MapSpec has dims {dims}, its value has rank {rank}")
                    if progs.fz(vals) != progs.fz(want[o]):
                        bad.append(f"output {o} without a MapSpec: {progs.fz(vals)[:80]} != value of the run {progs.fz(want[o])[:80]}")
        # a coordinate named like an array of the program must carry that array's values
        for k, (dims, cv) in s1["coords"].items():
            if ":" in k or cv == "nd":
                continue
            ref_vals = want.get(k)
            if ref_vals is None and k in prog["inputs"]:
                d_ = prog["inputs"][k]
                ref_vals = d_["default"] if d_.get("omit") else progs.nested_input(k, d_)
            if isinstance(ref_vals, list) and ref_vals and not isinstance(ref_vals[0], list):
                if cv != [str(v) for v in ref_vals]:
                    bad.append(f"coordinate {k} = {cv} but the array {k} of the run is {ref_vals}")
        # coordinates from 1-D root inputs
        exp = _root_coord_expectations(prog)
        used_axes = {a for f in prog["funcs"] if f.get("spec") and f["spec"]["inputs"] for o in f["outputs"]
                     for a in dict(f["spec"]["outputs"])[o]}
        for name, (axis, vals) in exp.items():
            if axis not in used_axes:
                continue
            hits = [(k, v) for k, v in s1["coords"].items() if k == name or name in k.split(":")]
            if not hits:
                # a coordinate may legitimately be absent only when no variable of the dataset carries the axis
                if any(axis in dims for dims, _ in s1["vars"].values()):
                    bad.append(f"1-D root input {name} mapped along {axis} is not a coordinate")
                continue
            k, (dims, cv) = hits[0]
            if dims != [axis]:
                bad.append(f"coordinate {k} is on {dims}, expected exactly [{axis}]")
            if ":" not in k and cv != [str(v) for v in vals]:
                bad.append(f"coordinate {name} = {cv} but the run used {vals}")
            # selecting by coordinate value returns the element computed from that input value
            if ":" not in k:
                for o, (odims, ovals) in s1["vars"].items():
                    if axis in odims and len(vals) >= 1:
                        v0 = vals[-1]
                        try:
                            sel = ds1[o].sel({name: v0})
                        except Exception as e:  # noqa: BLE001
                            bad.append(f"ds[{o}].sel({name}={v0!r}) raised {type(e).__name__}")
                            break
                        # the element(s) at the position of v0 along that axis
                        pos = len(vals) - 1
                        ax_i = odims.index(axis)

                        def take(nested, depth=0):
                            if depth == ax_i:
                                return nested[pos]
                            return [take(x, depth + 1) for x in nested]
                        expect = take(ovals)
                        if progs.xr_nested(sel.values) != expect and progs.fz(sel.values) != progs.fz(expect):
                            bad.append(f"ds[{o}].sel({name}={v0!r}) returned {progs.fz(sel.values)[:100]}, the element "
                                       f"computed from that input value is {progs.fz(expect)[:100]}")
                        break
        if not bad and case.get("rerun"):
            bad += _second_run_same_folder(p, prog, folder, li, case.get("storage", "file_array"),
                                           first=s2 if case.get("archive") else None)
        return bad[:6]
    finally:
        shutil.rmtree(folder, ignore_errors=True)


def _describe(case):
    return {"program": progs.describe(case["prog"]), "load_intermediate": case["load_intermediate"]}


def bounded_checks():
    return [("xarray-labelling", Check("xarray-labelling", _cases, _check, RULE, describe=_describe,
                                       key=lambda c: repr(_describe(c)), shards=12,
                                       nontrivial=lambda c: any(max(d.get("shape", (1,)), default=1) >= 2
                                                                for d in c["prog"]["inputs"].values())))]
