"""C10 - Structural rewrites preserve what a pipeline computes."""
from __future__ import annotations

import copy as _copy
import random

from rtc import dag, progs
from vf.bounded import Check

ID = "C10"
LEVEL = "exploration"
LEVEL_TEXT = ("Bounded relational contracts, one per rewrite R in {copy, pickle round-trip, join, |, update_renames, "
              "update_scope and its removal, nest_funcs, simplified_pipeline, split_disconnected, add_mapspec_axis}: "
              "for every retained output and input, R(p) computes the reference value of p up to the stated renaming, "
              "under pipeline(...) with both scoped calling conventions; add_mapspec_axis lifts the pipeline pointwise; "
              "operations returning a new pipeline leave the original's behaviour unchanged and a later mutation of "
              "either does not affect the other. The rewrites are object-graph surgery on PipeFunc/Pipeline/networkx "
              "objects (copy constructors, weak sets, cached-property invalidation, pickling): no contract within the "
              "proof rung can carry them ('exploration'). Proved part (pyvc): only the leaf _axes_from_dims of "
              "add_mapspec_axis (one ':' per existing dimension of the parameter but one, then the new axis).")
LEVEL_TEXT += (" Also proved: _NestedFuncWrapper.__call__ (nest_funcs / NestedPipeFunc: the wrapper hands out the inner pipeline's values by name - for several output names the tuple of their values in the order of the names, which is what the positional output picker of the nest relies on; the inner pipeline's function is an assumed contract).")
LEVEL_NOTE = ("Bounds: DAGs of 1..4 functions (tuple outputs, defaults, bound values, renames); compositions of <=2 "
              "rewrites; mutations update_defaults / update_bound. Trusted: reference evaluator rtc/dag.py.")
LEVEL_NOTE += (' Rewritten pipelines are compared under pipeline(...) and under map (every function called once on whole values); in-place renamings that permute root-argument names are applied to cached pipelines after every output was computed once.')
TECHNIQUE = ("bounded relational contract checking of each rewrite against the reference evaluator; leaf "
             "_axes_from_dims discharged by z3")
TECHNIQUE += ('; _NestedFuncWrapper.__call__ discharged by z3')
EXPLANATION = LEVEL_TEXT
RULE = ("random DAG x rewrite (x second rewrite) x every retained output; distinct = distinct (DAG, rewrites); "
        "non-trivial = >=2 functions")
TRUSTED_BASE = ["reference evaluator rtc/dag.py", "cloudpickle"]
ASSUMPTIONS = ["user functions deterministic"]

REWRITES = ["copy", "pickle", "join", "or", "update_renames", "update_renames", "renames-original", "scope", "scope-partial", "scope-partial",
            "scope-refused",
            "scope-and-remove", "nest", "nest-all", "simplify", "split_disconnected"]


def registry():
    from contracts import misc
    return {**{c.short: c for c in misc.ALL}, **{c.name: c for c in misc.ALL}}


def proof_items():
    from contracts import misc
    from vf.driver import ProofItem
    # add_mapspec_axis: a parameter without a MapSpec gets ':' for each of its existing dimensions, then the new axis
    from contracts import mapspec as cm
    from contracts import nested
    ms_reg = lambda: {**{c.short: c for c in cm.ALL}, **{c.name: c for c in cm.ALL}}  # noqa: E731
    return [ProofItem(misc.axes_from_dims, gen=misc.afd_gen),
            # ... and every array of a function that already has a MapSpec gets the new axis appended (duplicates refused)
            ProofItem(cm.arrayspec_add_axes, gen=cm.add_axes_gen, call=cm.add_axes_call, registry=ms_reg),
            ProofItem(cm.mapspec_add_axes, gen=cm.ms_add_axes_gen, call=cm.add_axes_call, registry=ms_reg),
            # update_renames on a function with a MapSpec: a simultaneous renaming of its arrays
            ProofItem(cm.mapspec_rename, gen=cm.rename_gen, registry=ms_reg),
            # nest_funcs: the wrapper hands out the inner pipeline's values by name, in the order of the output names
            ProofItem(nested.wrapper_call, gen=nested.gen, call=nested.call,
                      registry=lambda: {**{c.short: c for c in nested.ALL}, **{c.name: c for c in nested.ALL}})]


def _cases(tier, rng):
    n = 4000 if tier == "quick" else 40000
    for _ in range(n):
        d = dag.gen_dag(rng, rng.randint(1, 4))
        r1 = rng.choice(REWRITES)
        r2 = rng.choice(REWRITES + [None, None]) if rng.random() < 0.4 else None
        r3 = rng.choice(REWRITES) if r2 and rng.random() < 0.4 else None
        yield {"dag": d, "rewrites": [r for r in (r1, r2, r3) if r], "seed": rng.randrange(10**6),
               "mutate": rng.choice((None, "update_defaults", "update_bound", "update_defaults-on-new", "update_defaults-on-new"))}
    # compositions of three in which a combined function is renamed / scoped and the result rewritten again
    for _ in range(n // 20):
        d = dag.gen_dag(rng, rng.randint(2, 4))
        yield {"dag": d, "rewrites": [rng.choice(("nest", "nest-all")), rng.choice(("update_renames", "update_renames", "scope")),
                                      rng.choice(("copy", "join", "or", "update_renames", "pickle"))],
               "seed": rng.randrange(10**6), "mutate": None}
    # defaults that were updated on a (rewritten) pipeline travel with it: calls that leave defaulted root arguments out
    # must use the updated values after every further rewrite (update-defaults is an in-place step between rewrites)
    for _ in range(n // 10):
        d = dag.gen_dag(rng, rng.randint(2, 4), allow_bound=False)
        if not dag.shared_defaults(d):
            continue
        yield {"dag": d, "rewrites": [rng.choice(("nest", "nest-all", "copy", "simplify", "scope")), "update-defaults",
                                      rng.choice(("copy", "pickle", "nest", "join", "scope-and-remove", "update_renames"))],
               "seed": rng.randrange(10**6), "mutate": None, "omit_defaults": True}
        yield {"dag": d, "rewrites": [rng.choice(("pickle", "copy", "pickle", "join")), "update-defaults-fn"]
               + ([rng.choice(("copy", "pickle"))] if rng.random() < 0.4 else []),
               "seed": rng.randrange(10**6), "mutate": None, "omit_defaults": True}
    # larger pipelines for the rewrites that combine functions (several combinable groups need >= 5 functions)
    for _ in range(n // 2):
        d = dag.gen_dag(rng, rng.randint(4, 6), allow_multi=rng.random() < 0.3, allow_nullary=False)
        yield {"dag": d, "rewrites": [rng.choice(("simplify", "simplify", "nest"))], "seed": rng.randrange(10**6),
               "mutate": None}


def _other(rng, tag):
    """A second, disjoint pipeline (names suffixed)."""
    d2 = dag.gen_dag(rng, rng.randint(1, 2), allow_renames=False, allow_defaults=False, allow_bound=False)
    ren = {}
    for f in d2["funcs"]:
        f["name"] = f["name"] + tag
        f["outputs"] = [o + tag for o in f["outputs"]]
    outs = {o[: -len(tag)] for f in d2["funcs"] for o in f["outputs"]}
    for f in d2["funcs"]:
        f["params"] = [(p + tag) if p in outs else (p + tag) for p in f["params"]]
    return d2


def apply_rewrite(name, p, d, names, rng):
    """-> (list of pipelines, names) where names maps original names -> current names; raises NotApplicable."""
    import cloudpickle
    if name == "copy":
        return [p.copy()], names
    if name == "pickle":
        return [cloudpickle.loads(cloudpickle.dumps(p))], names
    if name in ("join", "or"):
        d2 = _other(rng, f"_o{rng.randrange(10**6)}")
        p2 = dag.build(d2)
        return [p.join(p2) if name == "join" else (p | p2)], names
    if name in ("update-defaults", "update-defaults-fn"):
        # in place, on the pipeline as it is now: every root argument that has a default gets a new one.  The description
        # `d` of what the pipeline computes is updated with it (every function that takes the argument gets the default).
        cur_defaults = dict(p.defaults)
        if not cur_defaults:
            raise NotApplicable
        inv = {v: k for k, v in names.items()}
        upd = {}
        for cur_name in sorted(cur_defaults):
            orig = inv.get(cur_name, cur_name)
            if orig in dag.ROOTS:
                upd[cur_name] = f"UPD_{orig}"
        if not upd:
            raise NotApplicable
        if name == "update-defaults":
            p.update_defaults(upd)
        else:  # the same update made function by function (a pipeline follows what is done to its functions)
            for f in p.functions:
                mine = {k: v for k, v in upd.items() if k in f.parameters and k not in f.bound}
                if mine:
                    f.update_defaults(mine)
        for cur_name, val in upd.items():
            orig = inv.get(cur_name, cur_name)
            for f in d["funcs"]:
                if orig in f["params"] and orig not in f.get("bound", {}):
                    f.setdefault("defaults", {})[orig] = val
        return [p], names
    if name == "update_renames":
        q = p.copy()
        cur = set(q.all_output_names) | set(q.topological_generations.root_args)
        pick = [n for n in sorted(cur) if rng.random() < 0.5 and "." not in n] or sorted(cur)[:1]
        ren = {n: n + "_r" for n in pick}
        q.update_renames(ren, update_from="current")
        inv = {v: k for k, v in names.items()}
        return [q], {inv.get(k, k): v for k, v in {**{v: v for v in names.values()}, **ren}.items()} | \
            {k: ren.get(v, v) for k, v in names.items()}
    if name == "renames-original":
        # rename by *original* name (update_from="original"): whatever the current name of an output is (it may have
        # been renamed before), the key is the name the function was created with.  Only names that are original
        # everywhere are used: every output, and root parameters that no function receives under another own name.
        q = p.copy()
        elig = [o for o in dag.all_outputs(d)] + [r for r in dag.ROOTS if any(r in f["params"] for f in d["funcs"])
                                                   and all(f.get("orig", {}).get(r, r) == r for f in d["funcs"])]
        present = set(q.all_output_names) | set(q.topological_generations.root_args)
        elig = [n for n in elig if all(f.get("orig", {}).get(n, n) == n for f in d["funcs"] if n in f["params"])
                and "." not in names.get(n, n) and names.get(n, n) in present]
        if any(type(f).__name__ == "NestedPipeFunc" for f in q.functions):
            raise NotApplicable  # the original names of a nest are those of the nest, not of the functions inside
        pick = [n for n in elig if rng.random() < 0.5] or elig[:1]
        if not pick:
            raise NotApplicable
        ren = {n: n + "_q" for n in pick}
        q.update_renames(ren, update_from="original")
        return [q], {k: ren.get(k, v) for k, v in names.items()}
    if name in ("scope", "scope-and-remove"):
        q = p.copy()
        # a scope may share a prefix with existing names ("a" vs "ab"): only "<scope>." marks a name as scoped
        cur = sorted(set(names.values()))
        sc = rng.choice(["sc", "sc", rng.choice(cur).split(".")[-1][:1], rng.choice(cur).split(".")[-1]])
        if any(v.startswith(sc + ".") for v in cur) or sc in {v.split(".")[-1] for v in cur} or not sc.isidentifier():
            sc = "sc"  # (a scope equal to a parameter/output name is refused by the library)
        q.update_scope(sc, inputs="*", outputs="*")
        if name == "scope-and-remove":
            q.update_scope(None, inputs="*", outputs="*")
            return [q], {k: v.split(".")[-1] for k, v in names.items()}
        return [q], {k: sc + "." + v.split(".")[-1] for k, v in names.items()}
    if name == "scope-refused":
        # a scope that is also the name of an output is refused; the pipeline it was tried on stays what it was
        q = p.copy()
        outs = [o for f in q.functions[1:] for o in (f.output_name if isinstance(f.output_name, tuple) else (f.output_name,))
                if "." not in o]
        if not outs:
            raise NotApplicable
        try:
            q.update_scope(rng.choice(outs), inputs="*", outputs="*")
        except ValueError:
            return [q], names  # (refused: q must still be the pipeline p was)
        raise NotApplicable  # (accepted after all: nothing to demand here)
    if name == "scope-partial":
        # explicit input sets: one or two different scopes for disjoint sets of root arguments; names of intermediates
        # listed among the inputs are not inputs of the pipeline and are left alone
        q = p.copy()
        roots = sorted(r for r in q.topological_generations.root_args if "." not in r)
        inter = sorted(o for o in q.all_output_names if "." not in o)
        if not roots:
            raise NotApplicable
        rng.shuffle(roots)
        k = rng.randint(1, len(roots))
        s1, rest = roots[:k], roots[k:]
        ren = {r: "sa." + r for r in s1}
        q.update_scope("sa", inputs=set(s1) | set(rng.sample(inter, min(len(inter), rng.randint(0, 2)))))
        if rest and rng.random() < 0.7:
            s2 = rest[:rng.randint(1, len(rest))]
            q.update_scope("sb", inputs=set(s2))
            ren.update({r: "sb." + r for r in s2})
        return [q], {k_: ren.get(v, v) for k_, v in names.items()}
    if name in ("nest", "nest-all"):
        q = p.copy()
        outs = [f.output_name for f in q.functions]
        if len(outs) < 2 and name == "nest":
            raise NotApplicable
        if name == "nest-all":
            q.nest_funcs("*")
        else:
            k = rng.randint(2, len(outs))
            q.nest_funcs(set(rng.sample(outs, k)))
        return [q], names
    if name == "simplify":
        leaves = [f.output_name for f in p.leaf_nodes]
        tgt = rng.choice(leaves)
        return [p.simplified_pipeline(tgt if rng.random() < 0.8 or len(leaves) > 1 else None,
                                      conservatively_combine=rng.random() < 0.3)], names
    if name == "split_disconnected":
        return list(p.split_disconnected()), names
    raise ValueError(name)


class NotApplicable(Exception):
    pass


def _eval_all(pipes, d, names, scoped_dict=False, omit_defaults=False):
    """Evaluate every original output that is retained by one of the pipelines; -> {orig output: value or Exception}."""
    got = {}
    for o in dag.all_outputs(d):
        cur = names.get(o, o)
        for q in pipes:
            if cur in q.all_output_names:
                # supply what the *rewritten* pipeline requires for this output (a nest needs the inputs of the
                # whole nest); the values are those of the original root arguments
                inv = {v: k for k, v in names.items()}
                dflt = set(q.defaults)
                try:
                    roots = [r for r in q.root_args(cur)]
                except Exception:  # noqa: BLE001
                    roots = [names.get(r, r) for r in dag.needed_roots(d, o, set())]
                kw = {rc: f"v_{inv.get(rc, rc)}" for rc in roots
                      if not (rc in dflt and (omit_defaults or inv.get(rc, rc) not in dag.needed_roots(d, o, set())))}
                if scoped_dict:
                    nested: dict = {}
                    for k, v in kw.items():
                        if "." in k:
                            sc, nm = k.split(".", 1)
                            nested.setdefault(sc, {})[nm] = v
                        else:
                            nested[k] = v
                    kw = nested
                try:
                    got[o] = q(cur, **kw)
                except Exception as e:  # noqa: BLE001
                    got[o] = e
                break
    return got


def _map_all(pipes, d, names):
    """`map` of every pipeline on the original root values (under their current names); -> {orig output: value or
    Exception} for the retained outputs.  The functions carry no MapSpec here: map calls each of them once."""
    got = {}
    inv = {v: k for k, v in names.items()}
    for q in pipes:
        inputs = {rc: f"v_{inv.get(rc, rc)}" for rc in q.topological_generations.root_args}
        try:
            res = q.map(inputs, parallel=False, storage="dict")
        except Exception as e:  # noqa: BLE001
            res = e
        for o in dag.all_outputs(d):
            cur = names.get(o, o)
            if cur in q.all_output_names and o not in got:
                got[o] = res if isinstance(res, Exception) else res[cur].output
    return got


def _reference_all_roots(d):
    """Reference values when every root argument is given (what map does: defaults are overridden by inputs)."""
    out = {}
    roots = {prm for f in d["funcs"] for prm in f["params"] if prm in dag.ROOTS}
    for o in dag.all_outputs(d):
        try:
            out[o] = dag.refeval(d, o, {r: f"v_{r}" for r in roots})[0]
        except dag.NotComputable:
            pass
    return out


def _reference(d, omit_defaults=False):
    out = {}
    dflt = dag.shared_defaults(d) if omit_defaults else {}
    for o in dag.all_outputs(d):
        need = dag.needed_roots(d, o, set())
        try:
            out[o] = dag.refeval(d, o, {r: f"v_{r}" for r in need if r not in dflt})[0]
        except dag.NotComputable:
            pass
    return out


def _check(case):
    d = _copy.deepcopy(case["dag"])  # (update-defaults changes the description along with the pipeline)
    omit = bool(case.get("omit_defaults"))
    rng = random.Random(case["seed"])
    want = _reference(d, omit)
    try:
        p = dag.build(d)
    except Exception as e:  # noqa: BLE001
        return [f"construction raised {type(e).__name__}"]
    progs.set_log(None)
    base = _eval_all([p], d, {}, omit_defaults=omit)
    bad = []
    for o, v in want.items():
        if base.get(o) != v:
            return []  # the unrewritten pipeline already disagrees with the reference: C02's business
    names = {n: n for n in list(dag.all_outputs(d)) + list(dag.ROOTS)}
    pipes = [p]
    applied = []
    for r in case["rewrites"]:
        try:
            new, names2 = [], names
            for q in pipes:
                res, names2 = apply_rewrite(r, q, d, names2, rng)
                new += res
            pipes, names = new, names2  # (only when the rewrite applied to every part)
            applied.append(r)
        except NotApplicable:
            continue
        except ValueError as e:
            refusals = ("fully connected, no need to split", "should have only one leaf node", "at least two `PipeFunc`s",
                        "multiple leaf nodes", "No combinable nodes found", "Cannot simplify", "MapSpec")
            if any(m in str(e) for m in refusals):
                continue  # the rewrite states that it does not apply to this pipeline
            if "Inconsistent default values" in str(e) and dag.conflicting_defaults(d) and r in ("nest", "nest-all", "simplify"):
                continue  # consumers that disagree on the default of an argument cannot be put into one nest (C12 rule)
            bad.append(f"rewrite {r} (after {applied}) raised {type(e).__name__}: {str(e)[:160]}")
            return bad
        except Exception as e:  # noqa: BLE001
            if type(e).__name__ == "NetworkXUnfeasible":
                continue  # nesting a set of functions that is not closed under "between" would create a cycle
            bad.append(f"rewrite {r} (after {applied}) raised {type(e).__name__}: {str(e)[:160]}")
            return bad
    if not applied:
        return []
    if omit:
        if "update-defaults" not in applied and "update-defaults-fn" not in applied:
            return []
        want = _reference(d, True)  # (with the defaults as updated on the way)
        got = _eval_all(pipes, d, names, omit_defaults=True)
        for o, v in want.items():
            g = got.get(o)
            if o in got and isinstance(g, Exception):
                if "Inconsistent default values" in str(g):
                    continue
                bad.append(f"after {applied}: output {o} (defaulted arguments left out) raised {type(g).__name__}: {str(g)[:140]}")
            elif o in got and g != v:
                bad.append(f"after {applied}: output {o} with the defaulted arguments left out = {g!r}, the pipeline whose "
                           f"defaults were updated computes {v!r}")
        return bad[:6]
    got = _eval_all(pipes, d, names)
    retained = 0
    for o, v in want.items():
        if o not in got:
            continue
        retained += 1
        g = got[o]
        if isinstance(g, Exception):
            bad.append(f"after {applied}: output {o} raised {type(g).__name__}: {str(g)[:140]}")
        elif g != v:
            bad.append(f"after {applied}: output {o} = {g!r}, original computes {v!r}")
    if any(r in ("scope", "scope-partial") for r in applied) and "update_renames" not in applied:
        got2 = _eval_all(pipes, d, names, scoped_dict=True)
        for o, v in want.items():
            if o in got2 and (isinstance(got2[o], Exception) or got2[o] != v):
                bad.append(f"after {applied}: nested-dict calling convention: output {o} -> {str(got2[o])[:120]}")
    # ... and under map (each function is called once on whole values; every root argument is given)
    want_m = _reference_all_roots(d)
    base_m = _map_all([p], d, {})
    if all(not isinstance(base_m.get(o), Exception) and base_m.get(o) == v for o, v in want_m.items()):
        got_m = _map_all(pipes, d, names)
        for o, v in want_m.items():
            if o not in got_m:
                continue
            g = got_m[o]
            if isinstance(g, Exception):
                bad.append(f"after {applied}: map raised {type(g).__name__}: {str(g)[:140]} (output {o})")
            elif g != v:
                bad.append(f"after {applied}: under map output {o} = {g!r}, original computes {v!r}")
    lost = [o for o in want if o not in got and not any(r in ("nest", "nest-all", "simplify") for r in applied)]
    if lost:
        bad.append(f"after {applied}: outputs {lost} are no longer available")
    # the original is unchanged
    again = _eval_all([p], d, {})
    for o, v in want.items():
        if again.get(o) != v and not isinstance(again.get(o), Exception):
            bad.append(f"after {applied}: the ORIGINAL pipeline now computes {again.get(o)!r} for {o} (was {v!r})")
        elif isinstance(again.get(o), Exception):
            bad.append(f"after {applied}: the ORIGINAL pipeline now raises for {o}: {type(again[o]).__name__}")
    # a later mutation of one does not affect the other
    if case["mutate"] and not bad:
        bad += _independence(case, p, pipes, d, names, want, applied)
    return bad[:6]


def _independence(case, p, pipes, d, names, want, applied):
    bad = []
    if case["mutate"] == "update_defaults-on-new":
        # the other direction, through the ordinary (non-overwriting) update: a default changed on the NEW pipeline does
        # not reach the original.  Observed on calls that leave the defaulted arguments out.
        before = _eval_all([p], d, {}, omit_defaults=True)
        changed = False
        for q in pipes:
            upd = {k: "MUTATED" for k in q.defaults if "." not in k}
            if not upd:
                continue
            try:
                q.update_defaults(upd)
                changed = True
            except Exception:  # noqa: BLE001
                continue
        if not changed:
            return []
        # (observed on the original itself and on a fresh copy of it: a copy made now must not pick up the change either)
        after = _eval_all([p], d, {}, omit_defaults=True)
        try:
            after2 = _eval_all([p.copy()], d, {}, omit_defaults=True)
        except Exception as e:  # noqa: BLE001
            bad.append(f"after {applied}: update_defaults on the NEW pipeline, and the ORIGINAL can no longer be copied: "
                       f"{type(e).__name__}: {str(e)[:120]}")
            after2 = dict(before)
        for o in before:
            a, b2 = before[o], after2.get(o)
            if not isinstance(a, Exception) and not isinstance(b2, Exception) and a != b2:
                bad.append(f"after {applied}: update_defaults on the NEW pipeline changed what a later copy of the ORIGINAL "
                           f"computes for {o} (defaulted arguments left out): {a!r} -> {b2!r}")
        for o in before:
            a, b = before[o], after.get(o)
            if not isinstance(a, Exception) and not isinstance(b, Exception) and a != b:
                bad.append(f"after {applied}: update_defaults on the NEW pipeline changed the ORIGINAL's {o} (defaulted "
                           f"arguments left out): {a!r} -> {b!r}")
        return bad
    before_new = _eval_all(pipes, d, names)
    if case["mutate"] == "update_defaults":
        dflt = dag.shared_defaults(d)
        if not dflt:
            return []
        n = sorted(dflt)[0]
        try:
            p.update_defaults({n: "MUTATED"}, overwrite=True)
        except Exception:  # noqa: BLE001
            return []
    else:
        cands = [(f, prm) for f in d["funcs"] for prm in f["params"] if prm in f.get("bound", {})]
        if not cands:
            return []
        f, prm = cands[0]
        key = tuple(f["outputs"]) if len(f["outputs"]) > 1 else f["outputs"][0]
        try:
            p[key].update_bound({prm: "MUTATED"})
        except Exception:  # noqa: BLE001
            return []
    after_new = _eval_all(pipes, d, names)
    for o in before_new:
        a, b = before_new[o], after_new.get(o)
        if not isinstance(a, Exception) and not isinstance(b, Exception) and a != b:
            bad.append(f"after {applied}: mutating the ORIGINAL ({case['mutate']}) changed the new pipeline's {o}: {a!r} -> {b!r}")
    return bad


# ---- add_mapspec_axis ---------------------------------------------------------------------------------------------
def _axis_cases(tier, rng):
    for _ in range(250 if tier == "quick" else 2500):
        # (in composition with renames: functions that receive the parameter under another name of their own, and a
        # parameter renamed or scoped on the pipeline before it is lifted)
        d = dag.gen_dag(rng, rng.randint(1, 3), allow_renames=rng.random() < 0.5, allow_bound=False, allow_nullary=False)
        roots = sorted({prm for f in d["funcs"] for prm in f["params"] if prm in dag.ROOTS})
        if not roots:
            continue
        yield {"dag": d, "param": rng.choice(roots), "n": rng.choice((1, 2, 3)),
               "before": rng.choice((None, None, "update_renames", "update_scope")),
               # the lifted pipeline is itself a pipeline that can be rewritten: it must still lift pointwise afterwards
               "after": rng.choice((None, None, "nest-all", "nest-all", "copy", "pickle"))}


def _check_axis(case):
    d, prm, n = case["dag"], case["param"], case["n"]
    cur = prm  # the name of the parameter when it is lifted
    try:
        p = dag.build(d)
        if case.get("before") == "update_renames":
            cur = prm + "_r"
            p.update_renames({prm: cur}, update_from="current")
        elif case.get("before") == "update_scope":
            cur = "sc." + prm
            p.update_scope("sc", inputs={prm})
        p.add_mapspec_axis(cur, axis="k")
    except Exception as e:  # noqa: BLE001
        return [f"add_mapspec_axis raised {type(e).__name__}: {str(e)[:150]}"]
    after = case.get("after")
    if after and not (after == "nest-all" and (len(d["funcs"]) < 2 or case.get("before") == "update_scope")):
        try:
            if after == "nest-all":
                p.nest_funcs("*")
            elif after == "copy":
                p = p.copy()
            else:
                import cloudpickle
                p = cloudpickle.loads(cloudpickle.dumps(p))
        except Exception as e:  # noqa: BLE001
            # (stated refusals: several leaves, conflicting defaults, functions with and without a MapSpec in one nest)
            if not any(m in str(e) for m in ("should have only one leaf node", "Inconsistent default values", "multiple leaf",
                                             "Cannot combine a mix of None and MapSpec")):
                return [f"{after} after add_mapspec_axis raised {type(e).__name__}: {str(e)[:150]}"]
            after = None
    dflt = dag.shared_defaults(d)
    roots = sorted({q for f in d["funcs"] for q in f["params"] if q in dag.ROOTS})
    values = [f"{prm}{i}" for i in range(n)]
    inputs = {r: f"v_{r}" for r in roots if r != prm}
    inputs[cur] = list(values)
    progs.set_log(None)
    try:
        res = p.map(inputs, parallel=False, storage="dict")
    except Exception as e:  # noqa: BLE001
        return [f"map after add_mapspec_axis raised {type(e).__name__}: {str(e)[:150]}"]
    bad = []
    for o in dag.all_outputs(d):
        need = dag.needed_roots(d, o, set())
        depends = prm in need
        if o not in res:
            continue  # (an output inside a nest is no longer an output of the pipeline)
        got = progs.to_nested(res[o].output)
        if depends:
            if not isinstance(got, list) or len(got) != n:
                bad.append(f"{o} depends on {prm} but did not gain the axis: {str(got)[:100]}")
                continue
            for i, v in enumerate(values):
                kw = {r: f"v_{r}" for r in need if r != prm}
                kw[prm] = v
                want = dag.refeval(d, o, kw)[0]
                if got[i] != want:
                    bad.append(f"{o}[{i}] = {got[i]!r}, original pipeline for {prm}={v}: {want!r}")
        else:
            want = dag.refeval(d, o, {r: f"v_{r}" for r in need})[0]
            if got != want:
                bad.append(f"{o} does not depend on {prm} but changed: {str(got)[:100]} vs {want!r}")
    return bad[:5]


# ---- in-place rewrites of a pipeline that has a history (results cached by earlier calls) ----------------------------
def _history_cases(tier, rng):
    for _ in range(300 if tier == "quick" else 3000):
        d = dag.gen_dag(rng, rng.randint(1, 3), allow_nullary=False)
        roots = sorted({prm for f in d["funcs"] for prm in f["params"] if prm in dag.ROOTS})
        if len(roots) < 2:
            continue
        k = rng.randint(2, len(roots))
        cyc = rng.sample(roots, k)
        yield {"dag": d, "cache_type": rng.choice(("simple", "lru", "hybrid")),
               "perm": {a: b for a, b in zip(cyc, cyc[1:] + cyc[:1])}, "how": rng.choice(("pipeline", "pipeline", "functions"))}
        # ... the functions came into the pipeline through replace (each swapped for a copy of itself after the calls)
        yield {"dag": d, "cache_type": rng.choice(("simple", "lru", "hybrid")), "swapped_in": True,
               "perm": {a: b for a, b in zip(cyc, cyc[1:] + cyc[:1])}, "how": "functions"}
        # ... and a permutation of the names of outputs that no function consumes (the cache is keyed by output names too)
        consumed = {q for f in d["funcs"] for q in f["params"]}
        free = sorted(o for f in d["funcs"] if len(f["outputs"]) == 1 for o in f["outputs"] if o not in consumed)
        if len(free) >= 2:
            oc = rng.sample(free, rng.randint(2, len(free)))
            yield {"dag": d, "cache_type": rng.choice(("simple", "lru", "hybrid", "disk")),
                   "perm": {}, "out_perm": {a: b for a, b in zip(oc, oc[1:] + oc[:1])}, "how": "pipeline"}


def _check_history(case):
    """Calls warm the cache; then the root arguments are renamed in place by a permutation of their names (a -> b,
    b -> a): the pipeline obtained computes the original's values up to that renaming, for every input."""
    d, perm = case["dag"], case["perm"]
    names = [f["name"] for f in d["funcs"]]
    import shutil
    import tempfile
    out_perm = case.get("out_perm") or {}
    tmp = tempfile.mkdtemp(prefix="vf_c10h_") if case["cache_type"] == "disk" else None
    kw = {"cache_kwargs": {"cache_dir": tmp, "lru_shared": False}} if tmp else \
        ({"cache_kwargs": {"shared": False}} if case["cache_type"] in ("lru", "hybrid") else {})
    try:
        return _check_history_in(case, d, perm, out_perm, names, kw)
    finally:
        if tmp:
            shutil.rmtree(tmp, ignore_errors=True)


def _check_history_in(case, d, perm, out_perm, names, kw):
    try:
        p = dag.build(d, cache_type=case["cache_type"], cached=set(names), **kw)
    except Exception as e:  # noqa: BLE001
        return [f"construction raised {type(e).__name__}"]
    progs.set_log(None)
    outs = dag.all_outputs(d)
    for o in outs:  # history: every output once, on the inputs v_<root>
        try:
            got = p(o, **{r: f"v_{r}" for r in dag.needed_roots(d, o, set())})
            if got != dag.refeval(d, o, {r: f"v_{r}" for r in dag.needed_roots(d, o, set())})[0]:
                return []  # C02/C09's business
        except Exception:  # noqa: BLE001
            return []
    if case.get("swapped_in"):
        try:
            for f in list(p.functions):
                p.replace(f.copy())
        except Exception as e:  # noqa: BLE001
            if "Inconsistent default values" in str(e):
                return []  # replace = drop + add: without the producer its consumers disagree on a default (C12's rule)
            return [f"replacing a function by a copy of itself raised {type(e).__name__}: {str(e)[:150]}"]
    try:
        if case["how"] == "pipeline":
            p.update_renames({**perm, **out_perm}, update_from="current")
        else:
            for f in p.functions:
                ren = {a: b for a, b in perm.items() if a in f.parameters}
                if ren:
                    f.update_renames(ren, update_from="current")
    except Exception as e:  # noqa: BLE001
        if "Inconsistent default values" in str(e):
            return []  # a default that moves with one consumer's parameter onto a name with another default (C12 rule)
        return [f"update_renames({perm}) in place raised {type(e).__name__}: {str(e)[:150]}"]
    bad = []
    for o in outs:
        need = dag.needed_roots(d, o, set())
        # the root that was called r is now called perm[r]; it is given the value v_<its current name>
        cur = {r: perm.get(r, r) for r in need}
        try:
            want = dag.refeval(d, o, {r: f"v_{cur[r]}" for r in need})[0]
        except dag.NotComputable:
            continue
        try:
            got = p(out_perm.get(o, o), **{cur[r]: f"v_{cur[r]}" for r in need})
        except Exception as e:  # noqa: BLE001
            bad.append(f"after calls and update_renames({perm or out_perm}) in place: output {o} raised {type(e).__name__}: {str(e)[:120]}")
            continue
        if got != want:
            bad.append(f"after calls and update_renames({perm or out_perm}) in place ({case['cache_type']} cache): output {o} "
                       f"(now called {out_perm.get(o, o)}) = {got!r}, the original computes {want!r} for these inputs")
    return bad[:4]


def bounded_checks():
    return [
        ("inplace-renames-after-calls", Check("inplace-renames-after-calls", _history_cases, _check_history,
                                              "DAG x cache type x cyclic permutation of >= 2 root-argument names applied "
                                              "in place after every output was computed once", shards=2,
                                              nontrivial=lambda c: len(c["dag"]["funcs"]) >= 2)),
        ("rewrites-preserve-values", Check("rewrites-preserve-values", _cases, _check, RULE, shards=10,
                                           nontrivial=lambda c: len(c["dag"]["funcs"]) >= 2)),
        ("add_mapspec_axis-lifts-pointwise", Check("add_mapspec_axis-lifts-pointwise", _axis_cases, _check_axis,
                                                   "DAG x root parameter x axis length: every dependent output gains "
                                                   "the axis and slice n equals the original for p=p[n]", shards=4,
                                                   nontrivial=lambda c: len(c["dag"]["funcs"]) >= 2)),
    ]
