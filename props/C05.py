"""C05 - An interrupted map resumes to the uninterrupted result, redoing no stored work."""
from __future__ import annotations

import json
import os
import pickle
import shutil
import subprocess
import sys
import tempfile

from rtc import progs
from vf.bounded import Check
from vf.common import REPO, VERIF

ID = "C05"
LEVEL = "fault_enumeration"
LEVEL_TEXT = ("Fault enumeration on the real code: for generated programs every user-function call index is used as the "
              "raising call (and pairs of successive interruptions), and every open-for-write of the run folder is used "
              "as a kill point (process exit before the open) and as a torn write (half of the bytes written, then "
              "exit); the resumed map(cleanup=False) in a fresh process must succeed, equal the reference denotation and "
              "not recompute elements that were completely stored. The write primitives use the file system and "
              "cloudpickle, which the proof rung cannot model. Proved part (pyvc): _existing_and_missing_indices, "
              "the resume decision - for all arrays and masks, `missing` is exactly the increasing list of selected "
              "indices with some output absent and `existing` exactly those with every output stored (loop invariant "
              "over the spec function cnt; StorageBase.mask_linear is an assumed contract checked per backend under "
              "C07).")
LEVEL_TEXT += (" Also proved: how the result of a function without an element-wise MapSpec reaches the store - _single_dump_single_output (the entry of the output name holds the output afterwards, nothing else changes; KeyError / AssertionError exactly for a missing name or a storage array) and _dump_single_output (outputs found in the store are handed on unchanged; otherwise every output name gets the value picked for it, in order, and its entry holds it; _utils.dump is an assumed contract on the store view - its atomicity is the kill enumeration's business).")
LEVEL_TEXT += (" Also proved: equal_dicts (how map(cleanup=False) compares the new inputs / defaults with the recorded ones: other key sets or a comparable pair that differs -> False, else None if some pair could not be compared, else True), relative to _is_equal as an assumed partial relation and the assumed fact that dicts with equal key sets have equal len.")
LEVEL_TEXT += (" Also proved: _compare_to_previous_run_info (map(cleanup=False) is refused exactly when the folder holds a run description that cannot be read, or that differs in internal shapes, MapSpecs or shapes, or whose inputs / defaults are decidedly different; an undecided comparison continues), relative to assumed pure contracts of its callees.")
LEVEL_NOTE = ("Bounds: programs with <=8 user calls, storages file_array / dict / shared_memory_dict, sequential (and a "
              "thread pool for the raise faults). Not covered (N/A for this family): crashes inside mkdir/rmtree, "
              "durability without fsync, killing individual pool workers.")
TECHNIQUE = ("fault enumeration of the resume contract on the real code (raise points, kill points, torn writes); the "
             "resume decision _existing_and_missing_indices discharged by z3")
TECHNIQUE += ('; the store writes _single_dump_single_output / _dump_single_output discharged by z3')
TECHNIQUE += ('; equal_dicts discharged by z3')
TECHNIQUE += ('; _compare_to_previous_run_info discharged by z3')
EXPLANATION = LEVEL_TEXT
RULE = ("program x storage x fault; faults: raise at call k (all k), raise at k1 then k2, kill before the n-th "
        "open-for-write (all n), torn n-th write (all n); distinct = distinct (program, storage, fault); non-trivial = "
        "the fault hits after at least one completed call")
TRUSTED_BASE = ["reference denotation rtc/progs.py", "os._exit as the model of a process death", "cloudpickle"]
ASSUMPTIONS = ["user functions deterministic", "a file system whose rename is atomic"]


def registry():
    from contracts import misc
    return {**{c.short: c for c in misc.ALL}, **{c.name: c for c in misc.ALL}}


def proof_items():
    from contracts import small
    from contracts import misc
    from vf.driver import ProofItem
    # the resume decision: which elements are recomputed (missing) and which are kept (existing)
    from contracts import store
    sreg = lambda: {**{c.short: c for c in store.ALL}, **{c.name: c for c in store.ALL}}  # noqa: E731
    return [ProofItem(misc.existing_and_missing, gen=misc.em_gen, call=misc.em_call),
            # how the result of a function without an element-wise MapSpec reaches the store: the entry of every output
            # name holds the value picked for it (what a resumed run finds and does not recompute)
            ProofItem(store.single_dump_single_output, gen=store.sdso_gen, registry=sreg),
            ProofItem(store.dump_single_output, gen=store.dso_gen, registry=sreg),
            # ... and how it is read back: by a later function, and by a resumed run that decides what is already there
            ProofItem(store.load_from_store, gen=store.lfs_gen, call=store.lfs_call,
                      registry=lambda: {**{c.short: c for c in store.LOAD}, **{c.name: c for c in store.LOAD}}),
            # "re-running with the same inputs": how the new inputs / defaults are compared with the recorded ones
            ProofItem(small.equal_dicts, gen=small.ed_gen, call=small.ed_call,
                      registry=lambda: {**{c.short: c for c in small.EQUAL_DICTS}, **{c.name: c for c in small.EQUAL_DICTS}}),
            # ... and when the request is refused: exactly for an unreadable or different recorded run
            ProofItem(small.compare_to_previous, gen=small.cmp_gen, call=small.cmp_call,
                      registry=lambda: {**{c.short: c for c in small.COMPARE_PREVIOUS},
                                        **{c.name: c for c in small.COMPARE_PREVIOUS}})]


def _run_child(job):
    fd, path = tempfile.mkstemp(prefix="vf_c05_job_", suffix=".pickle")
    os.close(fd)
    try:
        job = dict(job, sys_path=[VERIF, REPO])
        with open(path, "wb") as fh:
            pickle.dump(job, fh)
        env = dict(os.environ, PYTHONDONTWRITEBYTECODE="1", PYTHONPATH=VERIF)
        cp = subprocess.run([sys.executable, "-m", "rtc.child_map", path], capture_output=True, text=True, timeout=180,
                            env=env, cwd=VERIF)
        for ln in cp.stdout.splitlines():
            if ln.startswith("RESULT"):
                return "ok", json.loads(ln[6:]), cp
            if ln.startswith("FAILED"):
                return "failed", json.loads(ln[6:]), cp
        return ("killed" if cp.returncode == 137 else "crashed"), {"rc": cp.returncode, "err": cp.stderr[-400:]}, cp
    finally:
        os.unlink(path)


def _read_calls(logfile):
    out = []
    if os.path.exists(logfile):
        for line in open(logfile):
            _, fname, tag = line.rstrip("\n").split("\t", 2)
            out.append((fname, tag))
    return out


def stored_calls(prog, folder, calls, storage):
    """Calls whose results are completely stored in the run folder right now (read off the folder)."""
    out = []
    outdir = os.path.join(folder, "outputs")
    for f in prog["funcs"]:
        mine = [c for c in calls if c[0] == f["name"]]
        mapped = bool(f.get("spec") and f["spec"]["inputs"])
        if mapped:
            if storage != "file_array":
                continue  # memory storages persist at the end of a run only
            for i, c in enumerate(mine):
                if all(os.path.isfile(os.path.join(outdir, o, f"__{i}__.pickle")) for o in f["outputs"]):
                    out.append(c)
        elif mine and all(os.path.isfile(os.path.join(outdir, f"{o}.cloudpickle")) for o in f["outputs"]):
            out.append(mine[0])
    return out


def _cases(tier, rng):
    n = 6 if tier == "quick" else 60
    q = 0
    while q < n:
        prog = progs.gen_map_program(rng, n_funcs=rng.randint(1, 3), allow_generator=False)
        _, calls = progs.denote(prog)
        if not 2 <= len(calls) <= 8:
            continue
        q += 1
        storages = ["file_array", "dict"] if tier == "quick" else ["file_array", "dict", "shared_memory_dict"]
        for st in storages:
            for k in range(len(calls)):
                yield {"prog": prog, "storage": st, "faults": [{"kind": "raise", "call": k}]}
            if len(calls) >= 3:
                k1 = rng.randrange(1, len(calls) - 1)
                yield {"prog": prog, "storage": st, "faults": [{"kind": "raise", "call": k1},
                                                               {"kind": "raise", "call": rng.randrange(0, len(calls) - k1)}]}
            yield {"prog": prog, "storage": st, "faults": [{"kind": "raise", "call": rng.randrange(len(calls))}],
                   "parallel": True}
        # kill points / torn writes: count the write events of an uninterrupted run first
        yield {"prog": prog, "storage": "file_array", "faults": "ENUM-KILLS"}
        # the same kill points when the folder is *reused*: it holds a complete earlier run of the same program given
        # other input values (the run under test starts with cleanup=True, is killed, and is resumed with cleanup=False)
        # (an input that pipefunc can compare with the earlier run's - a list or a scalar - is what tells the two runs apart)
        if any(not d.get("omit") and (d.get("kind") == "list" or "scalar" in d) for d in prog["inputs"].values()):
            yield {"prog": prog, "storage": ("file_array", "dict")[q % 2], "faults": "ENUM-KILLS-REUSED"}
        if q % 2 == 0:  # memory storages persist at the end of a run: the kill points are the writes of that persist
            yield {"prog": prog, "storage": "dict", "faults": "ENUM-KILLS"}
    want, tries = (3 if tier == "quick" else 30), 0
    while want and tries < 40000:
        tries += 1
        prog = progs.gen_map_program(rng, n_funcs=rng.randint(1, 2), allow_generator=False)
        _, calls = progs.denote(prog)
        if not 2 <= len(calls) <= 6 or not any(not d.get("omit") and (d.get("kind") == "list" or "scalar" in d)
                                               for d in prog["inputs"].values()):
            continue
        want -= 1
        yield {"prog": prog, "storage": ("file_array", "dict")[want % 2], "faults": "ENUM-KILLS-REUSED"}
    # a two-dimensional mapped output stored in a memory backend, killed while the arrays are persisted (an array that
    # is already persisted is read back element by element, by linear index, on resume)
    si, sj = (2, 3) if rng.random() < 0.5 else (3, 2)
    prog = {"funcs": [
        {"name": "f0", "params": ["x", "y"], "outputs": ["a"], "internal": None,
         "spec": {"inputs": [("x", ("i",)), ("y", ("j",))], "outputs": [("a", ("i", "j"))]}},
        {"name": "f1", "params": ["a"], "outputs": ["c"], "internal": None,
         "spec": {"inputs": [("a", ("i", "j"))], "outputs": [("c", ("i", "j"))]}}],
        "inputs": {"x": {"shape": (si,), "kind": "ndarray"}, "y": {"shape": (sj,), "kind": "list"}},
        "sizes": {"i": si, "j": sj}}
    yield {"prog": prog, "storage": "dict", "faults": "ENUM-KILLS"}
    # quota: a function without a MapSpec whose (single) output is a list, stored before the failure of a later call
    want, tries = (4 if tier == "quick" else 40), 0
    while want and tries < 40000:
        tries += 1
        prog = progs.gen_map_program(rng, n_funcs=rng.randint(2, 3), allow_generator=False)
        _, calls = progs.denote(prog)
        fs = prog["funcs"]
        kind = True if want % 2 else "tuple"  # list-valued and tuple-valued outputs alternate
        if not 2 <= len(calls) <= 8 or not any(f.get("plain_array") and f.get("as_list") == kind and len(f["outputs"]) == 1
                                               for f in fs[:-1]):
            continue
        want -= 1
        for st in ("file_array", "dict"):
            for k in range(1, len(calls)):
                yield {"prog": prog, "storage": st, "faults": [{"kind": "raise", "call": k}]}


    # quota: one internal axis whose size is given as a bare int - to map(internal_shapes=...) or on the function
    want, tries = (4 if tier == "quick" else 40), 0
    while want and tries < 40000:
        tries += 1
        prog = progs.gen_map_program(rng, n_funcs=rng.randint(2, 3), allow_generator=False)
        _, calls = progs.denote(prog)
        cands = [f for f in prog["funcs"] if f.get("internal") and len(f["internal"]) == 1 and f.get("spec") is not None]
        if not 2 <= len(calls) <= 8 or not cands:
            continue
        want -= 1
        cands[0]["internal_bare_int"] = True
        cands[0]["internal_via_map"] = want % 2 == 0
        for k in range(1, len(calls)):
            yield {"prog": prog, "storage": "file_array", "faults": [{"kind": "raise", "call": k}]}


def _global_call_fault(prog, k):
    """The k-th user call overall (sequential order of the reference) -> (func, per-function call index)."""
    _, calls = progs.denote(prog)
    fname = calls[k][0]
    idx = sum(1 for c in calls[:k] if c[0] == fname)
    return fname, idx


def _check(case):
    prog, st = case["prog"], case["storage"]
    want, calls = progs.denote(prog)
    if case["faults"] in ("ENUM-KILLS", "ENUM-KILLS-REUSED"):
        return _check_kills(prog, st, want, calls, reused=case["faults"] == "ENUM-KILLS-REUSED")
    base = tempfile.mkdtemp(prefix="vf_c05_")
    folder = os.path.join(base, "run")
    bad = []
    try:
        done_before: list = []
        for n, fault in enumerate(case["faults"]):
            log = os.path.join(base, f"calls{n}.log")
            # the raising call is counted among the calls of THIS attempt
            remaining = [c for c in calls if c not in done_before]
            if fault["call"] >= len(remaining):
                break
            fname = remaining[fault["call"]][0]
            idx = sum(1 for c in remaining[:fault["call"]] if c[0] == fname)
            status, info, _ = _run_child({"prog": prog, "folder": folder, "storage": st, "cleanup": n == 0,
                                          "fault": {"kind": "raise", "func": fname, "call": idx}, "logfile": log,
                                          "parallel": case.get("parallel", False)})
            if status != "failed":
                bad.append(f"attempt{n}: injected raise in {fname}#{idx} did not surface (status {status}: {str(info)[:150]})")
                return bad
            done_before = stored_calls(prog, folder, calls, st)
        log = os.path.join(base, "resume.log")
        status, info, cp = _run_child({"prog": prog, "folder": folder, "storage": st, "cleanup": False, "fault": None,
                                       "logfile": log})
        if status != "ok":
            return [f"resume-failed: {status}: {str(info)[:300]}"]
        for o, v in info["outputs"].items():
            if v != want[o]:
                bad.append(f"resumed-result-differs:{o}: got {str(v)[:150]} want {str(want[o])[:150]}")
        resumed = _read_calls(log)
        extra = [c for c in resumed if c not in calls]
        if extra:
            bad.append(f"resume-made-unexpected-calls: {extra[:2]}")
        if len(resumed) != len(set(resumed)):
            bad.append("resume-called-an-element-twice")
        if True:
            redo = [c for c in resumed if c in done_before]
            if redo:
                bad.append(f"recomputed-stored-elements: {redo[:3]} (completed and stored before the interruption)")
        return bad
    finally:
        shutil.rmtree(base, ignore_errors=True)


def _check_kills(prog, st, want, calls, reused=False):
    bad = []
    base = tempfile.mkdtemp(prefix="vf_c05k_")
    try:
        folder = os.path.join(base, "run")
        older = os.path.join(base, "older")
        if reused:
            status, info, _ = _run_child({"prog": prog, "folder": folder, "storage": st, "cleanup": True, "fault": None,
                                          "primed_inputs": True, "logfile": os.path.join(base, "older.log")})
            if status != "ok":
                return []  # the program cannot be run on other values (nothing to reuse): not this history
            os.rename(folder, older)
            shutil.copytree(older, folder)
        status, info, _ = _run_child({"prog": prog, "folder": folder, "storage": st, "cleanup": True,
                                      "fault": {"kind": "count"}, "logfile": os.path.join(base, "c.log")})
        if status != "ok":
            return [f"count-run-failed: {status} {str(info)[:200]}"]
        n_opens, n_renames = info["opens"], info.get("renames", 0)
        for kind in ("kill-before-open", "torn-write", "kill-after-rename"):
            for n in range(n_opens if kind != "kill-after-rename" else n_renames):
                shutil.rmtree(folder, ignore_errors=True)
                if reused:
                    shutil.copytree(older, folder)
                log1 = os.path.join(base, f"k{kind}{n}.log")
                status, info, _ = _run_child({"prog": prog, "folder": folder, "storage": st, "cleanup": True,
                                              "fault": {"kind": kind, "n": n}, "logfile": log1})
                if status != "killed":
                    bad.append(f"{kind}#{n}: expected the child to die, got {status}")
                    continue
                first = stored_calls(prog, folder, calls, st)
                log2 = os.path.join(base, f"r{kind}{n}.log")
                status, info, cp = _run_child({"prog": prog, "folder": folder, "storage": st, "cleanup": False,
                                               "fault": None, "logfile": log2})
                if status != "ok":
                    bad.append(f"{kind}#{n}: resume-failed: {status}: {str(info)[:220]}")
                    continue
                for o, v in info["outputs"].items():
                    if v != want[o]:
                        bad.append(f"{kind}#{n}: resumed-result-differs:{o}: got {str(v)[:120]} want {str(want[o])[:120]}")
                resumed = _read_calls(log2)
                redo = [c for c in resumed if c in first]
                if redo:
                    bad.append(f"{kind}#{n}: recomputed-stored-elements: {redo[:2]}")
                if len(bad) > 4:
                    return bad
        return bad
    finally:
        shutil.rmtree(base, ignore_errors=True)


def _describe(case):
    return {"program": progs.describe(case["prog"]), "storage": case["storage"], "faults": case["faults"],
            "parallel": case.get("parallel", False)}


def bounded_checks():
    return [("interrupt-resume", Check("interrupt-resume", _cases, _check, RULE, describe=_describe,
                                       key=lambda c: repr(_describe(c)), shards=15,
                                       time_budget_s=lambda t: 110 if t == "quick" else 1500))]
