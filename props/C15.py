"""C15 - Cache keys identify argument values: equal key iff equal value."""
from __future__ import annotations

import array
import collections
import itertools
import json
import os
import tempfile
import shutil
import subprocess
import sys

from vf.bounded import Check
from vf.common import REPO, VERIF

ID = "C15"
LEVEL = "exploration"
LEVEL_TEXT = ("Bounded relational (2-safety) contract on the real to_hashable / try_to_hashable / memoize: for all ordered "
              "pairs of values from a recursive generator over the supported types, hash(key) succeeds and key(a) == "
              "key(b) exactly when a and b are equal values of the same type (reference structural equality written "
              "from the statement); keys of the natively handled types are identical in two interpreters with "
              "different hash seeds; memoize returns a stored result only for equal arguments. to_hashable dispatches "
              "on the CPython object protocol (hash(), isinstance against ABCs, sorted with user __lt__, numpy/pandas, "
              "cloudpickle+md5), none of which has a semantics in the proof rung. Proved part (pyvc): only the "
              "structural helper _hashable_iterable (one key component per item, in order; to_hashable and _sorted "
              "are assumed). The property is decided on the bounded rung ('exploration').")
LEVEL_NOTE = ("Bounds: depth<=2 exhaustive over 2-3 atoms per scalar type, depth 3 sampled; look-alikes ([1,2]/(1,2), "
              "{1:2}/OrderedDict, equal data with different dtype/shape, insertion orders, deque maxlen). Stated "
              "preconditions: values do not contain the _HASH_MARKER string; ints/floats/bools that compare equal are "
              "one value (as for dict keys); no NaN. md5/cloudpickle collision-freedom is assumed.")
TECHNIQUE = ("bounded relational contract checking of the key function over value pairs and memoized call histories; "
             "helper _hashable_iterable discharged by z3")
EXPLANATION = LEVEL_TEXT
RULE = ("pool of generated values; all ordered pairs; distinct = distinct unordered pairs of distinct pool entries; "
        "non-trivial = at least one side is a container/array")
TRUSTED_BASE = ["reference structural equality canon() in props/C15.py", "md5 / cloudpickle collision freedom"]
ASSUMPTIONS = ["values do not contain the _HASH_MARKER string", "numeric atoms that compare equal are one value"]


def registry():
    from contracts import hashing
    return {**{c.short: c for c in hashing.ALL}, **{c.name: c for c in hashing.ALL}}


def proof_items():
    from contracts import hashing
    from vf.driver import ProofItem
    # sequences are keyed component by component, in order (what makes order and structure significant)
    return [ProofItem(hashing.hashable_iterable, gen=hashing.hi_gen)]


# ---- reference notion of "equal value of the same type" ----------------------------------------------------------
def canon(v):
    import numpy as np
    import pandas as pd
    if isinstance(v, (bool, int, float, complex)) and not isinstance(v, np.generic):
        return ("num", complex(v))
    if v is None or isinstance(v, (str, bytes)):
        return (type(v).__name__, v)
    if isinstance(v, collections.OrderedDict):
        return ("OrderedDict", tuple((canon(k), canon(x)) for k, x in v.items()))
    if isinstance(v, collections.defaultdict):
        return ("defaultdict", repr(v.default_factory), frozenset((canon(k), canon(x)) for k, x in v.items()))
    if isinstance(v, collections.Counter):
        return ("Counter", frozenset((canon(k), canon(x)) for k, x in v.items()))
    if isinstance(v, dict):
        return ("dict", frozenset((canon(k), canon(x)) for k, x in v.items()))
    if isinstance(v, (set, frozenset)):
        return (type(v).__name__, frozenset(canon(x) for x in v))
    if isinstance(v, (list, tuple)):
        return (type(v).__name__, tuple(canon(x) for x in v))
    if isinstance(v, collections.deque):
        return ("deque", v.maxlen, tuple(canon(x) for x in v))
    if isinstance(v, bytearray):
        return ("bytearray", bytes(v))
    if isinstance(v, array.array):
        return ("array", v.typecode, tuple(v))
    if isinstance(v, np.ndarray):
        return ("ndarray", v.shape, v.dtype.str, tuple(canon(x.item() if hasattr(x, "item") else x) for x in v.flatten()))
    if isinstance(v, pd.Series):
        return ("Series", canon(v.name), tuple(canon(x) for x in v.index.tolist()), tuple(canon(x) for x in v.tolist()))
    if isinstance(v, pd.DataFrame):
        return ("DataFrame", tuple(canon(c) for c in v.columns.tolist()), tuple(canon(x) for x in v.index.tolist()),
                tuple(tuple(canon(x) for x in v[c].tolist()) for c in v.columns))
    if isinstance(v, Point):
        return ("Point", canon(v.x), canon(v.y))
    raise TypeError(f"canon: {type(v)}")


class Point:
    """An arbitrary picklable (unhashable) object."""

    def __init__(self, x, y):
        self.x, self.y = x, y

    def __eq__(self, other):
        return isinstance(other, Point) and (self.x, self.y) == (other.x, other.y)

    __hash__ = None  # type: ignore[assignment]


def pool(tier, rng, native_only=False):
    import numpy as np
    import pandas as pd
    atoms = [0, 1, 2, 0.5, "a", "b", b"a", None]
    vals = list(atoms)

    def containers(items):
        out = []
        small = items[:6]
        for r in (0, 1, 2):
            for combo in itertools.permutations(small, r):
                out.append(list(combo))
                out.append(tuple(combo))
                try:
                    out.append(set(combo))
                    out.append(frozenset(combo))
                except TypeError:
                    pass
                out.append(collections.deque(combo))
                out.append(collections.deque(combo, maxlen=3))
        for k1, k2 in itertools.permutations(["a", "b", 1], 2):
            for v1, v2 in (((items[0]), (items[1])), ((items[1]), (items[0]))):
                out.append({k1: v1, k2: v2})
                out.append(collections.OrderedDict([(k1, v1), (k2, v2)]))
                out.append(collections.defaultdict(list, {k1: v1, k2: v2}))
        out.append({})
        out.append(collections.OrderedDict())
        out.append(collections.Counter("aab"))
        out.append(collections.Counter("abb"))
        out.append({1: 2, "a": 3})  # keys of mixed types
        out.append({1, "a"})
        out.append({(1, 2), "a"})
        return out

    level1 = containers(atoms)
    vals += level1
    # depth 2: containers of containers (sampled)
    inner = [[1], (1,), [1, 2], (1, 2), {"a": 1}, {1}, frozenset({1}), [], ()]
    for c in inner:
        vals += [[c], (c,), [c, 1], (1, c), {"k": c}, collections.OrderedDict(k=c), collections.deque([c])]
    if tier != "quick":
        for _ in range(300):
            a = rng.choice(level1)
            b = rng.choice(inner)
            vals += [[a, b], (b, a), {"x": a, "y": b}]
    vals += [bytearray(b"ab"), bytearray(b"ba"), array.array("i", [1, 2]), array.array("l", [1, 2]),
             array.array("i", [2, 1])]
    # numpy: equal data, different dtype / shape / order
    base = np.arange(6)
    vals += [base, base.astype("int32"), base.astype(float), base.reshape(2, 3), base.reshape(3, 2),
             base.reshape(2, 3).T, np.ascontiguousarray(base.reshape(2, 3).T), base[::-1], np.arange(9).reshape(3, 3),
             np.arange(9).reshape(3, 3).T, np.array(["a", "b"]), np.array([], dtype=int), np.array([], dtype=float)]
    vals += [pd.Series([1, 2]), pd.Series([1, 2], name="s"), pd.Series([2, 1]), pd.Series([1, 2], index=["a", "b"]),
             pd.DataFrame({"a": [1, 2]}), pd.DataFrame({"a": [1, 2], "b": [3, 4]}), pd.DataFrame({"b": [1, 2]}),
             pd.DataFrame({"a": [2, 1]}), pd.DataFrame({"a": [1, 2]}, index=[5, 6]),
             pd.Series([1, 2], index=["a", "a"]), pd.Series([2], index=["a"])]
    if not native_only:
        vals += [Point(1, 2), Point(1, 2), Point(2, 1), [Point(1, 2)], {"p": Point(0, 0)}]
    return vals


def _pair_cases(tier, rng):
    seed = rng.randrange(10**6)
    import random
    n = len(pool(tier, random.Random(seed)))
    for i in range(n):
        yield {"kind": "all-pairs", "seed": seed, "i": i}
    yield {"kind": "two-interpreters", "seed": rng.randrange(10**6)}
    yield {"kind": "memoize", "seed": rng.randrange(10**6)}
    for _ in range(6 if tier == "quick" else 60):
        yield {"kind": "mutation-history", "seed": rng.randrange(10**6)}


def _mutate(v, rng):
    """Change v in place into an unequal value of the same type; False when v cannot be changed in place."""
    import numpy as np
    import pandas as pd
    if isinstance(v, Point):
        v.x = ("changed", v.x)
    elif isinstance(v, (list, collections.deque)):
        if isinstance(v, collections.deque) and v.maxlen is not None and len(v) == v.maxlen:
            v[0] = ("changed", v[0])
        else:
            v.append("changed")
    elif isinstance(v, collections.Counter):
        v["changed"] += 1
    elif isinstance(v, dict):
        v["changed"] = 1
    elif isinstance(v, set):
        v.add("changed")
    elif isinstance(v, bytearray):
        v.append(7)
    elif isinstance(v, array.array):
        v.append(7)
    elif isinstance(v, np.ndarray):
        if v.size == 0 or v.dtype.kind not in "if":
            return False
        v.flat[0] += 1
    elif isinstance(v, pd.DataFrame):
        v.iloc[0, 0] += 1
    elif isinstance(v, pd.Series):
        v.iloc[0] += 1
    else:
        return False
    return True


_CHILD = r"""
import sys, json, random
sys.modules['zarr'] = None
sys.path.insert(0, {repo!r}); sys.path.insert(0, {verif!r})
from pipefunc.cache import to_hashable
from props.C15 import pool
vals = pool({tier!r}, random.Random({seed}), native_only=True)
out = []
def norm(k):
    # iteration order of (frozen)sets depends on the hash seed: print them sorted
    if isinstance(k, (set, frozenset)):
        return "fs{{" + ",".join(sorted(norm(x) for x in k)) + "}}"
    if isinstance(k, tuple):
        return "(" + ",".join(norm(x) for x in k) + ")"
    return repr(k)
for v in vals:
    try:
        out.append(norm(to_hashable(v)))
    except Exception as e:
        out.append("EXC:" + type(e).__name__)
print("KEYS" + json.dumps(out))
"""


def _pandas_tag(a, b=None):
    """Machine-readable tag for the two recorded pandas findings (used by the known-finding matchers)."""
    import pandas as pd
    for v in (a, b):
        if isinstance(v, pd.Series) and v.index.has_duplicates:
            return " {duplicate-index-series}"
    if isinstance(a, pd.DataFrame) and isinstance(b, pd.DataFrame) and list(a.columns) == list(b.columns) \
            and a.values.tolist() == b.values.tolist() and a.index.tolist() != b.index.tolist():
        return " {dataframes-differ-only-in-index}"
    return ""


def _keys_and_canons(tier, rng):
    from pipefunc.cache import to_hashable
    vals = pool(tier, rng)
    keys, canons, errs = [], [], []
    for idx, v in enumerate(vals):
        try:
            k = to_hashable(v)
            hash(k)
        except Exception as e:  # noqa: BLE001
            errs.append((idx, f"no-hashable-key: to_hashable({v!r}) -> {type(e).__name__}: {str(e)[:80]}"))
            k = ("<none>", id(v))
        keys.append(k)
        canons.append(canon(v))
    return vals, keys, canons, errs


def _check(case):
    import random
    from pipefunc.cache import SimpleCache, memoize, to_hashable
    rng = random.Random(case["seed"])
    tier = os.environ.get("VERIF_TIER", "quick")
    bad = []
    if case["kind"] == "all-pairs":
        cache = _check.__dict__.setdefault("cache", {})
        if case["seed"] not in cache:
            cache.clear()
            cache[case["seed"]] = _keys_and_canons(tier, rng)
        vals, keys, canons, errs = cache[case["seed"]]
        i = case["i"]
        bad = [e for idx, e in errs if idx == i]
        for j in range(i + 1, len(vals)):
            try:
                same_key = bool(keys[i] == keys[j])
            except Exception:  # noqa: BLE001
                same_key = False
            same_val = canons[i] == canons[j]
            if same_key != same_val:
                what = "equal-keys-for-different-values" if same_key else "different-keys-for-equal-values"
                bad.append(f"{what}: {vals[i]!r} ({type(vals[i]).__name__}) vs {vals[j]!r} ({type(vals[j]).__name__})"
                           + _pandas_tag(vals[i], vals[j]))
        return bad[:6]
    if case["kind"] == "all-pairs-old":
        vals = pool(tier, rng)
        keys, canons = [], []
        for v in vals:
            try:
                k = to_hashable(v)
                hash(k)
            except Exception as e:  # noqa: BLE001
                bad.append(f"no-hashable-key: to_hashable({v!r}) -> {type(e).__name__}: {str(e)[:80]}")
                k = ("<none>", id(v))
            keys.append(k)
            canons.append(canon(v))
        n_pairs = 0
        for i, j in itertools.combinations(range(len(vals)), 2):
            n_pairs += 1
            try:
                same_key = keys[i] == keys[j]
                if not isinstance(same_key, bool):
                    same_key = bool(same_key)
            except Exception:  # noqa: BLE001
                same_key = False
            same_val = canons[i] == canons[j]
            if same_key != same_val and len(bad) < 12:
                what = "equal-keys-for-different-values" if same_key else "different-keys-for-equal-values"
                bad.append(f"{what}: {vals[i]!r} ({type(vals[i]).__name__}) vs {vals[j]!r} ({type(vals[j]).__name__})")
        _check.n_pairs = n_pairs
        return bad
    if case["kind"] == "two-interpreters":
        outs = []
        for hs in ("1", "2"):
            code = _CHILD.format(repo=REPO, verif=VERIF, tier=tier, seed=case["seed"])
            env = dict(os.environ, PYTHONHASHSEED=hs, PYTHONDONTWRITEBYTECODE="1")
            cp = subprocess.run([sys.executable, "-c", code], capture_output=True, text=True, timeout=120, env=env)
            line = next((ln for ln in cp.stdout.splitlines() if ln.startswith("KEYS")), None)
            if line is None:
                return [f"child failed: {cp.stderr[-300:]}"]
            outs.append(json.loads(line[4:]))
        vals = pool(tier, random.Random(case["seed"]), native_only=True)
        for v, a, b in zip(vals, *outs):
            if a != b:
                bad.append(f"key differs between interpreters for {v!r}: {a[:80]} vs {b[:80]}")
        return bad[:8]
    if case["kind"] == "mutation-history":
        # the key is a function of the value alone: after a change in place the object has the key of its new value
        # (the key of a fresh equal object), not the key it had before
        import copy
        vals = pool("quick", rng)
        rng.shuffle(vals)
        n = 0
        for v in vals:
            try:
                v = copy.deepcopy(v)
                k0 = to_hashable(v)
                if not _mutate(v, rng):
                    continue
                k1 = to_hashable(v)
                k2 = to_hashable(copy.deepcopy(v))
                k3 = to_hashable(v)
            except Exception as e:  # noqa: BLE001
                bad.append(f"key of a value changed in place raised {type(e).__name__}: {str(e)[:80]} ({v!r})")
                continue
            n += 1
            if k1 != k2 or k3 != k2:
                bad.append(f"different-keys-for-equal-values: {v!r} after a change in place vs a fresh equal object"
                           + _pandas_tag(v))
            if k1 == k0:
                bad.append(f"equal-keys-for-different-values: {v!r} keeps the key it had before it was changed in place"
                           + _pandas_tag(v))
        _check.n_mutated = n
        return bad[:6]
    # memoize: a stored result is returned only for equal arguments
    vals = pool("quick", rng)
    calls: list = []

    @memoize(cache=SimpleCache())
    def f(x):
        calls.append(x)
        return len(calls)

    seen: list = []
    for v in vals:
        try:
            c = canon(v)
            before = len(calls)
            r = f(v)
        except Exception:  # noqa: BLE001
            continue
        hit = len(calls) == before
        prior = [r0 for c0, r0 in seen if c0 == c]
        if hit and not prior:
            import pandas as pd
            tag = " {duplicate-index-series}" if isinstance(v, pd.Series) else \
                (" {dataframes-differ-only-in-index}" if isinstance(v, pd.DataFrame) else "")
            bad.append(f"memoize returned a stored result for a new argument value {v!r}{tag}")
        if hit and prior and r != prior[0]:
            bad.append(f"memoize returned the result of a different argument for {v!r}")
        if not hit:
            seen.append((c, r))
    return bad[:8]


# ---- memoize: a stored result is returned only for a call with equal arguments ------------------------------------------
# (no two pool values are equal as Python scalars, e.g. 1 / 1.0 / True: those are equal arguments in Python's sense
#  and share a key, like in functools.lru_cache)
_MEMO_VALUES = [1, 2.5, "a", ("a", 1), ("a", 2), ["a", 1], ("b", 3), {"a": 1}, None, (), 2, b"a", (1, ("a", 1))]


def _memo_cases(tier, rng):
    n = 250 if tier == "quick" else 2500
    names = ("a", "b")
    for q in range(n):
        calls = []
        for _ in range(rng.randint(2, 6)):
            args = tuple(rng.choice(_MEMO_VALUES) for _ in range(rng.randint(0, 2)))
            kwargs = {k: rng.choice(_MEMO_VALUES) for k in rng.sample(names, rng.randint(0, 2))}
            if rng.random() < 0.3:  # the same data arranged differently between positional and keyword arguments
                k = rng.choice(names)
                v = rng.choice(_MEMO_VALUES)
                calls.append(((*args, (k, v)), dict(kwargs)))
                kwargs = {**kwargs, k: v}
            calls.append((args, kwargs))
        rng.shuffle(calls)
        yield {"calls": calls, "cache": ("simple", "lru", "hybrid", "disk")[q % 4]}
    # the disk cache names its files after the key: all small argument tuples at once (a weak file name would make two
    # different calls share a file)
    trip = list(itertools.product((1, 2, 3), repeat=3))
    for form in ("args", "list", "kwargs", "bytes"):
        calls = []
        for t in trip:
            if form == "args":
                calls.append((t, {}))
            elif form == "list":
                calls.append(((list(t),), {}))
            elif form == "kwargs":
                calls.append(((), dict(zip("abc", t))))
            else:
                calls.append(((bytes(96 + x for x in t),), {}))
        rng.shuffle(calls)
        yield {"calls": calls, "cache": "disk"}


def _check_memo(case):
    from pipefunc.cache import HybridCache, LRUCache, SimpleCache, memoize
    tmp = tempfile.mkdtemp(prefix="vf_c15_") if case["cache"] == "disk" else None
    try:
        return _check_memo_with(case, tmp)
    finally:
        if tmp:
            shutil.rmtree(tmp, ignore_errors=True)


def _check_memo_with(case, tmp):
    from pipefunc.cache import DiskCache, HybridCache, LRUCache, SimpleCache, memoize
    cache = {"simple": SimpleCache, "lru": lambda: LRUCache(shared=False, max_size=64),
             "hybrid": lambda: HybridCache(shared=False, max_size=64),
             "disk": lambda: DiskCache(tmp, lru_shared=False)}[case["cache"]]()

    def plain(*args, **kwargs):
        return ("called-with", repr(args), repr(sorted(kwargs.items(), key=lambda kv: kv[0])))
    executed = []

    def counted(*args, **kwargs):
        executed.append((args, kwargs))
        return plain(*args, **kwargs)
    f = memoize(cache=cache)(counted)
    bad = []
    seen = []
    for args, kwargs in case["calls"]:
        n0 = len(executed)
        try:
            got = f(*args, **kwargs)
        except Exception as e:  # noqa: BLE001
            bad.append(f"memoized call raised {type(e).__name__}: {str(e)[:80]}")
            break
        want = plain(*args, **kwargs)
        if got != want:
            bad.append(f"memoized f(*{args!r}, **{kwargs!r}) returned the result of another call: {got!r}")
        equal_before = any(_same_call(args, kwargs, a2, k2) for a2, k2 in seen)
        if equal_before and len(executed) != n0:
            bad.append(f"f(*{args!r}, **{kwargs!r}) was executed again although an equal call is stored")
        seen.append((args, kwargs))
    return bad[:4]


def _same_call(a1, k1, a2, k2):
    def typed(x):
        if isinstance(x, (tuple, list)):
            return (type(x).__name__, tuple(typed(y) for y in x))
        if isinstance(x, dict):
            return ("dict", tuple(sorted((repr(k), typed(v)) for k, v in x.items())))
        return (type(x).__name__, repr(x))
    return typed(a1) == typed(a2) and typed(k1) == typed(k2)


def bounded_checks():
    return [("key-iff-value", Check("key-iff-value", _pair_cases, _check, RULE + " (one case = one pool value "
                                    "compared with every later pool value)", key=lambda c: repr(c),
                                    describe=lambda c: c)),
            ("memoize-equal-calls-only", Check("memoize-equal-calls-only", _memo_cases, _check_memo,
                                               "histories of 2..6 calls of a memoized function with positional / keyword "
                                               "arguments from a pool incl. (name, value) tuples mirroring keyword "
                                               "arguments, caches simple/lru/hybrid: every call returns its own result; "
                                               "a call equal to a stored one is not executed again",
                                               key=lambda c: repr(c), describe=lambda c: {"calls": repr(c["calls"]),
                                                                                         "cache": c["cache"]}))]
