"""C08 - MapSpec parsing, printing, shapes and index maps are mutually consistent."""
from __future__ import annotations

import itertools

from contracts import mapspec as cm
from specs import mapspec_ref as ref
from vf.bounded import Check
from vf.driver import ProofItem

ID = "C08"
LEVEL = "other"
LEVEL_TEXT = ("Deductive for the index arithmetic (shape_to_strides, _shape_to_key = row-major unravel for every rank, "
              "shape and linear index; lemma library: ravel o unravel = id by induction), bounded for the MapSpec "
              "methods, parsing/printing and malformed-spec rejection (contracts written from the statement, evaluated "
              "on the real classes over enumerated small specs). 'other' because part is proved, part bounded.")
LEVEL_TEXT += (' _get_common_dim (the common size of the zipped inputs along an index, ValueError exactly on a mismatch), a callee of shape(), is proved as well - it had been an assumed contract.')
LEVEL_NOTE = ("Trusted: pyvc's encoding of Python (DESIGN 2.1.7), z3/cvc5, spec-function axioms. Bounded part: <=3 "
              "inputs, <=2 outputs, <=4 index names, rank<=3, sizes 1..4. `re`-based parsing is outside the proof rung. "
              "Stated precondition: index names within one array spec are pairwise distinct.")
TECHNIQUE = "contract-based deductive verification (self-generated VCs, z3/cvc5) + bounded contract checking"
EXPLANATION = ("VCs generated from the ast of shape_to_strides/_shape_to_key in the working tree, discharged for all "
               "inputs; lemma L4 (ravel o unravel = id, in-range) proved by induction every run. MapSpec methods, "
               "from_string/str round trip, malformed rejection, rename/add_axes checked against a reference "
               "denotation written from the statement over enumerated specs (bounded).")
RULE = ("bounded: exhaustive tiny vocabulary (<=2 inputs, rank<=2, indices {i,j}) + seeded random specs (<=3 inputs, <=2 "
        "outputs, rank<=3, 4 index names); per spec all sizes in 1..3(4) per index (distinct where possible) and all "
        "linear indices; distinct = distinct canonical spec strings x shapes; non-trivial = at least one input or rank>=2")
TRUSTED_BASE = ["pyvc encoding of Python semantics (DESIGN 2.1.7)", "z3 5.1 / cvc5 1.0.3",
                "spec-function axioms (prod, dot)", "reference denotation specs/mapspec_ref.py (from the statement)"]
ASSUMPTIONS = ["ints are mathematical (exact for Python)", "index names within one array spec pairwise distinct",
               "regular-expression parsing is checked only within the enumerated scope"]


def registry():
    from contracts import shape as cshape
    allc = cm.ALL + cshape.ALL
    reg = {c.name: c for c in allc}
    reg.update({c.short: c for c in allc if "." not in c.name})
    return reg


def _ms_gen(rng, tier):
    for spec in ref.all_small_specs()[:400] + ref.gen_specs(rng, 100):
        yield {"self": _mk(spec)}


def _as_gen(with_shape):
    def gen(rng, tier):
        from pipefunc.map._mapspec import ArraySpec
        for axes in [(), ("i",), (None,), ("i", "j"), ("i", None), (None, None, "k")]:
            a = {"self": ArraySpec("a", axes)}
            if with_shape:
                for shp in [(), (2,), (1, 3), (2, 2, 2)]:
                    yield {**a, "shape": shp}
            else:
                yield a
    return gen


def _okey_gen(rng, tier):
    for spec in ref.all_small_specs()[:300] + ref.gen_specs(rng, 100):
        n_idx = len({x for _, ax in spec["inputs"] for x in ax if x is not None})
        for rank in {n_idx, n_idx + 1, max(0, n_idx - 1)}:
            shape = tuple(rng.choice((1, 2, 3)) for _ in range(rank))
            yield {"self": _mk(spec), "shape": shape, "linear_index": rng.randrange(0, 12)}


def _vshape_gen(rng, tier):
    """Arguments as MapSpec.shape passes them, with single faults: surplus / missing names, wrong ranks, internal
    shapes for unknown names; input-shape dicts in any order."""
    for spec in ref.all_small_specs()[:250] + ref.gen_specs(rng, 80):
        m = _mk(spec)
        names = list(m.input_names)
        base = {n: tuple(rng.choice((1, 2, 3)) for _ in dict(spec["inputs"])[n]) for n in names}
        variants = [base]
        if names:
            n0 = rng.choice(names)
            variants += [{**base, n0: base[n0] + (2,)}, {k: v for k, v in base.items() if k != n0}, {**base, "zz": (1,)},
                         {k: base[k] for k in reversed(names)}]
        for shapes in variants:
            for internal in (None, {}, {m.output_names[0]: (2,)}, {"nope": (2,)}):
                yield {"input_names": set(names), "input_shapes": shapes, "inputs": m.inputs,
                       "internal_shapes": internal, "output_names": m.output_names}


def _odim_gen(rng, tier):
    from pipefunc.map._mapspec import ArraySpec
    for shapes in [{}, {"y": (2,)}, {"y": (2, 3)}, {"z": (1,)}]:
        for idx in (0, 1, 2):
            yield {"output": ArraySpec("y", ("i", "k")), "internal_shapes": shapes, "internal_shape_index": idx}


def proof_items():
    from contracts import shape as cshape
    return [
        ProofItem(cm.shape_to_strides, bounds={"ints": (0, 1, 2, 3), "maxlen": 3}),
        ProofItem(cm.shape_to_key, bounds={"ints": (-1, 0, 1, 2, 3, 5, 7), "maxlen": 3, "per_len": 60}),
        ProofItem(cm.arrayspec_rank, gen=_as_gen(False)),
        ProofItem(cm.arrayspec_validate, gen=_as_gen(True)),
        ProofItem(cm.mapspec_input_names, gen=_ms_gen),
        ProofItem(cm.mapspec_output_names, gen=_ms_gen),
        ProofItem(cm.get_output_dim, gen=_odim_gen),
        ProofItem(cm.arrayspec_indices, gen=_as_gen(False)),
        ProofItem(cm.mapspec_output_indices, gen=_ms_gen),
        ProofItem(cm.mapspec_input_indices, gen=_ms_gen),
        ProofItem(cm.mapspec_output_key, gen=_okey_gen),
        ProofItem(cm.mapspec_external_indices, gen=_ms_gen),
        # which element of every input the call with linear index l receives
        ProofItem(cm.mapspec_input_keys, gen=_okey_gen),
        # what shape() rejects: surplus / missing arrays, rank mismatch, internal shape for a non-output
        ProofItem(cm.validate_shapes, gen=_vshape_gen),
        # a renaming is simultaneous: every array gets the name the renaming gives to its own old name, axes unchanged
        ProofItem(cm.mapspec_rename, gen=cm.rename_gen),
        # shape(): mask[p] <=> some input carries output axis p; a mapped axis has the size every input has along it,
        # an internal axis the next entry of the output's internal shape; ValueError exactly for what _validate_shapes
        # rejects, a zipped-size mismatch or a missing / short internal shape
        ProofItem(cshape.mapspec_shape, gen=cshape.shape_gen, thorough_only=True),
        # the common size of the zipped inputs along an index (a callee of shape(); no longer an assumed contract)
        ProofItem(cshape.get_common_dim, gen=cshape.gcd_gen,
                  registry=lambda: {**{c.short: c for c in cm.ALL + cshape.ALL}, **{c.name: c for c in cm.ALL + cshape.ALL}}),
    ]


# ---------------------------------------------------------------------------------------------------------
def _mk(spec):
    from pipefunc.map._mapspec import ArraySpec, MapSpec
    return MapSpec(tuple(ArraySpec(n, tuple(ax)) for n, ax in spec["inputs"]),
                   tuple(ArraySpec(n, tuple(ax)) for n, ax in spec["outputs"]))


def _specs(tier, rng):
    specs = ref.all_small_specs()
    specs += ref.gen_specs(rng, 150 if tier == "quick" else 1500)
    return specs


def _sizes_for(spec, rng, distinct=True):
    idx = ref.output_indices(spec)
    pool = [1, 2, 3, 4]
    if distinct and len(idx) <= 4:
        vals = rng.sample(pool, len(idx))
    else:
        vals = [rng.choice(pool) for _ in idx]
    return dict(zip(idx, vals))


def _input_shapes(spec, sizes, rng):
    return {n: tuple(sizes[x] if x is not None else rng.choice((1, 2, 3)) for x in axes) for n, axes in spec["inputs"]}


def _internal(spec, sizes):
    ext = set(ref.external_indices(spec))
    dims = tuple(sizes[x] for x in ref.output_indices(spec) if x not in ext)
    return {spec["outputs"][0][0]: dims} if dims else {}


# -- index maps ---------------------------------------------------------------------------------------------
def _index_cases(tier, rng):
    for spec in _specs(tier, rng):
        for rep in range(1 if tier == "quick" else 3):
            sizes = _sizes_for(spec, rng, distinct=(rep == 0))
            yield {"spec": spec, "sizes": sizes}


def _check_index(case):
    spec, sizes = case["spec"], case["sizes"]
    m = _mk(spec)
    bad = []
    ext = ref.external_indices(spec)
    eshape = tuple(sizes[x] for x in ext)
    n = 1
    for d in eshape:
        n *= d
    # output_key: defined for the full output index space when every output axis is external
    if spec["inputs"] and len(ext) == len(ref.output_indices(spec)):
        keys = [m.output_key(eshape, l) for l in range(n)]
        if keys != list(itertools.product(*[range(d) for d in eshape])):
            bad.append("output_key-row-major-bijection")
    if spec["inputs"]:
        for l in range(n):
            got = m.input_keys(eshape, l)
            want = ref.input_keys(spec, eshape, l)
            if got != want:
                bad.append(f"input_keys: l={l} got {got} want {want}")
                break
        # rank mismatch must raise ValueError
        for wrong in (eshape + (2,), eshape[:-1]):
            if wrong == eshape:
                continue
            try:
                m.input_keys(wrong, 0)
                bad.append(f"input_keys-accepts-wrong-rank {wrong}")
            except ValueError:
                pass
            except ZeroDivisionError:
                bad.append("input_keys-wrong-rank-raises-ZeroDivisionError")
    return bad


# -- shape ---------------------------------------------------------------------------------------------------
def _shape_cases(tier, rng):
    for spec in _specs(tier, rng):
        sizes = _sizes_for(spec, rng)
        ins = _input_shapes(spec, sizes, rng)
        internal = _internal(spec, sizes)
        yield {"spec": spec, "input_shapes": ins, "internal": internal, "fault": None}
        # single-fault mutations of the call
        names = list(ins)
        if len(names) > 1:  # shapes are looked up by name: the order of the dict is immaterial
            order = names[:]
            rng.shuffle(order)
            if rng.random() < 0.5:
                order.reverse()
            yield {"spec": spec, "input_shapes": {k: ins[k] for k in reversed(names)}, "internal": internal, "fault": None}
            n1 = rng.choice(names)
            rev = {k: ins[k] for k in reversed(names)}
            yield {"spec": spec, "input_shapes": {**rev, n1: rev[n1] + (2,)}, "internal": internal, "fault": "rank+"}
        if names:
            n0 = rng.choice(names)
            yield {"spec": spec, "input_shapes": {**ins, n0: ins[n0] + (2,)}, "internal": internal, "fault": "rank+"}
            yield {"spec": spec, "input_shapes": {**ins, n0: ins[n0][:-1]}, "internal": internal, "fault": "rank-"}
            yield {"spec": spec, "input_shapes": {k: v for k, v in ins.items() if k != n0}, "internal": internal,
                   "fault": "missing-input"}
            yield {"spec": spec, "input_shapes": {**ins, "extra": (2,)}, "internal": internal, "fault": "extra-input"}
            # resize one named axis of one input (zip mismatch iff another input shares the index)
            axes = dict(spec["inputs"])[n0]
            named = [q for q, x in enumerate(axes) if x is not None]
            if named:
                q = rng.choice(named)
                shp = list(ins[n0])
                shp[q] += 1
                yield {"spec": spec, "input_shapes": {**ins, n0: tuple(shp)}, "internal": internal, "fault": "resize"}
        if internal:
            on = spec["outputs"][0][0]
            yield {"spec": spec, "input_shapes": ins, "internal": {}, "fault": "internal-missing"}
            yield {"spec": spec, "input_shapes": ins, "internal": {on: internal[on][:-1]}, "fault": "internal-short"}
        yield {"spec": spec, "input_shapes": ins, "internal": {**internal, "nope": (2,)}, "fault": "internal-extra-name"}


def _check_shape(case):
    spec = case["spec"]
    m = _mk(spec)
    want = ref.shape(spec, case["input_shapes"], case["internal"])
    try:
        got = ("ok",) + tuple(m.shape(dict(case["input_shapes"]), dict(case["internal"]) or None))
    except ValueError as e:
        got = ("raise", str(e)[:60])
    if want[0] != got[0]:
        return [f"shape: fault={case['fault']} want {want} got {got}"]
    if want[0] == "ok" and tuple(want[1:]) != tuple(got[1:]):
        return [f"shape: want {want} got {got}"]
    return []


# -- parsing / printing --------------------------------------------------------------------------------------
def _str_cases(tier, rng):
    for spec in _specs(tier, rng):
        yield {"spec": spec, "ws_seed": rng.randrange(10**6)}


def _check_str(case):
    import random
    from pipefunc.map._mapspec import MapSpec
    spec = case["spec"]
    m = _mk(spec)
    bad = []
    s = str(m)
    if s != ref.canonical_str(spec):
        bad.append(f"str: {s!r} != {ref.canonical_str(spec)!r}")
    if m.to_string() != s:
        bad.append("to_string != str")
    try:
        if MapSpec.from_string(s) != m:
            bad.append(f"roundtrip: from_string({s!r}) != m")
    except Exception as e:  # noqa: BLE001
        bad.append(f"roundtrip: from_string({s!r}) raised {type(e).__name__}")
    r = random.Random(case["ws_seed"])
    for _ in range(3):
        t = ref.spec_str(spec, ws=lambda: r.choice(["", " ", "  ", "\t"]))
        try:
            if MapSpec.from_string(t) != m:
                bad.append(f"whitespace: from_string({t!r}) != m")
        except Exception as e:  # noqa: BLE001
            bad.append(f"whitespace: from_string({t!r}) raised {type(e).__name__}: {e}")
    return bad


# -- malformed -----------------------------------------------------------------------------------------------
def _malformed_cases(tier, rng):
    for spec in _specs(tier, rng):
        if not spec["inputs"]:
            continue
        ins, outs = list(spec["inputs"]), list(spec["outputs"])
        oidx = outs[0][1]
        # (1) an input index absent from the output
        n0, ax0 = ins[0]
        yield {"spec": {"inputs": [(n0, ax0[:-1] + ("q",))] + ins[1:], "outputs": outs}, "class": "input-index-absent"}
        # (2) ':' in an output
        yield {"spec": {"inputs": ins, "outputs": [(outs[0][0], oidx[:-1] + (None,))] + outs[1:]}, "class": "colon-in-output"}
        # (3) outputs with different indices
        if len(oidx) >= 2:
            yield {"spec": {"inputs": ins, "outputs": [outs[0], ("o2", oidx[::-1])]}, "class": "outputs-differ"}
        if len(oidx) >= 2:  # a rank-0 array 'o2[]' is not expressible in the notation
            yield {"spec": {"inputs": ins, "outputs": [outs[0], ("o2", oidx[:-1])]}, "class": "outputs-differ"}
        # (4) non-identifier names
        yield {"spec": {"inputs": [("1a", ax0)] + ins[1:], "outputs": outs}, "class": "non-identifier-name"}
        yield {"spec": {"inputs": ins, "outputs": [("y-z", oidx)]}, "class": "non-identifier-name"}
        yield {"spec": {"inputs": [("s.1c", ax0)] + ins[1:], "outputs": outs}, "class": "non-identifier-name"}
        # (5) non-identifier index names: whitespace between identifier characters ('j j'), a leading digit, no name at all
        if oidx:
            # (an empty name only next to another index: 'y[]' is a rank-0 array, which the notation does not have)
            for badidx in (oidx[-1] + " " + oidx[-1], "k _2", "2" + oidx[-1]) + (("",) if len(oidx) >= 2 else ()):
                yield {"spec": {"inputs": ins, "outputs": [(o, ax[:-1] + (badidx,)) for o, ax in outs]},
                       "class": "non-identifier-index"}
            # ... also right after a well-formed sibling that differs only in blanks was parsed (and again afterwards:
            # what one string means does not depend on which strings were parsed before)
            good = oidx[-1] + oidx[-1]
            sib = {"inputs": ins, "outputs": [(o, ax[:-1] + (good,)) for o, ax in outs]}
            yield {"spec": {"inputs": ins, "outputs": [(o, ax[:-1] + (oidx[-1] + " " + oidx[-1],)) for o, ax in outs]},
                   "class": "non-identifier-index", "sibling": sib}


def _check_malformed(case):
    from pipefunc.map._mapspec import MapSpec
    spec = case["spec"]
    if ref.malformed_reason(spec) is None:
        return []  # the mutation happened to stay well-formed (e.g. output rank 1): nothing to demand
    bad = []
    sib = case.get("sibling")
    if sib is not None and ref.malformed_reason(sib) is None:
        try:
            first = MapSpec.from_string(ref.canonical_str(sib))
        except Exception as e:  # noqa: BLE001
            return [f"well-formed sibling {ref.canonical_str(sib)!r} refused: {type(e).__name__}"]
    try:
        _mk(spec)
        bad.append(f"constructor accepts malformed spec ({case['class']})")
    except ValueError:
        pass
    # strings: names with characters outside \w (e.g. 'y-z') cannot be expressed to the tokenizer at all and are not
    # demanded; a name (or scope part) that starts with a digit is a token, and must be rejected like in the constructor
    names = [n for n, _ in spec["inputs"] + spec["outputs"]]
    tokenizable = all(part.replace("_", "a").isalnum() for n in names for part in n.split("."))
    if case["class"] != "non-identifier-name" or tokenizable:
        try:
            MapSpec.from_string(ref.canonical_str(spec))
            bad.append(f"from_string accepts malformed spec ({case['class']}): {ref.canonical_str(spec)!r}")
        except ValueError:
            pass
    if sib is not None and ref.malformed_reason(sib) is None:
        try:
            again = MapSpec.from_string(ref.canonical_str(sib))
            if again != first or str(again) != str(first):
                bad.append(f"{ref.canonical_str(sib)!r} parses differently after {ref.canonical_str(spec)!r} was tried")
        except Exception as e:  # noqa: BLE001
            bad.append(f"well-formed {ref.canonical_str(sib)!r} is refused ({type(e).__name__}) after the malformed "
                       f"{ref.canonical_str(spec)!r} was tried")
    return bad


# -- rename / add_axes ---------------------------------------------------------------------------------------
def _rw_cases(tier, rng):
    for spec in _specs(tier, rng):
        names = [n for n, _ in spec["inputs"]] + [n for n, _ in spec["outputs"]]
        ren = {}
        for n in names:
            if rng.random() < 0.5:
                ren[n] = n.replace(".", "_") + "_r"
        yield {"spec": spec, "renames": ren, "new_axis": rng.choice(["n", "i", None])}
        # a renaming is simultaneous: targets may be sources of other entries (swaps, rotations, chains into fresh names)
        if len(names) >= 2:
            sub = rng.sample(names, rng.randint(2, min(3, len(names))))
            rot = sub[1:] + [rng.choice((sub[0], sub[0], "fresh_name"))]
            items = list(zip(sub, rot))
            rng.shuffle(items)
            yield {"spec": spec, "renames": dict(items), "new_axis": None}


def _check_rw(case):
    spec, ren, ax = case["spec"], case["renames"], case["new_axis"]
    m = _mk(spec)
    bad = []
    got = m.rename(dict(ren))
    want_spec = {"inputs": [(ren.get(n, n), a) for n, a in spec["inputs"]],
                 "outputs": [(ren.get(n, n), a) for n, a in spec["outputs"]]}
    if got != _mk(want_spec):
        bad.append(f"rename: got {got} want {ref.canonical_str(want_spec)}")
    if ref.malformed_reason(want_spec) is not None:
        bad.append("rename: result malformed")
    if m != _mk(spec):
        bad.append("rename mutated the receiver")
    # add_axes
    used = {x for _, a in spec["inputs"] + spec["outputs"] for x in a if x is not None}
    if ax is not None and ax in used:
        try:
            m.add_axes(ax)
            # duplicates are only demanded to raise where the axis already occurs in that array
            bad.append(f"add_axes({ax!r}) accepted a duplicate axis")
        except ValueError:
            pass
    elif ax is not None:
        got = m.add_axes(ax)
        want_spec = {"inputs": [(n, a + (ax,)) for n, a in spec["inputs"]],
                     "outputs": [(n, a + (ax,)) for n, a in spec["outputs"]]}
        if got != _mk(want_spec):
            bad.append(f"add_axes: got {got} want {ref.canonical_str(want_spec)}")
    return bad


def _nontrivial(case):
    spec = case["spec"]
    return bool(spec["inputs"]) or len(spec["outputs"][0][1]) >= 2


def _key(case):
    return repr(case)


def bounded_checks():
    kw = dict(nontrivial=_nontrivial, key=_key)
    return [
        ("mapspec-index-maps", Check("mapspec-index-maps", _index_cases, _check_index,
                                     "output_key/input_keys vs reference denotation for every linear index", **kw)),
        ("mapspec-shape", Check("mapspec-shape", _shape_cases, _check_shape,
                                "MapSpec.shape vs reference incl. single-fault mutations of the call", **kw)),
        ("mapspec-str-roundtrip", Check("mapspec-str-roundtrip", _str_cases, _check_str,
                                        "str/to_string canonical, from_string(str(m)) == m, whitespace variants", **kw)),
        ("mapspec-malformed", Check("mapspec-malformed", _malformed_cases, _check_malformed,
                                    "the four malformed classes of the statement are rejected", **kw)),
        ("mapspec-rename-add_axes", Check("mapspec-rename-add_axes", _rw_cases, _check_rw,
                                          "rename/add_axes denote the renamed/extended mapping", **kw)),
    ]
