"""C11 - Selecting outputs / supplying intermediates keeps values, runs only needed work."""
from __future__ import annotations

import itertools
import random

from rtc import dag, progs
from vf.bounded import Check

ID = "C11"
LEVEL = "exploration"
LEVEL_TEXT = ("Bounded contract on the real Pipeline.subpipeline / map(output_names=S) / map(auto_subpipeline=True): for "
              "generated DAGs (incl. nullary functions and functions whose parameters all have defaults or are bound), "
              "every non-empty set S of requested outputs and every cut I (root-only, interior-only, mixed) from which "
              "S is computable, the call must succeed, return for each output in S the value of the reference "
              "evaluator with the provided intermediates substituted, and invoke exactly the functions on a dependency "
              "path to S not cut off by I; when S is not computable from I the request must be rejected; the same for "
              "map programs with a supplied intermediate array. Proved part (pyvc): _validate_complete_inputs, the "
              "map-level decision 'every root argument of the (sub)pipeline has an input or a default, nothing else "
              "is given'. The graph surgery uses networkx and Pipeline.copy/drop, so the property is decided on the "
              "bounded rung ('exploration').")
LEVEL_NOTE = ("Bounds: DAGs of 1..4 functions over roots {x,y,z}; I contains exactly the needed names (surplus inputs are "
              "C12's business). Trusted: reference evaluator rtc/dag.py.")
LEVEL_NOTE += (' Also the whole pipeline requested through map(auto_subpipeline=True) without output_names (from the root arguments alone, with or without those that have defaults), and provided values that are None.')
TECHNIQUE = ("bounded contract checking of output selection against a reference evaluator; _validate_complete_inputs "
             "discharged by z3")
EXPLANATION = LEVEL_TEXT
RULE = ("random DAG x all non-empty S (|S|<=2) x sampled cuts I; distinct = distinct (DAG, S, I, entry point); "
        "non-trivial = S does not need every function or I contains an intermediate")
TRUSTED_BASE = ["reference evaluator rtc/dag.py (from the statement)", "networkx"]
ASSUMPTIONS = ["user functions deterministic"]


def registry():
    from contracts import misc
    return {**{c.short: c for c in misc.ALL}, **{c.name: c for c in misc.ALL}}


def proof_items():
    from contracts import misc
    from vf.driver import ProofItem
    # "rejected with an error naming what is missing": the map-level check of the provided names
    return [ProofItem(misc.validate_complete_inputs, gen=misc.vci_gen)]


def needed_funcs(d, S, I):
    """Functions on a dependency path to S that are not cut off by I (backward closure from S stopping at I)."""
    prod = dag.producers(d)
    need, seen = [], set()

    def visit(name):
        if name in seen:
            return
        seen.add(name)
        if name in I or name not in prod:
            return
        f = prod[name]
        if f["name"] not in need:
            need.append(f["name"])
        for p in f["params"]:
            if p not in f.get("bound", {}):
                visit(p)
    for s in S:
        visit(s)
    return set(need)


def required_inputs(d, S, I_interior):
    """Names that must be provided: the interior cut plus the root arguments (without default) that remain needed."""
    dflt = dag.shared_defaults(d)
    req = set()
    for s in S:
        req |= dag.needed_roots(d, s, set(I_interior))
    roots = {r for r in req if r in dag.ROOTS}
    return roots, {r for r in roots if r not in dflt}


def _cases(tier, rng):
    n = 700 if tier == "quick" else 7000
    for _ in range(n):
        d = dag.gen_dag(rng, rng.randint(1, 4))
        outs = dag.all_outputs(d)
        for S in [(o,) for o in outs] + [tuple(c) for c in itertools.combinations(outs, 2)][:3]:
            prod = dag.producers(d)
            # interior cut candidates: outputs that S depends on (not in S)
            deps = set()
            for s in S:
                _, vals, _ = _safe_eval(d, s)
                deps |= {k for k in vals if k in prod and k not in S}
            cuts = [()]
            for k in sorted(deps):
                cuts.append((k,))
            if len(deps) >= 2:
                cuts.append(tuple(sorted(rng.sample(sorted(deps), 2))))
            for cut in cuts:
                yield {"dag": d, "S": list(S), "cut": list(cut), "entry": rng.choice(("subpipeline", "map-output_names",
                                                                                     "map-auto_subpipeline")),
                       "omit_defaults": rng.random() < 0.4, "scoped": rng.random() < 0.25,
                       "none_value": rng.randint(1, 6) if rng.random() < 0.25 else 0}
        # the whole pipeline requested (output_names=None: "the entire pipeline is run") through auto_subpipeline, from the
        # root arguments alone - with or without those that have defaults (possibly from no input at all)
        yield {"dag": d, "S": list(outs), "cut": [], "entry": "map-auto_subpipeline", "all_outputs": True,
               "omit_defaults": rng.random() < 0.6, "scoped": False}


def _safe_eval(d, out):
    kw = {r: f"v_{r}" for r in dag.ROOTS}
    return dag.refeval(d, out, kw)


def _check(case):
    d, S, cut = case["dag"], case["S"], set(case["cut"])
    prod = dag.producers(d)
    # a provided name of a tuple-output function replaces that function: all its names must then be provided or unused
    for c in list(cut):
        sib = prod[c]["outputs"]
        if len(sib) > 1:
            return []  # cuts through multi-output functions are not exercised (the statement does not define them)
    # only the part of the cut that is actually reached from S (a provided name that is cut off by another
    # provided name would be a surplus input)
    reached = set()
    for s in S:
        reached |= dag.needed_roots(d, s, set(cut))
    cut = {c for c in cut if c in reached}
    roots, mandatory = required_inputs(d, S, cut)
    provided_roots = set(mandatory) if case["omit_defaults"] else set(roots)
    kw = {n: f"v_{n}" for n in provided_roots}
    kw.update({n: f"SUPPLIED_{n}" for n in cut})
    if case.get("none_value") and kw:
        # a provided value that is None is a provided value (not "missing": a default must not replace it)
        kw[sorted(kw)[case["none_value"] % len(kw)]] = None
    want = {}
    calls_expected = set()
    try:
        for s in S:
            v, _, _ = dag.refeval(d, s, kw)
            want[s] = v
    except dag.NotComputable:
        return []
    calls_expected = needed_funcs(d, S, cut)
    bad = []
    scoped = case.get("scoped") and case["entry"] != "subpipeline"
    try:
        p = dag.build(d, scope="foo") if scoped else dag.build(d)
    except Exception as e:  # noqa: BLE001
        return [f"construction-raised-{type(e).__name__}"]
    I = set(kw)
    log: list = []
    progs.set_log(log)
    try:
        if case["entry"] == "subpipeline":
            try:
                sp = p.subpipeline(inputs=I, output_names=set(S))
            except Exception as e:  # noqa: BLE001
                if "Inconsistent default values" in str(e) and dag.conflicting_defaults(d) & I:
                    return []  # cutting at a parameter whose consumers disagree on its default: ill-formed, stated refusal
                return [f"subpipeline(I={sorted(I)}, S={S}) refused a computable request: {type(e).__name__}: {str(e)[:150]}"]
            kept = {f.__name__ for f in sp.functions}
            if kept != calls_expected:
                bad.append(f"subpipeline keeps {sorted(kept)} but exactly {sorted(calls_expected)} are needed")
            got = {}
            for s in S:
                mine = dag.needed_roots(d, s, set(cut))
                try:
                    got[s] = sp(s, **{k: v for k, v in kw.items() if k in mine})
                except Exception as e:  # noqa: BLE001
                    bad.append(f"subpipeline call {s} raised {type(e).__name__}: {str(e)[:120]}")
        else:
            extra = {"auto_subpipeline": True} if case["entry"] == "map-auto_subpipeline" else {}
            pre = "foo." if scoped else ""
            try:
                # scoped pipelines: inputs in the nested-dict calling convention
                res = p.map({"foo": dict(kw)} if (scoped and kw) else dict(kw),
                            output_names=None if case.get("all_outputs") else {pre + s for s in S},
                            parallel=False, storage="dict", **extra)
            except Exception as e:  # noqa: BLE001
                if "Inconsistent default values" in str(e) and dag.conflicting_defaults(d) & I:
                    return []
                return [f"map(output_names={S}, inputs={sorted(I)}, scoped={bool(scoped)}) refused a computable request: {type(e).__name__}: {str(e)[:150]}"]
            got = {s: res[pre + s].output for s in S if pre + s in res}
            for s in S:
                if pre + s not in res:
                    bad.append(f"map result lacks {s}")
    finally:
        progs.set_log(None)
    for s, v in got.items():
        if v != want[s]:
            bad.append(f"value of {s}: got {v!r} want {want[s]!r}")
    ran = {n for n, _ in log}
    if case["entry"] != "subpipeline" and ran != calls_expected:
        bad.append(f"invoked {sorted(ran)} but exactly {sorted(calls_expected)} lie on a path to {S} not cut off by {sorted(cut)}")
    if case["entry"] != "subpipeline" and len(log) != len(ran):
        bad.append("a function was invoked more than once")
    return bad


def _reject_cases(tier, rng):
    for _ in range(300 if tier == "quick" else 3000):
        # (with defaults: an argument may have a default only in a function that the request does not need - it is then
        #  a required input of the request all the same)
        d = dag.gen_dag(rng, rng.randint(1, 4), allow_defaults=rng.random() < 0.5)
        outs = dag.all_outputs(d)
        S = [rng.choice(outs)]
        roots, mandatory = required_inputs(d, S, set())
        if not mandatory:
            continue
        missing = rng.choice(sorted(mandatory))
        yield {"dag": d, "S": S, "missing": missing, "entry": rng.choice(("subpipeline", "map-output_names"))}
        if not any(f.get("defaults") for f in d["funcs"]):
            # the missing argument has a default, but only in a function that the request does not need: still missing
            d2 = {**d, "funcs": d["funcs"] + [{"name": "fx", "params": [missing], "outputs": ["zz_extra"],
                                               "defaults": {missing: f"D_{missing}"}}]}
            yield {"dag": d2, "S": S, "missing": missing, "entry": rng.choice(("subpipeline", "map-output_names"))}


def _check_reject(case):
    d, S, missing = case["dag"], case["S"], case["missing"]
    roots, _ = required_inputs(d, S, set())
    kw = {n: f"v_{n}" for n in roots if n != missing}
    p = dag.build(d)
    log: list = []
    progs.set_log(log)
    try:
        if case["entry"] == "subpipeline":
            p.subpipeline(inputs=set(kw), output_names=set(S))
        else:
            p.map(dict(kw), output_names=set(S), parallel=False, storage="dict")
        return [f"request for {S} without {missing} was not rejected"]
    except Exception as e:  # noqa: BLE001
        if missing not in str(e):
            return [f"rejection does not name what is missing ({missing}): {type(e).__name__}: {str(e)[:150]}"]
        if log:
            return ["user functions ran before the rejection"]
        return []
    finally:
        progs.set_log(None)


def _nt(case):
    return bool(case.get("cut")) or len(case["dag"]["funcs"]) >= 2


# ---- the same for pipelines with MapSpecs: an intermediate *array* is supplied --------------------------------------------
def _map_cut_cases(tier, rng):
    n = 150 if tier == "quick" else 1500
    q = 0
    tries = 0
    while q < n and tries < 50 * n:
        tries += 1
        prog = progs.gen_map_program(rng, n_funcs=rng.randint(2, 3), allow_generator=False, allow_none=False)
        produced = {o: f for f in prog["funcs"] for o in f["outputs"]}
        consumed = [o for o in produced if any(o in g["params"] for g in prog["funcs"]) and produced[o].get("spec")]
        if not consumed:
            continue
        cut = rng.choice(consumed)
        q += 1
        yield {"prog": prog, "cut": cut, "entry": rng.choice(("map-output_names", "map-auto_subpipeline", "subpipeline")),
               "default": rng.choice((None, "longer", "shorter")), "seed": rng.randrange(10**6)}


def _obj_array(nested):
    import numpy as np
    shape = progs._shape_of(nested)
    arr = np.empty(shape, dtype=object)
    import itertools
    for idx in itertools.product(*[range(d) for d in shape]):
        arr[idx] = progs._get(nested, idx)
    return arr


def _check_map_cut(case):
    import copy
    prog = copy.deepcopy(case["prog"])
    cut = case["cut"]
    want, calls = progs.denote(prog)
    funcs = prog["funcs"]
    produced = {o: f for f in funcs for o in f["outputs"]}
    # outputs strictly downstream of the cut, and the functions needed for them once `cut` is supplied
    down = set()
    changed = True
    while changed:
        changed = False
        for f in funcs:
            if any(p == cut or p in down for p in f["params"]) and not set(f["outputs"]) <= down:
                down |= set(f["outputs"])
                changed = True
    down -= set(produced[cut]["outputs"])
    if not down:
        return []
    S = sorted(down)
    needed, todo, roots = set(), list(S), set()
    while todo:
        o = todo.pop()
        if o == cut:
            continue
        if o in produced:
            f = produced[o]
            if f["name"] in needed:
                continue
            needed.add(f["name"])
            todo += [p for p in f["params"] if p not in f.get("bound", {})]
        else:
            roots.add(o)
    if any(o in produced[cut]["outputs"] and o != cut for f in funcs if f["name"] in needed for o in f["params"]):
        return []  # a sibling output of the cut function is needed too: the cut does not cut its producer off
    if isinstance(want[cut], list) and progs._shape_of(want[cut]) == ():
        return []
    # an array default for the supplied intermediate on one of its consumers, of another length than the supplied array
    if case["default"] and isinstance(want[cut], list) and len(progs._shape_of(want[cut])) == 1:
        k = len(want[cut]) + (1 if case["default"] == "longer" else -1)
        if k >= 1:
            for f in funcs:
                if cut in f["params"] and f["name"] in needed:
                    f.setdefault("defaults", {})[cut] = [f"dflt{j}" for j in range(k)]
    p = progs.build_pipeline(prog)
    inputs = {n: v for n, v in progs.real_inputs(prog).items() if n in roots}
    inputs[cut] = _obj_array(want[cut]) if isinstance(want[cut], list) else want[cut]
    mk = progs.map_kwargs(prog)
    if "internal_shapes" in mk:
        keep = {o: v for o, v in mk["internal_shapes"].items() if produced[o]["name"] in needed}
        mk = {"internal_shapes": keep} if keep else {}
    log: list = []
    progs.set_log(log)
    bad = []
    try:
        try:
            if case["entry"] == "subpipeline":
                sp = p.subpipeline(inputs=set(inputs), output_names=set(S))
                res = sp.map(inputs, parallel=False, storage="dict", **mk)
            else:
                extra = {"auto_subpipeline": True} if case["entry"] == "map-auto_subpipeline" else {}
                res = p.map(inputs, output_names=set(S), parallel=False, storage="dict", **mk, **extra)
        except Exception as e:  # noqa: BLE001
            return [f"{case['entry']}(outputs={S}, supplied={cut}) refused a computable request: {type(e).__name__}: {str(e)[:160]}"]
    finally:
        progs.set_log(None)
    for o in S:
        if o not in res:
            bad.append(f"result lacks {o}")
            continue
        got = progs.to_nested(res[o].output)
        if got != want[o]:
            bad.append(f"{o} with {cut} supplied: got {str(got)[:140]} want {str(want[o])[:140]}")
    ran = {fn for fn, _ in log}
    if ran != needed:
        bad.append(f"functions invoked {sorted(ran)}, exactly {sorted(needed)} lie between the supplied array and {S}")
    expected_calls = sorted(c for c in calls if c[0] in needed)
    if not bad and sorted(log) != expected_calls:
        bad.append(f"{len(log)} calls, the reference makes {len(expected_calls)} for these functions")
    return bad[:5]


def bounded_checks():
    return [
        ("select-outputs", Check("select-outputs", _cases, _check, RULE, nontrivial=_nt, shards=10)),
        ("select-outputs-reject", Check("select-outputs-reject", _reject_cases, _check_reject,
                                        "a request whose mandatory root argument is missing is rejected with an error "
                                        "naming it, before any user call", nontrivial=_nt, shards=2)),
        ("select-outputs-map", Check("select-outputs-map", _map_cut_cases, _check_map_cut,
                                     "map programs x a supplied intermediate array (optionally with an array default of "
                                     "another length on a consumer) x {map(output_names), auto_subpipeline, subpipeline}: "
                                     "values of the reference denotation, exactly the functions below the cut run",
                                     describe=lambda c: {"program": progs.describe(c["prog"]), "cut": c["cut"],
                                                         "entry": c["entry"], "default": c["default"]},
                                     key=lambda c: repr((progs.describe(c["prog"]), c["cut"], c["entry"], c["default"])),
                                     shards=4)),
    ]
