"""C06 - Running a map in pieces (fixed_indices, learners) equals running it whole."""
from __future__ import annotations

import os
import random
import shutil
import tempfile

from rtc import progs
from vf.bounded import Check

ID = "C06"
LEVEL = "exploration"
LEVEL_TEXT = ("Bounded history contract on the real Pipeline.map / create_learners: for generated programs and every "
              "index name, either the axis is reduced somewhere (then fixing it must be rejected before any user call) "
              "or the axis is partitioned into ints and slices (incl. negative steps) and one "
              "map(fixed_indices=part, cleanup=False) is run per part in a random order: every part computes precisely "
              "the newly selected elements, the final stored data equal the reference denotation and a final full run "
              "computes nothing; the same for the learners of create_learners (with and without "
              "split_independent_axes) driven in random order within each generation. Proved part (pyvc): "
              "_existing_and_missing_indices - a piece's work list is exactly the increasing list of *selected* "
              "(fixed-mask) indices with some output absent, for all arrays and masks - and "
              "_is_parameter_reduced_by_function (when a function takes an array whole), "
              "_is_parameter_partially_reduced_by_function and _get_partially_reduced_axes (the named axes at the "
              "positions a function takes through ':' - these may not be fixed), _split_sequence_learner (element-scope "
              "functions get one learner per *selected flat index*; the SequenceLearner constructor is assumed); "
              "building the mask "
              "(_mask_fixed_axes: numpy fancy indexing) and the adaptive learners are outside the proof rung, so the "
              "property itself is decided on the bounded rung: 'exploration'.")
LEVEL_TEXT += (" Also proved: _reduced_axes (41 obligations; nested loops over a set and a list with a defaultdict(set) accumulator): an array of the pipeline's MapSpecs has an entry iff some function takes it whole or partially, and the entry holds exactly the axes those functions reduce - all named axes for a function that takes it whole, the axes at its ':' positions for a partial reduction.")
LEVEL_NOTE = ("Bounds: programs of 1..3 functions, rank<=2, axis sizes 1..3, storage file_array / dict. Trusted: "
              "reference denotation (incl. the reference notion of a reduced axis, from the statement), adaptive 1.5.")
TECHNIQUE = ("bounded history-contract checking of partial runs against the reference denotation; work-list function "
             "_existing_and_missing_indices, the reduced-axes helpers and _split_sequence_learner discharged by z3")
EXPLANATION = LEVEL_TEXT
RULE = ("program x axis x random partition (ints / slices with steps +-1, +-2) x random order; plus invalid requests "
        "(reduced axis, unknown axis, out of range); distinct = distinct (program, axis, partition, order); "
        "non-trivial = the axis has size >= 2")
TRUSTED_BASE = ["reference denotation rtc/progs.py", "adaptive.runner.simple"]
ASSUMPTIONS = ["user functions deterministic"]


def registry():
    from contracts import mapspec, misc
    from contracts import adaptive
    allc = misc.ALL + mapspec.ALL + adaptive.ALL
    return {**{c.short: c for c in allc}, **{c.name: c for c in allc}}


def proof_items():
    from contracts import adaptive, misc
    from vf.driver import ProofItem
    # which elements a piece computes: exactly the selected (fixed-mask) indices that are not stored yet
    return [ProofItem(misc.existing_and_missing, gen=misc.em_gen, call=misc.em_call),
            # when a function takes an array whole, all its axes are reduced (and may not be fixed)
            ProofItem(misc.is_parameter_reduced, gen=misc.ipr_gen),
            # ... or it takes some of its axes whole through ':' - those axes (by name) are the reduced ones
            ProofItem(misc.is_parameter_partially_reduced, gen=misc.ipr_gen),
            ProofItem(misc.get_partially_reduced_axes, gen=misc.pra_gen),
            # ... collected over the pipeline: per array exactly the axes that some function reduces
            ProofItem(misc.reduced_axes, gen=misc.ra_gen,
                      registry=lambda: {**{c.short: c for c in misc.REDUCED}, **{c.name: c for c in misc.REDUCED}}),
            # element-scope functions: one learner per *selected* flat index (not per position)
            ProofItem(adaptive.split_sequence_learner, gen=adaptive.gen, call=adaptive.call)]


# ---- reference notions ------------------------------------------------------------------------------------------
def array_axes(prog):
    """name -> canonical axis names (None where never named), collected from all specs."""
    ax: dict = {}
    for f in prog["funcs"]:
        if not f.get("spec"):
            continue
        for n, axes in f["spec"]["inputs"] + f["spec"]["outputs"]:
            cur = ax.setdefault(n, [None] * len(axes))
            for i, a in enumerate(axes):
                if a is not None:
                    cur[i] = a
    return ax


def reduced_axes(prog):
    """Index names that are reduced somewhere: an array carrying the axis is consumed whole (no MapSpec / unlisted)
    or with ':' at that position."""
    ax = array_axes(prog)
    red = set()
    for f in prog["funcs"]:
        listed = dict(f["spec"]["inputs"]) if f.get("spec") else {}
        for p in f["params"]:
            if p not in ax:
                continue
            if p not in listed:
                red |= {a for a in ax[p] if a is not None}
            else:
                for canon, used in zip(ax[p], listed[p]):
                    if used is None and canon is not None:
                        red.add(canon)
    return red


def all_axes(prog):
    return {a for axes in array_axes(prog).values() for a in axes if a is not None}


def unnamed_somewhere(prog):
    return any(a is None for axes in array_axes(prog).values() for a in axes)


def random_partition(rng, n):
    """Partition range(n) into parts given as ints / slices (possibly negative steps / negative ints)."""
    idx = list(range(n))
    parts = []
    style = rng.random()
    if style < 0.3:  # all ints (some negative)
        parts = [(i if rng.random() < 0.6 else i - n) for i in idx]
    elif style < 0.6 and n >= 2:  # evens / odds by step 2
        parts = [slice(0, None, 2), slice(1, None, 2)] if rng.random() < 0.5 else [slice(None, None, -2), slice(n - 2, None, -2)]
    else:
        cut = rng.randint(0, n)
        parts = [slice(0, cut), slice(cut, None)] if rng.random() < 0.5 else [slice(None, cut), slice(n - 1, cut - 1 if cut > 0 else None, -1)]
    rng.shuffle(parts)
    return parts


def selected(part, n):
    return {range(n)[part]} if isinstance(part, int) else set(range(n)[part])


def _cases(tier, rng):
    n = 1500 if tier == "quick" else 15000
    q = 0
    while q < n:
        prog = progs.gen_map_program(rng, n_funcs=rng.randint(1, 3), allow_generator=False, allow_internal=(q % 3 == 0))
        # only axes of the independent (input-driven) index space: an axis supplied by a function's returned array
        # ("internal" axis) is not part of the space the statement partitions
        root = set(prog["inputs"])
        axes = sorted({a for n, ax_ in array_axes(prog).items() if n in root for a in ax_ if a is not None})
        if not axes:
            continue
        q += 1
        ax = rng.choice(axes)
        yield {"prog": prog, "axis": ax, "seed": rng.randrange(10**6), "storage": rng.choice(("file_array", "dict")),
               "mode": rng.choice(("fixed", "fixed", "learners", "learners-split", "learners-fixed")),
               # functions whose resources are evaluated per element get one learner per element
               "element_scope": rng.random() < 0.4,
               "stop_after": rng.choice((None, None, "first", "last")),
               # an observer of the run (progress tracking) must not change what a piece computes
               "show_progress": rng.random() < 0.25}


_SHOW_PROGRESS = [False]  # set per case by _check


def _run_part(p, prog, folder, storage, fixed, first, via_learners=False, rng=None):
    log: list = []
    progs.set_log(log)
    try:
        if via_learners:
            # the same piece through the learners of create_learners(fixed_indices=...), generation by generation
            from adaptive import runner
            from pipefunc.map.adaptive import create_learners
            ld = create_learners(p, progs.real_inputs(prog), folder, storage=storage, fixed_indices=fixed,
                                 cleanup=first, **progs.map_kwargs(prog))
            for gens in ld.values():
                for gen in gens:
                    batch = list(gen)
                    if rng is not None:
                        rng.shuffle(batch)
                    for lp in batch:
                        runner.simple(lp.learner)
            res = None
        else:
            res = p.map(progs.real_inputs(prog), run_folder=folder, parallel=False, storage=storage,
                        fixed_indices=fixed, cleanup=first, show_progress=_SHOW_PROGRESS[0], **progs.map_kwargs(prog))
    finally:
        progs.set_log(None)
    return res, log


def _check(case):
    prog, ax, storage = case["prog"], case["axis"], case["storage"]
    _SHOW_PROGRESS[0] = bool(case.get("show_progress"))
    rng = random.Random(case["seed"])
    want, calls = progs.denote(prog)
    call_idx = list(progs.CALL_INDEX)
    size = prog["sizes"][ax]
    red = reduced_axes(prog)
    base = tempfile.mkdtemp(prefix="vf_c06_")
    folder = os.path.join(base, "run")
    bad = []
    try:
        p = progs.build_pipeline(prog)
        if case.get("element_scope") and case["mode"].startswith("learners"):
            for f in p.functions:
                if f.mapspec is not None and rng.random() < 0.7:
                    f.resources_scope = "element"
        via = case["mode"] == "learners-fixed"
        if via:
            storage = "file_array"
        if case["mode"].startswith("learners") and not via:
            return _check_learners(case, p, prog, folder, want, calls, rng)
        # ---- invalid requests are rejected before any user call ----
        for what, fixed in (("unknown-axis", {"no_such_axis": 0}), ("out-of-range", {ax: size + 3})):
            try:
                _, log = _run_part(p, prog, folder, storage, fixed, True)
                bad.append(f"{what}-accepted")
            except (ValueError, IndexError, KeyError):
                pass
        if ax in red:
            try:
                _, log = _run_part(p, prog, folder, storage, {ax: 0}, True)
                bad.append(f"reduced-axis-{ax}-accepted")
            except ValueError:
                pass
            return bad
        if unnamed_somewhere(prog):
            return bad  # arrays with never-named axes: fixed_indices is not exercised further (stated bound)
        # ---- partition the axis ----
        parts = random_partition(rng, size)
        if case.get("stop_after") is not None and len(parts) > 1 and not via:
            # only the first piece(s), then the run is completed by one full call: its *returned* arrays are the whole's
            parts = parts[-1:] if case["stop_after"] == "last" else parts[:1]
            try:
                _run_part(p, prog, folder, storage, {ax: parts[0]}, True)
                res, log = _run_part(p, prog, folder, storage, None, False)
            except Exception as e:  # noqa: BLE001
                return bad + [f"piece {parts[0]!r} then the full run raised {type(e).__name__}: {str(e)[:150]}"]
            for f in prog["funcs"]:
                for o in f["outputs"]:
                    got = progs.to_nested(res[o].output)
                    if got != want[o]:
                        bad.append(f"after the piece {parts[0]!r} the completing full run returns {o} = {str(got)[:140]}, "
                                   f"the whole is {str(want[o])[:140]}")
            return bad
        done: set = set()
        seen_calls: list = []
        for n_, part in enumerate(parts):
            sel = selected(part, size)
            try:
                res, log = _run_part(p, prog, folder, storage, {ax: part}, n_ == 0, via_learners=via, rng=rng)
            except Exception as e:  # noqa: BLE001
                bad.append(f"part {part!r}{' (learners)' if via else ''} raised {type(e).__name__}: {str(e)[:150]}")
                return bad
            expect = []
            for fname, tag, where in call_idx:
                if ax in where:
                    if where[ax] in sel and where[ax] not in done:
                        expect.append((fname, tag))
                elif (fname, tag) not in seen_calls:
                    expect.append((fname, tag))
            if sorted(log) != sorted(expect):
                bad.append(f"part {part!r}: calls {len(log)} but precisely {len(expect)} elements are newly selected: "
                           f"extra {sorted(set(log) - set(expect))[:2]} missing {sorted(set(expect) - set(log))[:2]}")
            seen_calls += log
            done |= sel
        if done != set(range(size)):
            return bad
        # stored data equal the single full run's; a final full run computes nothing
        try:
            res, log = _run_part(p, prog, folder, storage, None, False)
        except Exception as e:  # noqa: BLE001
            bad.append(f"final-full-run raised {type(e).__name__}: {str(e)[:150]}")
            return bad
        if log:
            bad.append(f"final-full-run recomputed {len(log)} elements: {log[:2]}")
        for f in prog["funcs"]:
            for o in f["outputs"]:
                got = progs.to_nested(res[o].output)
                if got != want[o]:
                    bad.append(f"pieces-differ-from-whole:{o}: got {str(got)[:150]} want {str(want[o])[:150]}")
        return bad
    finally:
        shutil.rmtree(base, ignore_errors=True)


def _check_learners(case, p, prog, folder, want, calls, rng):
    from adaptive import runner
    from pipefunc.map.adaptive import create_learners
    from pipefunc.map import load_outputs
    bad = []
    split = case["mode"] == "learners-split"
    log: list = []
    progs.set_log(log)
    try:
        try:
            ld = create_learners(p, progs.real_inputs(prog), folder, storage="file_array",
                                 split_independent_axes=split, **progs.map_kwargs(prog))
        except Exception as e:  # noqa: BLE001
            return [f"create_learners raised {type(e).__name__}: {str(e)[:150]}"]
        if log:
            bad.append("create_learners invoked user functions")
        # any order of the keys; inside a key generations in order, learners of a generation in random order
        keys = list(ld.keys())
        gens = max(len(v) for v in ld.values())
        for g in range(gens):
            batch = []
            for k in keys:
                if g < len(ld[k]):
                    batch += list(ld[k][g])
            rng.shuffle(batch)
            for lp in batch:
                try:
                    runner.simple(lp.learner)
                except Exception as e:  # noqa: BLE001
                    bad.append(f"learner for {lp.pipefunc.output_name} raised {type(e).__name__}: {str(e)[:150]}")
                    return bad
    finally:
        progs.set_log(None)
    if sorted(log) != sorted(calls):
        bad.append(f"learners: {len(log)} calls vs {len(calls)} expected (split={split})")
    for f in prog["funcs"]:
        for o in f["outputs"]:
            try:
                got = progs.to_nested(load_outputs(o, run_folder=folder))
            except Exception as e:  # noqa: BLE001
                bad.append(f"learners: load_outputs({o}) raised {type(e).__name__}: {str(e)[:100]}")
                continue
            if got != want[o]:
                bad.append(f"learners-differ-from-whole:{o}: got {str(got)[:150]} want {str(want[o])[:150]}")
    # a final full run on that folder recomputes nothing
    log2: list = []
    progs.set_log(log2)
    try:
        p.map(progs.real_inputs(prog), run_folder=folder, parallel=False, storage="file_array", cleanup=False,
              **progs.map_kwargs(prog))
    except Exception as e:  # noqa: BLE001
        bad.append(f"final-full-run after learners raised {type(e).__name__}: {str(e)[:150]}")
    finally:
        progs.set_log(None)
    if log2:
        bad.append(f"final-full-run after learners recomputed {len(log2)} elements")
    return bad


def _describe(case):
    return {"program": progs.describe(case["prog"]), "axis": case["axis"], "seed": case["seed"],
            "storage": case["storage"], "mode": case["mode"], "sizes": case["prog"]["sizes"],
            "element_scope": bool(case.get("element_scope"))}


def bounded_checks():
    return [("pieces-equal-whole", Check("pieces-equal-whole", _cases, _check, RULE, describe=_describe,
                                         key=lambda c: repr(_describe(c)), shards=14,
                                         nontrivial=lambda c: c["prog"]["sizes"][c["axis"]] >= 2,
                                         time_budget_s=lambda t: 100 if t == "quick" else 1200))]
