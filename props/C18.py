"""C18 - Lazy pipelines evaluate to the eager result, at most once per node."""
from __future__ import annotations

import networkx as nx

from rtc import dag, progs
from vf.bounded import Check

ID = "C18"
LEVEL = "exploration"
LEVEL_TEXT = ("Bounded contract on the real lazy pipeline: for generated DAGs (diamonds, tuple-output nodes, shared "
              "parameters), every output, with and without an active construct_dag(): nothing is invoked before "
              "evaluate(); evaluate() equals the reference (= eager) value; every needed function is invoked exactly once "
              "however many consumers share it and however often evaluate() is called; the recorded task graph is "
              "acyclic and (contracting output-picker tasks) has an edge for exactly each producer->consumer dependency "
              "of the evaluation. Proved part (pyvc): _LazyFunction.evaluate - an evaluated node returns its stored "
              "value without calling its function, a fresh node calls it exactly once on the evaluated arguments and "
              "stores the value (ghost call counter; the stored callable and evaluate_lazy are assumed contracts). The "
              "pipeline-level statement (sharing across consumers, task graph) lives on global task-graph state and "
              "networkx and is decided on the bounded rung only, hence 'exploration'.")
LEVEL_NOTE = "Bounds: DAGs of 1..4 functions over roots {x,y,z}. Trusted: reference evaluator rtc/dag.py; networkx."
TECHNIQUE = ("contract on _LazyFunction.evaluate discharged by z3 (ghost call counter); pipeline-level lazy evaluation by "
             "bounded contract checking against the reference evaluator")
EXPLANATION = LEVEL_TEXT
RULE = ("random DAG x every output x {plain, construct_dag}; distinct = distinct (DAG, output, mode); non-trivial = the "
        "evaluation needs >=2 functions")
TRUSTED_BASE = ["reference evaluator rtc/dag.py", "networkx", "assumed contracts: evaluate_lazy, the stored callable"]
ASSUMPTIONS = ["user functions deterministic"]


def registry():
    from contracts import lazy, misc, pipeline_call
    allc = lazy.ALL + pipeline_call.ALL + misc.ALL
    return {**{c.short: c for c in allc}, **{c.name: c for c in allc}, **pipeline_call.registry_entries()}


def proof_items():
    from contracts import lazy
    from vf.driver import ProofItem
    from contracts import pipeline_call
    return [ProofItem(lazy.evaluate, gen=lazy.gen),
            # in lazy mode every name of a tuple output gets its (deferred) entry, so that consumers share one node
            ProofItem(pipeline_call.update_all_results, gen=pipeline_call.gen),
            ProofItem(lazy.evaluate_lazy, gen=lazy.el_gen, bounded_only=True,
                      why_bounded="recursion over dynamically typed containers (dict/tuple/list/set of anything)")]


def _diamond():
    """a(x) -> b(a), c(a) -> d(b, c): a node with two consumers, reached along two paths."""
    return {"funcs": [{"name": "fa", "params": ["x"], "outputs": ["a"]}, {"name": "fb", "params": ["a"], "outputs": ["b"]},
                      {"name": "fc", "params": ["a"], "outputs": ["c"]}, {"name": "fd", "params": ["b", "c"], "outputs": ["d"]}]}


def _cases(tier, rng):
    # (directed: part of a diamond is requested first, then its tip - for every kind of pipeline cache)
    for cache in ("simple", "lru", "hybrid", "disk", "disk-nofront"):
        for o1, o2 in (("b", "d"), ("a", "d"), ("c", "d"), ("b", "c")):
            yield {"dag": _diamond(), "output": o1, "second_output": o2, "sequential": True, "with_dag": False, "cache": cache}
    for _ in range(900 if tier == "quick" else 9000):
        d = dag.gen_dag(rng, rng.randint(1, 4))
        outs = dag.all_outputs(d)
        for out in outs:
            yield {"dag": d, "output": out, "with_dag": rng.random() < 0.5}
        if len(outs) >= 2:
            o1, o2 = rng.sample(outs, 2)
            yield {"dag": d, "output": o1, "second_output": o2, "with_dag": True,
                   # the pipeline's own cache (every function cached): none, in-memory, or one that serialises what it
                   # stores; and whether the first request was made before the block was entered
                   "cache": rng.choice((None, None, "simple", "disk")), "first_outside": rng.random() < 0.3}
        if len(outs) >= 2 and rng.random() < 0.5:
            # two requests one after the other on one lazy pipeline that has a cache of its own (no block): within the
            # second evaluation every function is invoked at most once however many consumers share it
            o1, o2 = rng.sample(outs, 2)
            yield {"dag": d, "output": o1, "second_output": o2, "sequential": True, "with_dag": False,
                   "cache": rng.choice(("simple", "lru", "hybrid", "hybrid", "disk"))}  # (disk: with its in-memory front)
        if rng.random() < 0.3:
            # fault: one needed function raises the first time it is invoked; the evaluation is then asked for again
            yield {"dag": d, "output": rng.choice(outs), "with_dag": rng.random() < 0.5, "fail_once": rng.randrange(10**6)}
        if rng.random() < 0.15:
            # history: a construct_dag() block that was left through an exception comes first
            yield {"dag": d, "output": rng.choice(outs), "with_dag": rng.random() < 0.5,
                   "aborted_block_first": rng.choice(("raise-in-block", "missing-input"))}


def _check(case):
    from pipefunc._pipefunc import PipeFunc
    from pipefunc.lazy import _LazyFunction, construct_dag
    d, out = case["dag"], case["output"]
    need = dag.needed_roots(d, out, set())
    # root values of several kinds: a tuple / list / dict handed to a function must arrive as that kind of object
    kinds = {"x": lambda r: f"v_{r}", "y": lambda r: (f"v_{r}", 1), "z": lambda r: [f"v_{r}", 2]}
    kw = {r: kinds.get(r, kinds["x"])(r) for r in need}
    try:
        want, vals, calls = dag.refeval(d, out, kw)
    except dag.NotComputable:
        return []
    bad = []
    from pipefunc.lazy import task_graph
    if case.get("aborted_block_first"):
        # same output names and root inputs, other functions: what is built in the aborted block must not be
        # handed to a later request outside it
        other = dag.build({**d, "funcs": [{**f, "name": f["name"] + "_v"} for f in d["funcs"]]}, lazy=True)
        try:
            with construct_dag():
                if case["aborted_block_first"] == "raise-in-block":
                    other(out, **kw)
                    raise KeyError("user error inside the block")
                other(out)  # (required inputs missing, unless the output needs none)
                raise KeyError("user error inside the block")
        except Exception:  # noqa: BLE001
            pass
    if task_graph() is not None:
        return ["a task graph is installed outside any construct_dag() block"]
    p = dag.build(d, lazy=True)
    log: list = []
    progs.set_log(log)
    tg = None
    try:
        if case["with_dag"]:
            with construct_dag() as tg:
                r = p(out, **kw)
        else:
            r = p(out, **kw)
        if log:
            bad.append(f"functions invoked before evaluate(): {[n for n, _ in log]}")
        if not isinstance(r, _LazyFunction):
            bad.append(f"lazy pipeline returned {type(r).__name__}, not a deferred object")
            return bad
        if case.get("fail_once") is not None and calls:
            class _Once(RuntimeError):
                pass
            victim = sorted(calls)[case["fail_once"] % len(calls)]
            progs.set_fail({"func": victim, "call": 0, "exc": lambda: _Once("injected")})
            try:
                r.evaluate()
                bad.append(f"the failure of {victim} did not surface from evaluate()")
            except _Once:
                pass
            finally:
                progs.set_fail(None)
            n1 = len(log)
            got = r.evaluate()  # asked again: the functions that had not produced a value are invoked now
            if got != want:
                bad.append(f"after {victim} failed once, evaluate() = {got!r}, eager value {want!r}")
            names = [n for n, _ in log[n1:]]
            if len(names) != len(set(names)) or victim not in names:
                bad.append(f"after {victim} failed once, the repeated evaluate() invoked {names}")
            done = [n for n, _ in log[:n1] if n != victim]
            if set(done) & set(names):
                bad.append(f"after {victim} failed once, the repeated evaluate() re-invoked {sorted(set(done) & set(names))}, "
                           "which had produced their values")
            return bad
        got = r.evaluate()
        if got != want:
            bad.append(f"evaluate() = {got!r}, eager value {want!r}")
        names = [n for n, _ in log]
        if sorted(names) != sorted(calls):
            bad.append(f"invoked {names}, needed exactly once each: {sorted(calls)}")
        n0 = len(log)
        again = r.evaluate()
        if again != want or len(log) != n0:
            bad.append("a second evaluate() re-invoked functions or changed the value")
    except Exception as e:  # noqa: BLE001
        bad.append(f"lazy evaluation raised {type(e).__name__}: {str(e)[:150]}")
        return bad
    finally:
        progs.set_log(None)
    if case.get("second_output"):
        return bad + _two_outputs_in_one_dag(case, d)
    if tg is not None:
        g = tg.graph
        if not nx.is_directed_acyclic_graph(g):
            bad.append("task graph has a cycle")
            return bad
        is_func = {i: isinstance(t.func, PipeFunc) for i, t in tg.mapping.items()}
        fname = {i: t.func.__name__ for i, t in tg.mapping.items() if is_func[i]}
        per_name: dict = {}
        for i, nme in fname.items():
            per_name.setdefault(nme, []).append(i)
        dup = {k: v for k, v in per_name.items() if len(v) > 1}
        if dup:
            bad.append(f"several tasks for one function: {sorted(dup)}")
        # contracted function-level edges
        got_edges = set()
        for i in fname:
            stack = list(g.successors(i))
            seen = set()
            while stack:
                j = stack.pop()
                if j in seen:
                    continue
                seen.add(j)
                if is_func.get(j):
                    got_edges.add((fname[i], fname[j]))
                else:
                    stack += list(g.successors(j))
        prod = dag.producers(d)
        want_edges = set()
        for f in d["funcs"]:
            if f["name"] in calls:
                for prm in f["params"]:
                    if prm in prod and prm not in f.get("bound", {}) and prm not in kw:
                        want_edges.add((prod[prm]["name"], f["name"]))
        if got_edges != want_edges:
            bad.append(f"task-graph edges {sorted(got_edges)} != dependencies {sorted(want_edges)}")
        if set(fname.values()) != set(calls):
            bad.append(f"task-graph function tasks {sorted(set(fname.values()))} != needed functions {sorted(set(calls))}")
    return bad


def _two_outputs_in_one_dag(case, d):
    """Two requests inside one construct_dag() block: shared producers are served from the task-graph cache."""
    from pipefunc.lazy import _LazyFunction, construct_dag
    o1, o2 = case["output"], case["second_output"]
    need = dag.needed_roots(d, o1, set()) | dag.needed_roots(d, o2, set())
    kw_all = {r: f"v_{r}" for r in need}
    bad = []
    try:
        w1, _, c1 = dag.refeval(d, o1, {k: v for k, v in kw_all.items() if k in dag.needed_roots(d, o1, set())})
        w2, _, c2 = dag.refeval(d, o2, {k: v for k, v in kw_all.items() if k in dag.needed_roots(d, o2, set())})
    except dag.NotComputable:
        return []
    import shutil
    import tempfile
    tmp = None
    extra = {}
    if case.get("cache") in ("simple", "lru", "hybrid"):
        extra = {"cache_type": case["cache"], "cached": {f["name"] for f in d["funcs"]}}
    elif case.get("cache") in ("disk", "disk-nofront"):
        tmp = tempfile.mkdtemp(prefix="vf_c18_")
        # inside a block every hit is served by the block's own cache, so the pipeline's cache may serialise everything;
        # for requests in a row the disk cache keeps its default in-memory front unless the case says otherwise
        front = bool(case.get("sequential")) and case["cache"] == "disk"
        extra = {"cache_type": "disk", "cached": {f["name"] for f in d["funcs"]},
                 "cache_kwargs": {"cache_dir": tmp, "with_lru_cache": front}}
    p = dag.build(d, lazy=True, **extra)
    log: list = []
    progs.set_log(log)
    kw1 = {k: v for k, v in kw_all.items() if k in dag.needed_roots(d, o1, set())}
    kw2 = {k: v for k, v in kw_all.items() if k in dag.needed_roots(d, o2, set())}
    if case.get("sequential"):
        try:
            import warnings
            with warnings.catch_warnings():
                warnings.simplefilter("ignore")
                g1 = p(o1, **kw1).evaluate()
                del log[:]
                r2 = p(o2, **kw2)
                if log:
                    bad.append("functions invoked before evaluate() (second request on a cached lazy pipeline)")
                g2 = r2.evaluate()
            if g1 != w1 or g2 != w2:
                bad.append(f"two requests in a row ({case['cache']} cache): got ({g1!r}, {g2!r}) want ({w1!r}, {w2!r})")
            names = [n for n, _ in log]
            twice = sorted({n for n in names if names.count(n) > 1})
            if twice:
                what = "disk cache without an in-memory front" if case["cache"] == "disk-nofront" else f"{case['cache']} cache"
                bad.append(f"second request on a lazy pipeline with a {what}: {twice} invoked more than once "
                           f"within one evaluate() (calls: {names})")
        except Exception as e:  # noqa: BLE001
            bad.append(f"two requests in a row on a cached lazy pipeline raised {type(e).__name__}: {str(e)[:150]}")
        finally:
            progs.set_log(None)
            if tmp:
                shutil.rmtree(tmp, ignore_errors=True)
        return bad
    try:
        if case.get("first_outside"):
            r1 = p(o1, **kw1)
            with construct_dag() as tg:
                r2 = p(o2, **kw2)
        else:
            with construct_dag() as tg:
                r1 = p(o1, **kw1)
                r2 = p(o2, **kw2)
        if log:
            bad.append("functions invoked before evaluate() (two requests in one construct_dag block)")
        if not nx.is_directed_acyclic_graph(tg.graph):
            bad.append(f"the recorded task graph has a cycle: edges {sorted(tg.graph.edges)[:6]}")
        g1, g2 = r1.evaluate(), r2.evaluate()
        if g1 != w1 or g2 != w2:
            bad.append(f"two requests in one dag: got ({g1!r}, {g2!r}) want ({w1!r}, {w2!r})")
        if not case.get("first_outside"):
            # inside one block the nodes are shared between the requests (the block's cache): every needed function is
            # invoked exactly once, whatever cache the pipeline itself has
            names = sorted(n for n, _ in log)
            if names != sorted(set(c1) | set(c2)):
                bad.append(f"two requests sharing nodes: invoked {names}, needed exactly once each: {sorted(set(c1) | set(c2))}")
    except Exception as e:  # noqa: BLE001
        bad.append(f"two requests in one construct_dag block raised {type(e).__name__}: {str(e)[:150]}")
    finally:
        progs.set_log(None)
        if tmp:
            shutil.rmtree(tmp, ignore_errors=True)
    return bad


def bounded_checks():
    return [("lazy-equals-eager", Check("lazy-equals-eager", _cases, _check, RULE, shards=8,
                                        nontrivial=lambda c: len(c["dag"]["funcs"]) >= 2))]
