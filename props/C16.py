"""C16 - Type-annotation validation agrees with subtype compatibility."""
from __future__ import annotations

import itertools
import typing
from typing import Annotated, Any, Optional, TypeVar, Union

from vf.bounded import Check

ID = "C16"
LEVEL = "exploration"
LEVEL_TEXT = ("Bounded contract on the real is_type_compatible / Pipeline type validation against a reference subtype "
              "relation written from the statement (covariant generics, union introduction/elimination, Any and missing "
              "annotations, Annotated, Array[T], bounded/constrained TypeVars): all ordered pairs of annotations from a "
              "recursive grammar at depth <=2, algebraic laws (reflexivity, Any, unions), and 2-3 node pipelines wiring "
              "such annotations directly, through element-wise maps and through reductions. The code is `typing` "
              "introspection (get_origin/get_args/isinstance on annotation objects): that introspection has no semantics "
              "in the proof rung (it enters as assumed pure functions and views), so agreement of the whole relation with "
              "subtyping is decided by this bounded exploration ('exploration'); what is discharged deductively are the "
              "rules that combine verdicts, listed next.")
LEVEL_TEXT += (" Proved part (pyvc), relative to the verdict on component types (is_type_compatible as an assumed pure relation): the combination rules of the statement - _all_types_compatible (union into union: every source member is accepted by some target member) and _compare_generic_type_args (unparametrised on either side: compatible; otherwise covariant, argument by argument).")
LEVEL_TEXT += (" Also proved: _handle_union_types (the statement's union rule: both unions -> every source member accepted by some target member; a union source needs all members accepted; a union target needs one; otherwise no verdict), relative to is_type_compatible on the members as an assumed pure relation and typing.get_origin / get_args as assumed pure functions; the union-into-union case goes through the proved contract of _all_types_compatible.")
LEVEL_TEXT += (" And _compare_single_annotated_type (Annotated on one side only: its primary type decides, in the same direction) and _check_identical_or_any (the base case: an unresolvable hint, identical types, Any required, or a missing annotation on either side; type objects are opaque, == on them is equality of the views).")
LEVEL_TEXT += (" And _handle_generic_types (Annotated on both sides -> their own comparison; on one side -> the primary type, direction kept; two generics -> origins must agree, then covariant argument by argument through the proved _compare_generic_type_args; otherwise no verdict).")
LEVEL_TEXT += (" And the top level of is_type_compatible itself (a TypeVar source or the base case accept; otherwise the first rule with a verdict decides - TypeVar target, unions, generics - and without any verdict the answer is no), with the rules as functions of their arguments and a memo required.")
LEVEL_NOTE = ("Bounds: atoms {int,bool,float,str,bytes,NoneType}, constructors list/set/tuple(2)/dict/Union/Optional/"
              "Annotated/Array/TypeVar, depth <=2 exhaustive for pairs (sampled at depth 3 in the thorough tier). Reading "
              "fixed here (from the statement 'every value of type A is acceptable where B is required'): Any as a source "
              "is only accepted by Any / missing annotation / TypeVar; bool is a subclass of int; no numeric tower.")
TECHNIQUE = ("bounded contract checking against a reference subtype relation; the combinators _all_types_compatible and "
             "_compare_generic_type_args discharged by z3 relative to the verdict on component types")
TECHNIQUE += ('; _handle_union_types discharged by z3')
TECHNIQUE += ('; _check_identical_or_any, _compare_single_annotated_type, _handle_generic_types and the top-level dispatch of is_type_compatible discharged by z3')
EXPLANATION = LEVEL_TEXT
RULE = ("all ordered pairs of generated annotations; distinct = distinct (A, B); non-trivial = A or B is not an atom")
TRUSTED_BASE = ["reference subtype relation in props/C16.py", "pyvc/z3 for the two combinators",
                "is_type_compatible on component types (assumed pure relation in the combinator proofs)"]
ASSUMPTIONS = ["annotations are resolved objects (no forward references)"]

NoneT = type(None)
ATOMS = (int, bool, float, str, bytes, NoneT)
TB = TypeVar("TB", bound=int)
TC = TypeVar("TC", int, str)
TU = TypeVar("TU")


def registry():
    from contracts import typing_c
    return {**{c.short: c for c in typing_c.ALL}, **{c.name: c for c in typing_c.ALL}}


def proof_items():
    from contracts import typing_c
    from vf.driver import ProofItem
    return [ProofItem(typing_c.all_types_compatible, gen=typing_c.gen),
            ProofItem(typing_c.compare_generic_type_args, gen=typing_c.gen),
            # the statement's rule for unions: a union source needs all members accepted, a union target needs one
            ProofItem(typing_c.handle_union_types, gen=typing_c.hu_gen,
                      registry=lambda: {**{c.short: c for c in typing_c.UNION}, **{c.name: c for c in typing_c.UNION}}),
            # the base case: an unresolvable hint, identical types, Any required, or no annotation on either side
            ProofItem(typing_c.check_identical_or_any, gen=typing_c.cia_gen, call=typing_c.cia_call,
                      registry=lambda: {**{c.short: c for c in typing_c.IDENT}, **{c.name: c for c in typing_c.IDENT}}),
            # Annotated[T, ...] on one side only: T decides, in the same direction
            ProofItem(typing_c.compare_single_annotated, gen=typing_c.csa_gen,
                      registry=lambda: {**{c.short: c for c in typing_c.SINGLE_ANN}, **{c.name: c for c in typing_c.SINGLE_ANN}}),
            # the dispatcher for Annotated / parametrised generics (where the direction of the comparison must be kept)
            ProofItem(typing_c.handle_generic_types, gen=typing_c.hg_gen, call=typing_c.hg_call,
                      registry=lambda: {**{c.short: c for c in typing_c.GENERIC}, **{c.name: c for c in typing_c.GENERIC}}),
            # the top level: in which order the rules are consulted
            ProofItem(typing_c.is_type_compatible_top, gen=typing_c.top_gen, call=typing_c.hg_call,
                      registry=lambda: {**{c.short: c for c in typing_c.TOP}, **{c.name: c for c in typing_c.TOP}})]


# ---- annotation terms: plain data so that the reference does not depend on typing introspection --------------------
def grammar(depth: int):
    """-> list of (term, annotation object)."""
    from pipefunc.typing import Array
    level = [(("atom", a), a) for a in ATOMS] + [(("any",), Any)]
    allv = list(level)
    for _ in range(depth):
        new = []
        small = allv[:9]
        for t, a in small:
            new.append((("list", t), list[a]))
            new.append((("set", t), set[a]))
            new.append((("opt", t), Optional[a])) if t != ("atom", NoneT) and t[0] != "any" else None
            new.append((("annotated", t), Annotated[a, "meta"]))
            new.append((("array", t), Array[a]))
        for (t1, a1), (t2, a2) in itertools.product(small[:6], repeat=2):
            new.append((("tuple", t1, t2), tuple[a1, a2]))
            new.append((("dict", t1, t2), dict[a1, a2]))
            if t1 != t2 and t1[0] != "any" and t2[0] != "any":
                new.append((("union", t1, t2), Union[a1, a2]))
        allv += new
    # unions with three members (a source may have more members than the target that accepts all of them)
    at = {a: (("atom", a), a) for a in ATOMS}
    for x, y, z in ((bool, int, NoneT), (int, str, NoneT), (int, float, str), (bool, int, str)):
        if all(k in at for k in (x, y, z)):
            allv.append((("union", ("union", at[x][0], at[y][0]), at[z][0]), Union[x, y, z]))
    allv += [(("union", ("union", ("list", at[int][0]), ("list", at[str][0])), at[NoneT][0]), Union[list[int], list[str], None]),
             (("opt", ("list", ("any",))), Optional[list[Any]])]
    allv += [(("typevar", "bound-int"), TB), (("typevar", "constr-int-str"), TC), (("typevar", "free"), TU)]
    # de-duplicate by term
    seen, out = set(), []
    for t, a in allv:
        if t not in seen:
            seen.add(t)
            out.append((t, a))
    return out


def members(t):
    """Flatten a (possibly optional/union) term to its member terms."""
    if t[0] == "union":
        return members(t[1]) + members(t[2])
    if t[0] == "opt":
        return members(t[1]) + [("atom", NoneT)]
    return [t]


def ref_compat(a, b) -> bool:
    """Every value of type a is acceptable where b is required (covariant generics)."""
    if a[0] == "typevar":
        return True
    if b[0] == "any":
        return True
    if b[0] == "annotated":  # Annotated[T, ...] as a target accepts what T accepts
        return ref_compat(a, b[1])
    if len(members(a)) > 1:  # a union source needs all members accepted
        return all(ref_compat(x, b) for x in members(a))
    if b[0] == "typevar":
        if b[1] == "free":
            return True
        if b[1] == "bound-int":
            return ref_compat(a, ("atom", int))
        return ref_compat(a, ("atom", int)) or ref_compat(a, ("atom", str))
    ma, mb = members(a), members(b)
    if len(ma) > 1:
        return all(ref_compat(x, b) for x in ma)
    if len(mb) > 1:
        return any(ref_compat(a, y) for y in mb)
    (a,), (b,) = ma, mb
    if a[0] == "any":
        return b[0] == "any"
    if a[0] == "annotated" and b[0] == "annotated":
        return ref_compat(a[1], b[1])
    if a[0] == "annotated":
        return ref_compat(a[1], b)
    if b[0] == "annotated":
        return ref_compat(a, b[1])
    if a[0] == "atom" and b[0] == "atom":
        return a[1] is b[1] or (a[1] is bool and b[1] is int)
    if a[0] == "array" and b[0] == "array":
        return ref_compat(a[1], b[1])
    if a[0] != b[0]:
        return False
    return all(ref_compat(x, y) for x, y in zip(a[1:], b[1:]))


def _pair_cases(tier, rng):
    g = grammar(1)
    g2 = grammar(2) if tier != "quick" else None
    for i in range(len(g)):
        yield {"i": i, "depth": 1}
    if g2:
        for i in rng.sample(range(len(g2)), min(len(g2), 400)):
            yield {"i": i, "depth": 2}


_G: dict = {}


def _check_pairs(case):
    from pipefunc.typing import NoAnnotation, is_type_compatible
    g = _G.setdefault(case["depth"], grammar(case["depth"]))
    ta, a = g[case["i"]]
    bad = []
    if not is_type_compatible(a, a):
        bad.append(f"not reflexive: {ta}")
    if not is_type_compatible(a, Any):
        bad.append(f"{ta} not compatible with Any")
    if not (is_type_compatible(a, NoAnnotation) and is_type_compatible(NoAnnotation, a)):
        bad.append(f"missing annotation not compatible with {ta}")
    for tb, b in g:
        try:
            got = bool(is_type_compatible(a, b))
        except Exception as e:  # noqa: BLE001
            bad.append(f"is_type_compatible({ta}, {tb}) raised {type(e).__name__}")
            continue
        want = ref_compat(ta, tb)
        if got != want and len(bad) < 6:
            bad.append(f"is_type_compatible({_show(ta)}, {_show(tb)}) = {got}, subtype relation says {want}")
    return bad


def _show(t):
    if t[0] == "atom":
        return t[1].__name__
    if len(t) == 1:
        return t[0]
    if t[0] == "typevar":
        return f"TypeVar<{t[1]}>"
    return f"{t[0]}[{', '.join(_show(x) for x in t[1:])}]"


# ---- pipelines -------------------------------------------------------------------------------------------------------
def _pipe_cases(tier, rng):
    g = grammar(1)
    g = [x for x in g if x[0][0] not in ("typevar",)]
    n = 700 if tier == "quick" else 7000
    for _ in range(n):
        (ta, a), (tb, b) = rng.choice(g), rng.choice(g)
        if rng.random() < 0.4 and ta[0] not in ("array", "any"):
            # a pair on which "element" and "array of elements" disagree: the verdict then depends on whether the edge is
            # judged as a reduction (random pairs almost never tell the two apart)
            tb = rng.choice((("array", ta), ta))
        yield {"src": ta, "dst": tb, "wiring": rng.choice(("direct", "elementwise", "reduction", "reduction-mapped-consumer")),
               "validate": rng.random() < 0.85,
               # how the mapped producer gets its axes: from one input, from two zipped inputs, or one axis from each of
               # two inputs (outer product)
               "producer": rng.choice(("single", "single", "zip", "outer")), "same_index": rng.random() < 0.5}
    # one mapped output with two consumers, one through a reduction and one element-wise, in both listing orders:
    # every edge is judged on its own
    for _ in range(n // 3):
        (ta, a), (tb, b), (tc, c) = rng.choice(g), rng.choice(g), rng.choice(g)
        if rng.random() < 0.5:
            tb = ta if ta[0] == "array" else ("array", ta)  # often a compatible reducer
        if rng.random() < 0.5:
            tc = ta
        yield {"src": ta, "dst": tb, "dst2": tc, "wiring": "two-consumers", "order": rng.choice(("reducer-first", "reducer-last")),
               "validate": True}


def _ann(t):
    """The annotation object of a term (any depth)."""
    from pipefunc.typing import Array
    k = t[0]
    if k == "atom":
        return t[1]
    if k == "any":
        return Any
    if k == "typevar":
        return {"bound-int": TB, "constr-int-str": TC, "free": TU}[t[1]]
    sub = [_ann(x) for x in t[1:]]
    if k == "list":
        return list[sub[0]]
    if k == "set":
        return set[sub[0]]
    if k == "opt":
        return Optional[sub[0]]
    if k == "annotated":
        return Annotated[sub[0], "meta"]
    if k == "array":
        return Array[sub[0]]
    if k == "tuple":
        return tuple[sub[0], sub[1]]
    if k == "dict":
        return dict[sub[0], sub[1]]
    if k == "union":
        return Union[sub[0], sub[1]]
    raise ValueError(t)


def _check_pipe(case):
    from pipefunc import Pipeline, pipefunc
    from pipefunc.typing import Array
    a, b = _ann(case["src"]), _ann(case["dst"])
    wiring = case["wiring"]

    if wiring == "two-consumers":
        return _check_two_consumers(case)

    def producer(x):
        return x

    def consumer(y):
        return 1

    # explicit annotation objects (this module uses postponed evaluation, so literal annotations would be strings)
    producer.__annotations__ = {"x": int, "return": a}
    consumer.__annotations__ = {"y": b, "return": int}
    pk = case.get("producer", "single")
    if pk != "single" and wiring != "direct":
        def producer(x, w):  # noqa: F811
            return x
        producer.__annotations__ = {"x": int, "w": int, "return": a}
    pspec, ix = {"single": ("x[i] -> y[i]", "i"), "zip": ("x[i], w[i] -> y[i]", "i"),
                 "outer": ("x[i], w[j] -> y[i, j]", "i, j")}[pk]

    if wiring == "direct":
        f = pipefunc(output_name="y")(producer)
        g = pipefunc(output_name="z")(consumer)
        edge_ok = ref_compat(case["src"], case["dst"])
    elif wiring == "elementwise":
        f = pipefunc(output_name="y", mapspec=pspec)(producer)
        g = pipefunc(output_name="z", mapspec=f"y[{ix}] -> z[{ix}]")(consumer)
        edge_ok = ref_compat(case["src"], case["dst"])
    elif wiring == "reduction-mapped-consumer":  # the consumer maps over another argument and takes y whole
        def consumer2(y, a):
            return 1
        consumer2.__annotations__ = {"y": b, "a": int, "return": int}
        f = pipefunc(output_name="y", mapspec=pspec)(producer)
        # (the other argument's index may bear the name of the axis that is reduced: the edge is judged by the consumer's
        #  spec for y - which has none -, not by the index names the consumer uses elsewhere)
        kx = "i" if case.get("same_index") else "k"
        g = pipefunc(output_name="z", mapspec=f"a[{kx}] -> z[{kx}]")(consumer2)
        src = case["src"] if case["src"][0] == "array" else ("array", case["src"])
        edge_ok = ref_compat(src, case["dst"])
    else:  # reduction: the consumer receives Array[a] (whole, or - for a two-dimensional output - row by row)
        f = pipefunc(output_name="y", mapspec=pspec)(producer)
        g = pipefunc(output_name="z", mapspec="y[i, :] -> z[i]")(consumer) if pk == "outer" and case["src"][0] != "any" \
            and len(repr(case["dst"])) % 2 else pipefunc(output_name="z")(consumer)
        # (an output that is already annotated as an object array is not wrapped again: stated reading)
        src = case["src"] if case["src"][0] == "array" else ("array", case["src"])
        edge_ok = ref_compat(src, case["dst"])
    try:
        Pipeline([f, g], validate_type_annotations=case["validate"])
        accepted = True
    except TypeError:
        accepted = False
    except Exception as e:  # noqa: BLE001
        return [f"construction raised {type(e).__name__}: {str(e)[:120]}"]
    if not case["validate"]:
        return [] if accepted else ["rejected although validate_type_annotations=False"]
    if edge_ok and not accepted:
        return [f"{wiring}: compatible edge {_show(case['src'])} -> {_show(case['dst'])} rejected"]
    if not edge_ok and accepted:
        return [f"{wiring}: incompatible edge {_show(case['src'])} -> {_show(case['dst'])} accepted"]
    return []


def _check_two_consumers(case):
    from pipefunc import Pipeline, pipefunc
    a, b, c = _ann(case["src"]), _ann(case["dst"]), _ann(case["dst2"])

    def producer(x):
        return x

    def reducer(y):
        return 1

    def elementwise(y):
        return 1
    producer.__annotations__ = {"x": int, "return": a}
    reducer.__annotations__ = {"y": b, "return": int}
    elementwise.__annotations__ = {"y": c, "return": int}
    f = pipefunc(output_name="y", mapspec="x[i] -> y[i]")(producer)
    r = pipefunc(output_name="total")(reducer)
    e = pipefunc(output_name="z", mapspec="y[i] -> z[i]")(elementwise)
    src_red = case["src"] if case["src"][0] == "array" else ("array", case["src"])
    ok = ref_compat(src_red, case["dst"]) and ref_compat(case["src"], case["dst2"])
    funcs = [f, r, e] if case["order"] == "reducer-first" else [f, e, r]
    try:
        Pipeline(funcs)
        accepted = True
    except TypeError:
        accepted = False
    except Exception as ex:  # noqa: BLE001
        return [f"construction raised {type(ex).__name__}: {str(ex)[:120]}"]
    what = f"{_show(case['src'])} -> reducer {_show(case['dst'])}, element-wise {_show(case['dst2'])} ({case['order']})"
    if ok and not accepted:
        return [f"two-consumers: all edges compatible but rejected: {what}"]
    if not ok and accepted:
        return [f"two-consumers: an incompatible edge is accepted: {what}"]
    return []


# ---- the same verdict on every way a pipeline comes to have an edge -----------------------------------------------------
def _hist_cases(tier, rng):
    g = [x for x in grammar(1) if x[0][0] not in ("typevar",)]
    for _ in range(60 if tier == "quick" else 600):
        ta = rng.choice(g)[0]
        tb = rng.choice((ta, ("array", ta), rng.choice(g)[0], rng.choice(g)[0]))
        for how in ("add", "add-after-failed-replace", "rename-after-pickle", "rename-after-deepcopy", "replace"):
            yield {"src": ta, "dst": tb, "how": how}
        # annotations written as names (what every annotation is under postponed evaluation): the names meant something
        # else - or nothing yet - when an earlier pipeline was built from the same functions
        yield {"src": ta, "dst": tb, "how": "names-rebound",
               "first": rng.choice((None, (rng.choice(g)[0], rng.choice(g)[0]), (tb, ta)))}


def _check_hist(case):
    """An edge src -> dst that comes into being through add / replace / update_renames - also after an earlier operation
    on the pipeline was refused, and after the pipeline went through pickling or deepcopy - is judged like the same edge
    in a freshly constructed pipeline."""
    import copy
    import cloudpickle
    from pipefunc import Pipeline, pipefunc
    a, b = _ann(case["src"]), _ann(case["dst"])
    ok = ref_compat(case["src"], case["dst"])

    def producer(x):
        return x

    def consumer(y):
        return 1

    def other(w):
        return 1
    producer.__annotations__ = {"x": int, "return": a}
    consumer.__annotations__ = {"y": b, "return": int}
    other.__annotations__ = {"w": b, "return": int}
    how = case["how"]
    if how == "names-rebound":
        producer.__annotations__ = {"x": int, "return": "_VF_NAME_SRC"}
        consumer.__annotations__ = {"y": "_VF_NAME_DST", "return": int}
    f = pipefunc(output_name="y")(producer)
    g = pipefunc(output_name="z")(consumer)
    try:
        if how == "names-rebound":
            import warnings
            gl = producer.__globals__
            gl.pop("_VF_NAME_SRC", None), gl.pop("_VF_NAME_DST", None)
            if case.get("first") is not None:
                gl["_VF_NAME_SRC"], gl["_VF_NAME_DST"] = _ann(case["first"][0]), _ann(case["first"][1])
            try:
                with warnings.catch_warnings():
                    warnings.simplefilter("ignore")
                    Pipeline([f, g])  # the earlier pipeline (its verdict is on what the names meant then)
            except TypeError:
                pass
            gl["_VF_NAME_SRC"], gl["_VF_NAME_DST"] = a, b
            try:
                p = Pipeline([f, g])
            finally:
                gl.pop("_VF_NAME_SRC", None), gl.pop("_VF_NAME_DST", None)
        elif how == "add":
            p = Pipeline([f])
            p.add(g)
        elif how == "add-after-failed-replace":
            p = Pipeline([f])
            for bad_call in (lambda: p.replace(pipefunc(output_name="nope")(other)),       # unknown output name
                             lambda: p.replace(pipefunc(output_name="y")(producer), old=f)):  # not the pipeline's copy
                try:
                    bad_call()
                except (KeyError, ValueError):
                    pass
            p = p if [fn.output_name for fn in p.functions] == ["y"] else Pipeline([f])
            p.add(g)
        elif how in ("rename-after-pickle", "rename-after-deepcopy"):
            h = pipefunc(output_name="z")(other)  # takes w: not connected yet
            p = Pipeline([f, h])
            p = cloudpickle.loads(cloudpickle.dumps(p)) if how == "rename-after-pickle" else copy.deepcopy(p)
            p.update_renames({"w": "y"})  # now h consumes y
        else:  # replace a compatible consumer by this one
            ok_consumer = pipefunc(output_name="z")(lambda y: 1)
            p = Pipeline([f, ok_consumer])
            p.replace(g)
        accepted = True
    except TypeError:
        accepted = False
    except Exception as e:  # noqa: BLE001
        return [f"{how}: raised {type(e).__name__}: {str(e)[:120]}"]
    if ok and not accepted:
        return [f"{how}: compatible edge {_show(case['src'])} -> {_show(case['dst'])} rejected"]
    if not ok and accepted:
        return [f"{how}: incompatible edge {_show(case['src'])} -> {_show(case['dst'])} accepted"]
    return []


def bounded_checks():
    return [
        ("annotation-validation-after-histories", Check("annotation-validation-after-histories", _hist_cases, _check_hist,
                                                        "edge src -> dst created by add / replace / update_renames, after a "
                                                        "refused replace, after pickling or deepcopy", key=repr,
                                                        describe=lambda c: {**c, "src": _show(c["src"]), "dst": _show(c["dst"])})),
        ("is_type_compatible-vs-subtyping", Check("is_type_compatible-vs-subtyping", _pair_cases, _check_pairs, RULE,
                                                  key=repr, shards=4)),
        ("pipeline-annotation-validation", Check("pipeline-annotation-validation", _pipe_cases, _check_pipe,
                                                 "2-node pipelines wiring every pair of annotations directly, "
                                                 "element-wise and through a reduction; validate on/off",
                                                 key=repr, describe=lambda c: {**c, "src": _show(c["src"]), "dst": _show(c["dst"]),
                                                                     **({"dst2": _show(c["dst2"])} if "dst2" in c else {})},
                                                 shards=4)),
    ]
