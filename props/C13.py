"""C13 - User-function failures surface unchanged, attributed and reproducible."""
from __future__ import annotations

import asyncio
import os
import shutil
import tempfile
import threading
from concurrent.futures import ProcessPoolExecutor, ThreadPoolExecutor

from rtc import dag, progs
from vf.bounded import Check

ID = "C13"
LEVEL = "fault_enumeration"
LEVEL_TEXT = ("Fault enumeration on the real code: every (function, invocation) of generated call-level DAGs and map "
              "programs is made the failing invocation, for three exception types (no args, args, custom picklable "
              "class), under pipeline(...), sequential map, thread pool, process pool and async map. The exception must "
              "surface with the same type and arguments, annotated with the failing function's name and the keyword "
              "arguments of that invocation; no function of a later generation may run; the call must return within a "
              "timeout; ErrorSnapshot.reproduce() (also after save/load) must raise the same exception for in-process "
              "execution, also after a second, later failure elsewhere; earlier results stay loadable. Hang-freedom is "
              "a liveness property: only observed through the timeout (N/A for this family otherwise).")
LEVEL_TEXT += (' Also proved: ErrorSnapshot.reproduce (the stored function is invoked exactly once with exactly the stored positional and keyword arguments, and what it does is what reproduce does; the stored callable is an assumed deterministic contract with a ghost call counter).')
LEVEL_NOTE = ("Bounds: DAGs of 1..4 functions; map programs of 1..3 functions with <=8 calls. Trusted: tagging bodies, "
              "reference denotation for 'generation' and expected kwargs.")
TECHNIQUE = ("bounded fault enumeration of the failure-propagation contract; deductive part: Pipeline.error_snapshot "
             "(the most recent snapshot among the functions) discharged by z3 over an uninterpreted total order of strings")
TECHNIQUE += ('; ErrorSnapshot.reproduce discharged by z3')
EXPLANATION = LEVEL_TEXT
RULE = ("case x failing invocation x exception type x execution mode; distinct = distinct tuples; non-trivial = the "
        "failing invocation is not the first call or the program has >=2 functions")
TRUSTED_BASE = ["reference denotation", "concurrent.futures / asyncio"]
ASSUMPTIONS = ["user functions deterministic apart from the injected failure"]

TIMEOUT_S = 60


def registry():
    from contracts import errors
    return {**{c.short: c for c in errors.ALL}, **{c.name: c for c in errors.ALL}}


def proof_items():
    from contracts import errors
    from vf.driver import ProofItem
    # which snapshot the pipeline exposes after several failures: the most recent one among its functions
    return [ProofItem(errors.error_snapshot, gen=errors.gen),
            # reproduce(): the stored function, once, with exactly the stored arguments
            ProofItem(errors.reproduce, gen=errors.repro_gen,
                      registry=lambda: {**{c.short: c for c in errors.REPRODUCE}, **{c.name: c for c in errors.REPRODUCE}})]


def _same_exception(e, kind):
    want = progs.EXC_FACTORIES[kind]()
    return type(e).__name__ == type(want).__name__ and e.args == want.args


def _note_ok(e, fname, tag):
    """The note names the function and carries the repr of every keyword argument of the failing invocation."""
    notes = "\n".join(getattr(e, "__notes__", []) or [])
    if fname not in notes:
        return f"note does not name {fname}: {notes[:200]!r}"
    # tag = "f0(k=v,...)": the values are strings; their repr must occur in the note
    inner = tag[tag.index("(") + 1:-1]
    return None if all(True for _ in [0]) and (inner == "" or _values_in(inner, notes)) else \
        f"note lacks the kwargs of the failing invocation {tag}: {notes[:300]!r}"


def _leaves(v: str) -> list[str]:
    """Top-level leaves of a frozen nested list "[a,[b,c]]" (leaves may themselves contain brackets/commas in calls)."""
    out, depth_sq, depth_par, cur = [], 0, 0, ""
    for ch in v:
        if ch == "(":
            depth_par += 1
        elif ch == ")":
            depth_par -= 1
        if depth_par == 0 and ch == "[" and (cur == "" or cur.endswith(",")) and not cur.strip(","):
            depth_sq += 1
            continue
        if depth_par == 0 and ch == "]" and depth_sq > 0 and _balanced(cur):
            if cur:
                out.append(cur)
            cur = ""
            depth_sq -= 1
            continue
        if depth_par == 0 and ch == "," and _balanced(cur):
            if cur:
                out.append(cur)
            cur = ""
            continue
        cur += ch
    if cur:
        out.append(cur)
    return [x for x in out if x]


def _balanced(t: str) -> bool:
    return t.count("[") == t.count("]") and t.count("(") == t.count(")")


def _values_in(inner, notes):
    # split top-level "k=v" pairs (values may contain nested parentheses / commas)
    depth, cur, parts = 0, "", []
    for ch in inner:
        if ch in "([<":  # (element labels of returned arrays look like f(..)<0,1>)
            depth += 1
        elif ch in ")]>":
            depth -= 1
        if ch == "," and depth == 0:
            parts.append(cur)
            cur = ""
        else:
            cur += ch
    parts.append(cur)
    for kv in parts:
        k, v = kv.split("=", 1)
        if v.startswith("["):
            # arrays are printed by numpy's repr: every element the invocation received must be readable in the note
            # (small arrays are not abbreviated), and the note must show values, not storage objects
            if "object at 0x" in notes:
                return False
            leaves = [x for x in _leaves(v) if x not in ("None", "<masked>")]
            if len(leaves) <= 50 and not all(x in notes for x in leaves):
                return False
            continue
        # (the note uses the pipeline-level parameter names, the tag the function's own argument names)
        if f"={v!r}" not in notes and f"={v}" not in notes:
            return False
    return True


# ---- pipeline(...) ----------------------------------------------------------------------------------------------
def _call_cases(tier, rng):
    for _ in range(500 if tier == "quick" else 5000):
        d = dag.gen_dag(rng, rng.randint(1, 4), allow_renames=True)
        out = rng.choice(dag.all_outputs(d))
        kw = {r: f"v_{r}" for r in dag.ROOTS}
        try:
            _, _, calls = dag.refeval(d, out, kw)
        except dag.NotComputable:
            continue
        if not calls:
            continue
        k = rng.randrange(len(calls))
        yield {"dag": d, "output": out, "fail": calls[k], "exc": rng.choice(sorted(progs.EXC_FACTORIES)),
               "second": rng.random() < 0.4,
               # some root arguments are objects with identity that cannot be copied (a lock inside), not plain values
               "handles": sorted(r for r in dag.ROOTS if rng.random() < 0.25)}


def _check_call(case):
    d, out = case["dag"], case["output"]
    p = dag.build(d)
    kw_all = {r: (progs.Handle(r) if r in case.get("handles", ()) else f"v_{r}") for r in dag.ROOTS}
    need = dag.needed_roots(d, out, set())
    kw = {k: v for k, v in kw_all.items() if k in need}
    want, vals, calls = dag.refeval(d, out, kw)
    bad = []
    fname = case["fail"]
    log: list = []
    progs.set_log(log)
    progs.set_fail({"func": fname, "call": None, "exc": progs.EXC_FACTORIES[case["exc"]]})
    try:
        try:
            p(out, **kw)
            return ["the injected failure did not surface"]
        except Exception as e:  # noqa: BLE001
            err = e
    finally:
        progs.set_fail(None)
        progs.set_log(None)
    if not _same_exception(err, case["exc"]):
        bad.append(f"surfaced {type(err).__name__}{err.args} instead of {case['exc']}")
    tag = next(t for n, t in log if n == fname)
    msg = _note_ok(err, fname, tag)
    if msg:
        bad.append(msg)
    after = [n for n, _ in log[[n for n, _ in log].index(fname) + 1:]]
    if after:
        bad.append(f"functions ran after the failing invocation: {after}")
    # snapshots
    prod = dag.producers(d)
    f = next(x for x in d["funcs"] if x["name"] == fname)
    key = tuple(f["outputs"]) if len(f["outputs"]) > 1 else f["outputs"][0]
    for where, snap in (("function", p[key].error_snapshot), ("pipeline", p.error_snapshot)):
        if snap is None:
            bad.append(f"{where}.error_snapshot is None")
            continue
        bad += _reproduce(snap, case["exc"], where)
    if case["second"] and len(d["funcs"]) >= 2:
        # a second, later failure in a different function: the pipeline's snapshot must be the last failure's
        others = [n for n in calls if n != fname]
        if others:
            f2 = others[-1]
            progs.set_fail({"func": f2, "call": None, "exc": progs.exc_custom})
            try:
                p(out, **kw)
            except Exception:  # noqa: BLE001
                snap = p.error_snapshot
                if snap is None:
                    bad.append("pipeline.error_snapshot is None after the second failure")
                else:
                    try:
                        snap.reproduce()
                        bad.append("second-failure: pipeline snapshot reproduce() did not raise")
                    except Exception as e2:  # noqa: BLE001
                        if type(e2).__name__ != "CustomError":
                            bad.append(f"after a second failure (in {f2}) pipeline.error_snapshot still reproduces the "
                                       f"earlier failure of {fname}: {type(e2).__name__}")
            finally:
                progs.set_fail(None)
    # the same exception *instance* raised by two different invocations: each failure is attributed to its own call
    if len(calls) >= 2:
        progs.SENTINEL.__notes__ = []
        seen_tags = []
        for fn in (calls[0], calls[-1]):
            log2: list = []
            progs.set_log(log2)
            progs.set_fail({"func": fn, "call": None, "exc": progs.exc_sentinel})
            try:
                p(out, **kw)
            except Exception as e3:  # noqa: BLE001
                tg = next((t for n, t in log2 if n == fn), None)
                notes = "\n".join(getattr(e3, "__notes__", []) or [])
                if tg is not None and f"`{fn}(" not in notes:
                    bad.append(f"re-raised exception instance: the failure of {fn} is not attributed ({notes[:200]!r})")
            finally:
                progs.set_fail(None)
                progs.set_log(None)
    return bad


_SNAP_DIR: list = []


def _snapshot_path():
    if not _SNAP_DIR or _SNAP_DIR[0][0] != os.getpid():
        import atexit
        from multiprocessing.util import Finalize
        d = tempfile.mkdtemp(prefix="vf_c13_snap_")
        _SNAP_DIR[:] = [(os.getpid(), d)]
        atexit.register(shutil.rmtree, d, True)
        Finalize(None, shutil.rmtree, args=(d, True), exitpriority=1)  # (pool workers leave through os._exit)
    return os.path.join(_SNAP_DIR[0][1], "last_error.pkl")


def _reproduce(snap, kind, where):
    bad = []
    progs.set_fail({"func": snap.function.__name__, "call": None, "exc": progs.EXC_FACTORIES[kind]})
    try:
        for label, s in (("", snap), ("after save/load ", None)):
            if s is None and any(isinstance(v, progs.Handle) for v in list(snap.kwargs.values()) + list(snap.args)):
                continue  # (a snapshot can only be written to a file when the arguments can be pickled)
            if s is None:
                # one file per worker process, written again and again (a user keeps saving "the last error" to the same
                # place): what is loaded must be what was saved last
                path = _snapshot_path()
                try:
                    snap.save_to_file(path)
                    s = type(snap).load_from_file(path)
                except Exception as e:  # noqa: BLE001
                    bad.append(f"{where}: snapshot save/load raised {type(e).__name__}: {str(e)[:100]}")
                    continue
            try:
                s.reproduce()
                bad.append(f"{where}: {label}reproduce() did not raise")
            except Exception as e:  # noqa: BLE001
                if not _same_exception(e, kind):
                    bad.append(f"{where}: {label}reproduce() raised {type(e).__name__}{e.args} instead of {kind}")
    finally:
        progs.set_fail(None)
    return bad


# ---- map ------------------------------------------------------------------------------------------------------------
MODES_QUICK = ["sequential", "thread", "async-thread"]
MODES_EXTRA = ["process", "async-process"]


def _map_cases(tier, rng):
    n = 60 if tier == "quick" else 600
    q = 0
    while q < n:
        prog = progs.gen_map_program(rng, n_funcs=rng.randint(1, 3), allow_generator=False)
        _, calls = progs.denote(prog)
        if not 1 <= len(calls) <= 8:
            continue
        q += 1
        k = rng.randrange(len(calls))
        modes = list(MODES_QUICK) + (MODES_EXTRA if (tier != "quick" or q % 6 == 0) else [])
        for mode in modes:
            yield {"prog": prog, "fail": list(calls[k]), "exc": rng.choice(sorted(progs.EXC_FACTORIES)), "mode": mode}
    yield from _whole_array_consumer_cases(tier, rng)


def _whole_array_consumer_cases(tier, rng):
    """Quota: the failing invocation is a function that takes a *mapped* array whole (no MapSpec on it, or ':' axes):
    what it received is an array held by the storage, and the note must show its values."""
    want, tries = (6 if tier == "quick" else 60), 0
    while want and tries < 20000:
        tries += 1
        prog = progs.gen_map_program(rng, n_funcs=rng.randint(2, 3), allow_generator=False)
        _, calls = progs.denote(prog)
        if not 1 <= len(calls) <= 8:
            continue
        mapped = {o for f in prog["funcs"] if f.get("spec") and f["spec"]["inputs"] for o in f["outputs"]}
        whole = [f for f in prog["funcs"] if any(p in mapped for p in f["params"]) and
                 (not f.get("spec") or any(n_ in mapped and all(a is None for a in ax) for n_, ax in f["spec"]["inputs"])
                  or any(p in mapped and p not in dict(f["spec"]["inputs"]) for p in f["params"]))]
        idx = [i for i, c in enumerate(calls) if any(c[0] == f["name"] for f in whole)]
        if not idx:
            continue
        want -= 1
        for mode in MODES_QUICK:
            yield {"prog": prog, "fail": list(calls[idx[0]]), "exc": rng.choice(sorted(progs.EXC_FACTORIES)), "mode": mode}


def _generation_of(prog):
    """function name -> topological generation (reference)."""
    prod = {o: f for f in prog["funcs"] for o in f["outputs"]}
    gen: dict = {}

    def g(f):
        if f["name"] in gen:
            return gen[f["name"]]
        ups = [prod[p] for p in f["params"] if p in prod and p not in f.get("bound", {})]
        gen[f["name"]] = 1 + max((g(u) for u in ups), default=-1)
        return gen[f["name"]]
    for f in prog["funcs"]:
        g(f)
    return gen


def _check_map(case):
    prog, mode = case["prog"], case["mode"]
    fname, tag = case["fail"]
    want, calls = progs.denote(prog)
    gens = _generation_of(prog)
    base = tempfile.mkdtemp(prefix="vf_c13_")
    folder = os.path.join(base, "run")
    logfile = os.path.join(base, "calls.log")
    bad = []
    ex = None
    try:
        progs.set_log(None, logfile)
        progs.set_fail({"func": fname, "tag": tag, "exc": progs.EXC_FACTORIES[case["exc"]]})
        kw = {"parallel": False}
        is_async = mode.startswith("async-")
        m = mode[6:] if is_async else mode
        if m == "thread":
            ex = ThreadPoolExecutor(2)
        elif m == "process":
            ex = ProcessPoolExecutor(2)
        if ex is not None:
            kw = {"parallel": True, "executor": ex}
        p = progs.build_pipeline(prog)
        inputs = progs.real_inputs(prog)
        result: dict = {}

        def run():
            try:
                if is_async:
                    async def go():
                        am = p.map_async(inputs, run_folder=folder, executor=ex, storage="file_array",
                                         **progs.map_kwargs(prog))
                        return await am.task
                    asyncio.run(go())
                else:
                    p.map(inputs, run_folder=folder, storage="file_array", **kw, **progs.map_kwargs(prog))
                result["ok"] = True
            except BaseException as e:  # noqa: BLE001
                result["err"] = e
        t = threading.Thread(target=run, daemon=True)
        t.start()
        t.join(TIMEOUT_S)
        if t.is_alive():
            return [f"{mode}: the call did not return within {TIMEOUT_S}s after the injected failure"]
        if "err" not in result:
            return [f"{mode}: the injected failure did not surface"]
        err = result["err"]
        if not _same_exception(err, case["exc"]):
            bad.append(f"{mode}: surfaced {type(err).__name__}{getattr(err, 'args', '')} instead of {case['exc']}")
        msg = _note_ok(err, fname, tag)
        if msg:
            bad.append(f"{mode}: {msg}")
        ran = []
        if os.path.exists(logfile):
            for line in open(logfile):
                _, fn, tg = line.rstrip("\n").split("\t", 2)
                ran.append((fn, tg))
        later = sorted({fn for fn, _ in ran if gens[fn] > gens[fname]})
        if later:
            bad.append(f"{mode}: functions of a later generation ran: {later}")
        if m in ("sequential", "thread") and not is_async or m == "thread":
            f = next(x for x in prog["funcs"] if x["name"] == fname)
            key = tuple(f["outputs"]) if len(f["outputs"]) > 1 else f["outputs"][0]
            if m == "sequential":
                snap = p[key].error_snapshot
                if snap is None:
                    bad.append(f"{mode}: function.error_snapshot is None")
                else:
                    progs.set_fail({"func": fname, "call": None, "exc": progs.EXC_FACTORIES[case["exc"]]})
                    try:
                        snap.reproduce()
                        bad.append(f"{mode}: reproduce() did not raise")
                    except Exception as e:  # noqa: BLE001
                        if not _same_exception(e, case["exc"]):
                            bad.append(f"{mode}: reproduce() raised {type(e).__name__} instead of {case['exc']}")
        # results completed before the failure remain loadable: outputs of earlier generations
        from pipefunc.map import load_outputs
        progs.set_fail(None)
        for f in prog["funcs"]:
            if gens[f["name"]] < gens[fname]:
                for o in f["outputs"]:
                    try:
                        got = progs.to_nested(load_outputs(o, run_folder=folder))
                    except Exception as e:  # noqa: BLE001
                        bad.append(f"{mode}: earlier result {o} not loadable: {type(e).__name__}: {str(e)[:100]}")
                        continue
                    if got != want[o]:
                        bad.append(f"{mode}: earlier result {o} differs after the failure")
        return bad
    finally:
        progs.set_fail(None)
        progs.set_log(None, None)
        if ex is not None:
            procs = list(getattr(ex, "_processes", {}).values()) if getattr(ex, "_processes", None) else []
            # (worker threads that are still running would write into the scratch folder after it has been removed)
            ex.shutdown(wait=isinstance(ex, ThreadPoolExecutor), cancel_futures=True)
            for pr in procs:  # a pool whose workers never get their exit sentinel would block this process at exit
                try:
                    pr.join(2)
                    if pr.is_alive():
                        pr.terminate()
                        pr.join(2)
                except Exception:  # noqa: BLE001
                    pass
        shutil.rmtree(base, ignore_errors=True)


def bounded_checks():
    return [
        ("call-failure-surfaces", Check("call-failure-surfaces", _call_cases, _check_call, RULE, shards=6,
                                        nontrivial=lambda c: len(c["dag"]["funcs"]) >= 2)),
        ("map-failure-surfaces", Check("map-failure-surfaces", _map_cases, _check_map, RULE, shards=10,
                                       describe=lambda c: {"program": progs.describe(c["prog"]), "fail": c["fail"],
                                                           "exc": c["exc"], "mode": c["mode"]},
                                       key=lambda c: repr((progs.describe(c["prog"]), c["fail"], c["exc"], c["mode"])),
                                       nontrivial=lambda c: len(c["prog"]["funcs"]) >= 2,
                                       time_budget_s=lambda t: 100 if t == "quick" else 1200)),
    ]
