"""C03 - Map results and call counts are independent of executor, storage and schedule."""
from __future__ import annotations

import asyncio
import os
import shutil
import tempfile
from concurrent.futures import ProcessPoolExecutor, ThreadPoolExecutor

from rtc import progs
from rtc.executors import ShuffleExecutor
from vf.bounded import Check

ID = "C03"
LEVEL = "other"
LEVEL_TEXT = ("Bounded relational contract on the real Pipeline.map / map_async: for generated programs the results, the "
              "stored data and the per-index call multiset must equal the reference denotation under every sampled "
              "configuration: sequential, ThreadPoolExecutor, ProcessPoolExecutor, per-output executor dicts, storages "
              "dict / file_array / shared_memory_dict and per-output mixes, sync vs async, and environment-model "
              "executors that complete each generation's tasks in reverse and seeded-random order. Real OS "
              "interleavings inside workers are not decided by this family (N/A part). Proved part (pyvc): "
              "_executor_for_func (which executor an output's function is submitted to, incl. the '' default entry) "
              "and _update_array (every output array is dumped exactly once under output_key(external shape, index) "
              "iff force_dump or it is on its side of the executor boundary, all other arrays untouched; "
              "StorageBase.dump is an assumed contract with a ghost dump log). Category 'other' = those contracts + "
              "bounded relational checking; it is not a proof of C03.")
LEVEL_TEXT += (" Also proved: RunInfo.storage_class (which backend an output is stored in: one for all outputs, else the output's own entry, else the default entry ''; ValueError exactly when neither exists).")
LEVEL_TEXT += (" Also bounded: a run in two steps (one fixed_indices piece, then the completing full run on the same folder) "
               "returns, stores and invokes the same under 8 configurations incl. map_async and worker processes; a run into a folder that this process already used for a run on other values.")
LEVEL_TEXT += (" Also proved: _cannot_be_parallelized (prepare_run switches parallel off exactly when no function has a MapSpec and every generation holds one function).")
LEVEL_TEXT += (" Also proved: _maybe_parallel_map (one result per index, in the order of the indices: worker(i) submitted once to the executor that _executor_for_func picks - against that function's own proved contract -, or run on the spot, wrapped with progress bookkeeping iff a status is tracked).")
LEVEL_NOTE = ("Schedules are sampled (reverse/random completion per generation through rtc/executors.ShuffleExecutor, "
              "real pools), not enumerated. Trusted: concurrent.futures / asyncio, the reference denotation.")
TECHNIQUE = ("bounded relational contract checking across executor/storage/schedule configurations; leaf "
             "_executor_for_func and _update_array discharged by z3")
TECHNIQUE += ('; RunInfo.storage_class discharged by z3')
TECHNIQUE += ('; _cannot_be_parallelized discharged by z3')
TECHNIQUE += ('; _maybe_parallel_map discharged by z3')
EXPLANATION = LEVEL_TEXT
RULE = ("programs of rtc.progs.gen_map_program with >=2 mapped elements x configurations listed in the level text; "
        "distinct = distinct (program, configuration); non-trivial = a generation with >=2 tasks")
RULE_PIECES = ("programs of rtc.progs.gen_map_program x one piece (fixed_indices on an input-driven, unreduced axis) then the "
               "completing full run on the same run folder, under 8 configurations (sequential / threads / worker processes / shuffled "
               "completion / async x dict / file_array / shared_memory_dict); distinct = distinct (program, axis, piece)")
TRUSTED_BASE = ["reference denotation rtc/progs.py", "concurrent.futures, asyncio"]
ASSUMPTIONS = ["user functions deterministic", "completion orders are sampled, not enumerated"]

CONFIGS_QUICK = ["thread/file_array", "shuffle-reverse/dict", "shuffle-random/shared_memory_dict", "perout-mix",
                 "async-thread/dict", "async-shuffle-reverse/file_array", "async-shuffle-random/dict"]
CONFIGS_EXTRA = ["process/file_array", "process/shared_memory_dict", "async-process/file_array"]


def registry():
    from contracts import mapspec, misc, run, storage
    allc = misc.ALL + run.ALL + mapspec.ALL + storage.ALL
    return {**{c.short: c for c in allc}, **{c.name: c for c in allc}}


def _exf_gen(rng, tier):
    from types import SimpleNamespace
    for out in ("a", ("a", "b")):
        for ex in [None, {}, {"": "E0"}, {"a": "Ea"}, {("a", "b"): "Eab", "": "E0"}, {"zz": "Ez"}]:
            yield {"func": SimpleNamespace(output_name=out), "executor": ex}


def proof_items():
    from contracts import misc
    from vf.driver import ProofItem
    from contracts import run
    from contracts import small
    sreg = lambda: {**{c.short: c for c in small.STORAGE}, **{c.name: c for c in small.STORAGE}}  # noqa: E731
    return [ProofItem(misc.executor_for_func, gen=_exf_gen),
            # which backend an output is stored in: one for all, else its own entry, else the default entry ""
            ProofItem(small.storage_class, gen=small.sc_gen, registry=sreg),
            # when prepare_run switches `parallel` off on its own: nothing could run side by side
            # every index of a mapped function is processed exactly once, in order: submitted to the executor that applies
            # to the function, or run on the spot (with progress bookkeeping around it when a status is tracked)
            ProofItem(small.maybe_parallel_map, gen=small.pmap_gen, call=small.pmap_call_real,
                      registry=lambda: {**{c.short: c for c in small.PARALLEL_MAP}, **{c.name: c for c in small.PARALLEL_MAP}}),
            ProofItem(small.cannot_be_parallelized, gen=small.cbp_gen,
                      registry=lambda: {**{c.short: c for c in small.PARALLEL}, **{c.name: c for c in small.PARALLEL}}),
            # each element is written once, under the key of its linear index, on exactly one side of the executor
            ProofItem(run.update_array, gen=run.gen)]


def _cases(tier, rng):
    n = 90 if tier == "quick" else 700
    q = 0
    while q < n:
        prog = progs.gen_map_program(rng, n_funcs=rng.randint(1, 3))
        if not any(max(d.get("shape", (1,)), default=1) >= 2 for d in prog["inputs"].values()):
            continue
        cfgs = list(CONFIGS_QUICK)
        if tier != "quick" or q % 15 == 0:
            cfgs += CONFIGS_EXTRA
        for cfg in cfgs:
            yield {"prog": prog, "cfg": cfg, "seed": rng.randrange(10**6)}
        if q % 3 == 0:
            for cfg in ("thread/file_array", "shuffle-reverse/dict", "async-thread/dict", "process/file_array"):
                yield {"prog": prog, "cfg": cfg, "seed": rng.randrange(10**6), "after_other_values": True}
        q += 1
    # a storage assignment that mixes an in-memory backend with file_array and no run folder given (a temporary one is
    # needed as soon as one backend needs files)
    for _ in range(6 if tier == "quick" else 60):
        prog = progs.gen_map_program(rng, n_funcs=rng.randint(1, 3))
        yield {"prog": prog, "cfg": rng.choice(("thread/nofolder-mix", "shuffle-random/nofolder-mix", "async-thread/nofolder-mix")),
               "seed": rng.randrange(10**6)}
    # no run folder and an in-memory backend, with worker processes: the value of a function without a MapSpec exists
    # only in the parent's memory, and a later function reads it from there
    want1, tries = (4 if tier == "quick" else 40), 0
    while want1 and tries < 20000:
        tries += 1
        prog = progs.gen_map_program(rng, n_funcs=rng.randint(2, 3), allow_generator=False)
        whole = {o for f in prog["funcs"] if f.get("spec") is None for o in f["outputs"]}
        if not any(p_ in whole for f in prog["funcs"] for p_ in f["params"]):
            continue
        want1 -= 1
        for cfg in ("process/dict-nofolder", "thread/dict-nofolder", "async-process/dict-nofolder"):
            yield {"prog": prog, "cfg": cfg, "seed": rng.randrange(10**6)}
    # mapped axes of length zero (nothing to compute along them; every backend stores and returns empty arrays)
    want0, tries = (8 if tier == "quick" else 80), 0
    while want0 and tries < 20000:
        tries += 1
        prog = progs.gen_map_program(rng, n_funcs=rng.randint(1, 2), sizes_pool=(0, 2, 3), allow_generator=False,
                                     allow_internal=False)
        if not any(0 in d.get("shape", ()) for d in prog["inputs"].values()) or \
                any(len(d.get("shape", ())) > 1 for d in prog["inputs"].values()):
            continue
        want0 -= 1
        for cfg in ("thread/file_array", "shuffle-reverse/dict", "shuffle-random/shared_memory_dict", "async-thread/file_array"):
            yield {"prog": prog, "cfg": cfg, "seed": rng.randrange(10**6)}
    # None-valued elements that a downstream mapped function reads (a stored None is a value, not a missing element)
    want, tries = (8 if tier == "quick" else 80), 0
    while want and tries < 20000:
        tries += 1
        prog = progs.gen_map_program(rng, n_funcs=rng.randint(2, 3), allow_generator=False)
        nones = {o for f in prog["funcs"] if f.get("none_mod") for o in f["outputs"]}
        if not any(p_ in nones for f in prog["funcs"] if f.get("spec") for p_ in f["params"]):
            continue
        vals, _ = progs.denote(prog)
        if not any(_has_none(vals[o]) for o in nones):
            continue
        want -= 1
        for cfg in CONFIGS_QUICK:
            yield {"prog": prog, "cfg": cfg, "seed": rng.randrange(10**6)}
    # consumers that read blocks (slices over internal and mapped axes) of an output with an interior internal axis
    for rep in range(1 if tier == "quick" else 5):
        for prog in progs.all_internal_consumer_programs(rng):  # every internal-axis position x key pattern
            for cfg in CONFIGS_QUICK:
                yield {"prog": prog, "cfg": cfg, "seed": rng.randrange(10**6)}


def _primed(v):
    import numpy as np
    if isinstance(v, np.ndarray):
        w = np.empty(v.shape, dtype=object)
        for idx in np.ndindex(v.shape):
            w[idx] = f"{v[idx]}'"
        return w
    if isinstance(v, list):
        return [_primed(y) for y in v]
    return f"{v}'"


def _has_none(v):
    return v is None or (isinstance(v, list) and any(_has_none(x) for x in v))


def _mk_executor(kind, seed):
    if kind == "thread":
        return ThreadPoolExecutor(3)
    if kind == "process":
        return ProcessPoolExecutor(2)
    if kind == "shuffle-reverse":
        return ShuffleExecutor("reverse", seed)
    if kind == "shuffle-random":
        return ShuffleExecutor("random", seed)
    raise ValueError(kind)


def _check(case):
    prog, cfg, seed = case["prog"], case["cfg"], case["seed"]
    want, calls = progs.denote(prog)
    is_async = cfg.startswith("async-")
    c = cfg[6:] if is_async else cfg
    folder = tempfile.mkdtemp(prefix="vf_c03_")
    logfile = os.path.join(folder, "_calls.log")
    run_folder = os.path.join(folder, "run")
    exs = []
    try:
        progs.set_log(None, logfile)
        outs = [o for f in prog["funcs"] for o in f["outputs"]]
        if c == "perout-mix":
            e1, e2 = _mk_executor("thread", seed), _mk_executor("shuffle-random", seed)
            exs = [e1, e2]
            executor = {"": e1}
            for f in prog["funcs"][::2]:
                executor[tuple(f["outputs"]) if len(f["outputs"]) > 1 else f["outputs"][0]] = e2
            storage = {"": "file_array"}
            for i, f in enumerate(prog["funcs"]):
                key = tuple(f["outputs"]) if len(f["outputs"]) > 1 else f["outputs"][0]
                storage[key] = ("dict", "shared_memory_dict", "file_array")[i % 3]
        else:
            ek, storage = c.split("/")
            executor = _mk_executor(ek, seed)
            exs = [executor]
            if storage == "dict-nofolder":  # results only ever live in the parent's memory
                storage, run_folder = "dict", None
            if storage == "nofolder-mix":
                storage = {"": "dict"}
                f0 = prog["funcs"][seed % len(prog["funcs"])]
                storage[tuple(f0["outputs"]) if len(f0["outputs"]) > 1 else f0["outputs"][0]] = "file_array"
                run_folder = None
        p = progs.build_pipeline(prog)
        inputs = progs.real_inputs(prog)
        if case.get("after_other_values") and run_folder is not None:
            # history: this process already ran the pipeline into the same folder, on other values of the same shapes
            try:
                p.map({k: _primed(v) for k, v in inputs.items()}, run_folder=run_folder, parallel=not is_async,
                      executor=executor, storage=storage, **progs.map_kwargs(prog))
            except Exception:  # noqa: BLE001
                pass
            if os.path.exists(logfile):
                os.remove(logfile)
        try:
            if is_async:
                async def go():
                    am = p.map_async(inputs, run_folder=run_folder, executor=executor, storage=storage, **progs.map_kwargs(prog))
                    return await am.task
                res = asyncio.run(go())
            else:
                res = p.map(inputs, run_folder=run_folder, parallel=True, executor=executor, storage=storage, **progs.map_kwargs(prog))
        except Exception as e:  # noqa: BLE001
            return [f"raised-{type(e).__name__}: {str(e)[:160]}"]
        bad = []
        from pipefunc.map import load_outputs
        for o in outs:
            got = progs.to_nested(res[o].output)
            if got != want[o]:
                bad.append(f"result-differs:{o}: got {str(got)[:160]} want {str(want[o])[:160]}")
            if run_folder is None:
                continue
            try:
                st = progs.to_nested(load_outputs(o, run_folder=run_folder))
                if st != want[o]:
                    bad.append(f"stored-differs:{o}: got {str(st)[:160]} want {str(want[o])[:160]}")
            except Exception as e:  # noqa: BLE001
                bad.append(f"load_outputs-raised:{o}: {type(e).__name__}: {str(e)[:100]}")
        real_calls = []
        if os.path.exists(logfile):
            for line in open(logfile):
                _, fname, tag = line.rstrip("\n").split("\t", 2)
                real_calls.append((fname, tag))
        if sorted(real_calls) != sorted(calls):
            bad.append(f"call-multiset-differs: {len(real_calls)} real vs {len(calls)} expected")
        return bad
    finally:
        progs.set_log(None, None)
        for e in exs:
            try:
                e.shutdown(wait=True)
            except Exception:  # noqa: BLE001
                pass
        shutil.rmtree(folder, ignore_errors=True)


PIECE_CONFIGS = ["seq/file_array", "seq/dict", "thread/dict", "shuffle-random/shared_memory_dict", "async-thread/dict",
                 "async-shuffle-reverse/file_array", "async-seq/dict", "process/shared_memory_dict"]


def _pieces_cases(tier, rng):
    """A run in two steps - one piece of an axis (fixed_indices), then the completing full run on the same folder -
    under every configuration: what a piece computes and stores is as independent of the configuration as a whole run."""
    from props.C06 import array_axes, random_partition, reduced_axes, unnamed_somewhere
    want, tries = (24 if tier == "quick" else 240), 0
    while want and tries < 20000:
        tries += 1
        prog = progs.gen_map_program(rng, n_funcs=rng.randint(1, 3), allow_generator=False, allow_internal=(tries % 3 == 0))
        if unnamed_somewhere(prog):
            continue
        root = set(prog["inputs"])
        axes = sorted({a for n, ax_ in array_axes(prog).items() if n in root for a in ax_ if a is not None}
                      - reduced_axes(prog))
        axes = [a for a in axes if prog["sizes"][a] >= 2]
        if not axes:
            continue
        ax = rng.choice(axes)
        parts = random_partition(rng, prog["sizes"][ax])
        want -= 1
        yield {"prog": prog, "axis": ax, "part": parts[-1], "seed": rng.randrange(10**6)}


def _run_one(p, prog, cfg, seed, run_folder, **kw):
    is_async = cfg.startswith("async-")
    ek, storage = (cfg[6:] if is_async else cfg).split("/")
    ex = None if ek == "seq" else _mk_executor(ek, seed)
    try:
        more = {"executor": ex} if ex is not None else {}
        if is_async:
            async def go():
                am = p.map_async(progs.real_inputs(prog), run_folder=run_folder, storage=storage, **more, **kw,
                                 **progs.map_kwargs(prog))
                return await am.task
            return asyncio.run(go())
        return p.map(progs.real_inputs(prog), run_folder=run_folder, parallel=ex is not None, storage=storage, **more,
                     **kw, **progs.map_kwargs(prog))
    finally:
        if ex is not None:
            ex.shutdown(wait=True)


def _read_log(logfile):
    out = []
    if os.path.exists(logfile):
        for line in open(logfile):
            _, fname, tag = line.rstrip("\n").split("\t", 2)
            out.append((fname, tag))
    return sorted(out)


def _pieces_check(case):
    from pipefunc.map import load_outputs
    prog, ax, part, seed = case["prog"], case["axis"], case["part"], case["seed"]
    want, calls = progs.denote(prog)
    outs = [o for f in prog["funcs"] for o in f["outputs"]]
    bad, seen = [], {}
    for cfg in PIECE_CONFIGS:
        folder = tempfile.mkdtemp(prefix="vf_c03p_")
        logfile = os.path.join(folder, "_calls.log")
        run_folder = os.path.join(folder, "run")
        try:
            progs.set_log(None, logfile)
            p = progs.build_pipeline(prog)
            try:
                r1 = _run_one(p, prog, cfg, seed, run_folder, fixed_indices={ax: part}, cleanup=True)
                calls1 = _read_log(logfile)
                piece = {o: repr(progs.to_nested(r1[o].output)) for o in outs}
                r2 = _run_one(p, prog, cfg, seed, run_folder, cleanup=False)
            except Exception as e:  # noqa: BLE001
                bad.append(f"{cfg}: piece {ax}={part!r} then the full run raised {type(e).__name__}: {str(e)[:150]}")
                continue
            total = _read_log(logfile)
            for o in outs:
                got = progs.to_nested(r2[o].output)
                if got != want[o]:
                    bad.append(f"{cfg}: after piece {ax}={part!r} the completing run returns {o} = {str(got)[:140]}, want {str(want[o])[:140]}")
                st = progs.to_nested(load_outputs(o, run_folder=run_folder))
                if st != want[o]:
                    bad.append(f"{cfg}: after piece {ax}={part!r} and completion the stored {o} = {str(st)[:140]}, want {str(want[o])[:140]}")
            if total != sorted(calls):
                bad.append(f"{cfg}: piece {ax}={part!r} then completion: {len(total)} calls over the history, one per index is {len(calls)}")
            seen[cfg] = (calls1, piece)
        finally:
            progs.set_log(None, None)
            shutil.rmtree(folder, ignore_errors=True)
    ref = PIECE_CONFIGS[0]
    for cfg, (calls1, piece) in seen.items():
        if ref in seen and cfg != ref:
            if calls1 != seen[ref][0]:
                bad.append(f"the piece {ax}={part!r} invokes {len(calls1)} elements under {cfg} and {len(seen[ref][0])} under {ref}")
            if piece != seen[ref][1]:
                d = [o for o in outs if piece[o] != seen[ref][1][o]][0]
                bad.append(f"the piece {ax}={part!r} returns {d} = {piece[d][:120]} under {cfg} and {seen[ref][1][d][:120]} under {ref}")
    return bad


def _pieces_describe(case):
    return {"program": progs.describe(case["prog"]), "axis": case["axis"], "part": repr(case["part"]), "seed": case["seed"]}


def _describe(case):
    return {"program": progs.describe(case["prog"]), "cfg": case["cfg"], "seed": case["seed"],
            "after_other_values": bool(case.get("after_other_values"))}


def bounded_checks():
    return [("config-independence", Check("config-independence", _cases, _check, RULE, describe=_describe,
                                          key=lambda c: repr(_describe(c)), shards=14,
                                          time_budget_s=lambda t: 100 if t == "quick" else 1200)),
            ("pieces-config-independence", Check("pieces-config-independence", _pieces_cases, _pieces_check, RULE_PIECES,
                                                 describe=_pieces_describe, key=lambda c: repr(_pieces_describe(c)),
                                                 shards=8, time_budget_s=lambda t: 80 if t == "quick" else 900))]
