"""C20 - Resource specifications combine monotonically and without side effects."""
from __future__ import annotations

import copy
import itertools

from contracts import resources as cr
from specs import resources_ref as ref
from vf.bounded import Check
from vf.driver import ProofItem

ID = "C20"
LEVEL = "other"
LEVEL_TEXT = ("Deductive: Resources.__post_init__ ('raises iff' the statement's rejection condition) and "
              "Resources.combine_max (loop invariant: the running maximum dominates every processed operand in cpus, "
              "gpus, memory size and wall-time duration) are discharged from the real source for all inputs. Bounded: "
              "string parsers, with_defaults, update, dict/from_dict, to_slurm_options and operand frames against "
              "the statement over enumerated Resources values. 'other': proved core + bounded rest.")
LEVEL_TEXT += (' Also proved: _delayed_resources_with_defaults (resources given as a callable: the Resources it returns for the keyword arguments, combined with the defaults exactly as in the eager path - with_defaults and the callable are assumed pure functions here).')
LEVEL_NOTE = ("Assumed (checked bounded, not proved): _convert_to_gb = memsize, _wall_time_to_seconds = duration, "
              "_is_valid_memory/_is_valid_wall_time decide validity (regular expressions are outside the proof rung); the "
              "dataclass-generated constructor stores the fields and runs __post_init__; floats as reals. Reading fixed "
              "here: a quantity is 'set' when it is not None; gpus=0 need not be mentioned by to_slurm_options; "
              "extra_args/parallelization_mode are not 'quantities' for with_defaults.")
TECHNIQUE = "contract-based deductive verification (VCs from the ast with loop invariants, z3/cvc5) + bounded contract checking"
EXPLANATION = ("combine_max and __post_init__ proved from the working tree's source; the remaining combinators are "
               "checked on the real class against the statement for all combinations of small field values, memory "
               "strings across units and time strings across formats.")
RULE = ("Resources over cpus/gpus in {None,1,2,8}, nodes/cpus_per_node consistent, memory strings across B..PB incl. "
        "fractional and mixed case, time strings MM:SS/H:MM:SS/HH:MM:SS/D:HH:MM:SS with differing digit counts, "
        "extra_args dicts; operand lists of length 1..4; distinct = distinct value tuples; non-trivial = >=2 operands "
        "or a string-valued field set")
TRUSTED_BASE = ["pyvc encoding of Python semantics", "z3/cvc5", "reference parsers specs/resources_ref.py"]
ASSUMPTIONS = ["floats as reals in memory sizes", "dataclass-generated __init__ stores fields and calls __post_init__"]

MEMS = ("1B", "999KB", "1MB", "0.5GB", "1gb", "2GB", "1024MB", "1.5TB", "0.001PB", "0GB", "10GB", "9GB")
TIMES = ("00:30", "59:59", "1:00:00", "2:00:00", "10:00:00", "09:59:59", "100:00:00", "1:00:00:00", "0:23:59:59",
         "2:00:00:00", "24:00:00")
BAD_MEMS = ("", "GB", "2 GB", "2GiB", "-1GB", "1.GB", ".5GB", "2GB\n", "1e3MB", "2G")
BAD_TIMES = ("", "1", "1:2", "1:2:3", "10:0:00", "aa:bb", "10:00\n", "1:00:00:00:00", "-1:00:00", "1:000:00",
             # other separators than ':' (e.g. the scheduler's own D-HH:MM:SS): not one of the stated formats
             "1-00:00:00", "2-12:30:00", "1-30:00", "1.00:00:00", "1 00:00:00", "00:30:", ":30:00")


def registry():
    return {c.name: c for c in cr.ALL}


def _res_gen(rng, tier):
    from pipefunc.resources import Resources
    for _ in range(400 if tier == "quick" else 4000):
        n = rng.randint(0, 4)
        ops = [_rand_res(rng) for _ in range(n)]
        yield {"resources_list": ops}


def _rand_res(rng):
    from pipefunc.resources import Resources
    kw = {}
    if rng.random() < 0.3:
        kw["nodes"] = rng.choice((1, 2))
        if rng.random() < 0.5:
            kw["cpus_per_node"] = rng.choice((1, 4))
    elif rng.random() < 0.7:
        kw["cpus"] = rng.choice((1, 2, 8))
    if rng.random() < 0.5:
        kw["gpus"] = rng.choice((0, 1, 3))
    if rng.random() < 0.6:
        kw["memory"] = rng.choice(MEMS)
    if rng.random() < 0.6:
        kw["time"] = rng.choice(TIMES)
    if rng.random() < 0.3:
        kw["partition"] = rng.choice(("p1", "p2"))
    if rng.random() < 0.4:
        # (also keys that are spelled like the flags generated from the quantities)
        kw["extra_args"] = {k: rng.choice(("v1", "v2")) for k in rng.sample(("qos", "acct", "x", "gres", "mem", "time",
                                                                              "cpus-per-task", "partition"), rng.randint(1, 2))}
    return Resources(**kw)


def _self_gen(rng, tier):
    import types
    fields = list(cr.FIELDS)
    vals = {"cpus": (None, -1, 0, 1, 4), "cpus_per_node": (None, 0, 2), "nodes": (None, -1, 0, 1),
            "memory": (None,) + MEMS[:4] + BAD_MEMS[:4], "gpus": (None, -1, 0, 2),
            "time": (None,) + TIMES[:3] + BAD_TIMES[:4], "partition": (None, "p"), "extra_args": ({},),
            "parallelization_mode": ("external",)}
    for _ in range(3000 if tier == "quick" else 30000):
        yield {"self": types.SimpleNamespace(**{f: rng.choice(vals[f]) for f in fields},
                                             _is_valid_memory=_ivm, _is_valid_wall_time=_ivt)}


def _ivm(m):
    from pipefunc.resources import Resources
    return Resources._is_valid_memory(m)


def _ivt(t):
    from pipefunc.resources import Resources
    return Resources._is_valid_wall_time(t)


def _str_gen(name, good, bad):
    def gen(rng, tier):
        for s in good + bad:
            yield {name: s}
    return gen


def proof_items():
    return [
        ProofItem(cr.post_init, gen=_self_gen),
        ProofItem(cr.combine_max, gen=_res_gen),
        ProofItem(cr.is_valid_memory, gen=_str_gen("memory", MEMS, BAD_MEMS), bounded_only=True,
                  why_bounded="regular expression"),
        ProofItem(cr.is_valid_wall_time, gen=_str_gen("time", TIMES, BAD_TIMES), bounded_only=True,
                  why_bounded="regular expression"),
        ProofItem(cr.convert_to_gb, gen=_str_gen("memory", MEMS, BAD_MEMS), bounded_only=True,
                  why_bounded="regular expression + float()"),
        ProofItem(cr.wall_time_to_seconds, gen=_str_gen("time", TIMES, ()), bounded_only=True,
                  why_bounded="str.split / int()"),
        # resources given as a callable: combined with the defaults exactly as in the eager path
        ProofItem(cr.delayed_with_defaults, gen=cr.delayed_gen, call=cr.delayed_call,
                  registry=lambda: {**{c.short: c for c in cr.DELAYED}, **{c.name: c for c in cr.DELAYED}}),
    ]


# ---------------------------------------------------------------------------------------------------------
def _snapshot(r):
    return copy.deepcopy(r.__dict__)


QUANT = ("cpus", "cpus_per_node", "nodes", "memory", "gpus", "time", "partition")


def _comb_cases(tier, rng):
    for _ in range(1500 if tier == "quick" else 15000):
        yield {"ops": [_rand_res(rng) for _ in range(rng.randint(1, 4))], "kind": "combine_max"}
    for _ in range(800 if tier == "quick" else 8000):
        yield {"ops": [_rand_res(rng), _rand_res(rng)], "kind": "with_defaults"}
    for _ in range(800 if tier == "quick" else 8000):
        upd = {}
        if rng.random() < 0.5:
            upd["cpus"] = rng.choice((1, 3))
        if rng.random() < 0.5:
            upd["memory"] = rng.choice(MEMS)
        if rng.random() < 0.5:
            upd[rng.choice(("foo", "qos"))] = "u"
        if rng.random() < 0.3:
            upd["extra_args"] = {"acct": "z"}
        yield {"ops": [_rand_res(rng)], "kind": "update", "upd": upd}
    for _ in range(500 if tier == "quick" else 5000):
        yield {"ops": [_rand_res(rng)], "kind": "roundtrip"}


def _check_comb(case):
    from pipefunc.resources import Resources
    ops = case["ops"]
    before = [_snapshot(r) for r in ops]
    bad = []
    kind = case["kind"]
    try:
        if kind == "combine_max":
            res = Resources.combine_max(list(ops))
            for r in ops:
                if r.cpus is not None and not (res.cpus is not None and res.cpus >= r.cpus):
                    bad.append(f"combine_max-cpus: {res.cpus} < {r.cpus}")
                if r.gpus is not None and not (res.gpus is not None and res.gpus >= r.gpus):
                    bad.append(f"combine_max-gpus: {res.gpus} < {r.gpus}")
                if r.memory is not None and not (res.memory is not None and ref.memsize(res.memory) >= ref.memsize(r.memory)):
                    bad.append(f"combine_max-memory: {res.memory} smaller than operand {r.memory}")
                if r.time is not None and not (res.time is not None and ref.duration(res.time) >= ref.duration(r.time)):
                    bad.append(f"combine_max-time: {res.time} shorter than operand {r.time}")
            for q in ("cpus", "gpus", "memory", "time"):
                v = getattr(res, q)
                if v is not None and all(getattr(r, q) != v for r in ops):
                    bad.append(f"combine_max-{q}: value {v!r} is not one of the operands'")
            if any(res is r for r in ops) and len(ops) > 0:
                pass  # returning an operand itself is allowed only if it is unchanged (checked below)
        elif kind == "with_defaults":
            recv, dflt = ops
            try:
                res = recv.with_defaults(dflt)
            except ValueError:
                # mutually exclusive combination (e.g. receiver cpus + default nodes): rejection is legitimate
                res = None
            if res is not None:
                for q in QUANT:
                    rv, dv, got = getattr(recv, q), getattr(dflt, q), getattr(res, q)
                    if rv is not None and got != rv:
                        bad.append(f"with_defaults-keeps-{q}: receiver {rv!r} result {got!r}")
                    if rv is None and got != dv:
                        bad.append(f"with_defaults-fills-{q}: default {dv!r} result {got!r}")
            if recv.with_defaults(None) != recv:
                bad.append("with_defaults(None) != self")
            # the same combination when the receiver is only known at run time (resources given as a callable):
            # maybe_with_defaults(callable, defaults) returns a callable whose result obeys the same rule
            from pipefunc.resources import Resources
            delayed = Resources.maybe_with_defaults(lambda kw, _r=copy.deepcopy(recv): _r, dflt)
            try:
                res2 = delayed({}) if callable(delayed) else delayed
            except ValueError:
                res2 = None
            if (res is None) != (res2 is None):
                bad.append(f"with_defaults through a callable {'raised' if res2 is None else 'did not raise'} although the "
                           f"direct combination {'raised' if res is None else 'did not raise'}")
            elif res2 is not None:
                for q in QUANT:
                    rv, dv, got = getattr(recv, q), getattr(dflt, q), getattr(res2, q)
                    if rv is not None and got != rv:
                        bad.append(f"with_defaults-through-a-callable-keeps-{q}: receiver {rv!r} result {got!r}")
                    if rv is None and got != dv:
                        bad.append(f"with_defaults-through-a-callable-fills-{q}: default {dv!r} result {got!r}")
        elif kind == "update":
            (recv,) = ops
            upd = copy.deepcopy(case["upd"])
            try:
                res = recv.update(**copy.deepcopy(upd))
            except ValueError:
                res, upd = None, {}  # mutually exclusive combination: rejection is legitimate
            for k, v in upd.items():
                if k == "extra_args":
                    if not all(res.extra_args.get(kk) == vv for kk, vv in v.items()):
                        bad.append("update-extra_args-not-merged")
                elif k in QUANT:
                    if getattr(res, k) != v:
                        bad.append(f"update-{k}")
                elif res.extra_args.get(k) != v:
                    bad.append(f"update-unknown-key-{k}-not-in-extra_args")
            if res is recv and upd:
                bad.append("update returned the receiver")
        elif kind == "roundtrip":
            (recv,) = ops
            if Resources.from_dict(recv.dict()) != recv:
                bad.append("from_dict(dict()) != r")
            opts = recv.to_slurm_options()
            want = {"cpus": "--cpus-per-task={}", "gpus": "--gres=gpu:{}", "nodes": "--nodes={}",
                    "cpus_per_node": "--cpus-per-node={}", "memory": "--mem={}", "time": "--time={}",
                    "partition": "--partition={}"}
            for q, tmpl in want.items():
                v = getattr(recv, q)
                if v is not None and not (q == "gpus" and v == 0) and tmpl.format(v) not in opts.split(" "):
                    bad.append(f"to_slurm_options-misses-{q}={v!r}: {opts!r}")
            for k, v in recv.extra_args.items():
                if f"--{k}={v}" not in opts.split(" "):
                    bad.append(f"to_slurm_options-misses-extra-{k}")
    except Exception as e:  # noqa: BLE001
        bad.append(f"{kind}-raised-{type(e).__name__}: {str(e)[:100]}")
    for r, b in zip(ops, before):
        if r.__dict__ != b:
            bad.append(f"{kind}-mutated-operand: {b} -> {r.__dict__}")
    return bad


def _ctor_cases(tier, rng):
    vals = {"cpus": (None, -1, 0, 1, 4), "cpus_per_node": (None, -2, 0, 2), "nodes": (None, -1, 0, 1),
            "memory": (None,) + MEMS + BAD_MEMS, "gpus": (None, -1, 0, 2), "time": (None,) + TIMES + BAD_TIMES}
    for _ in range(4000 if tier == "quick" else 40000):
        yield {k: rng.choice(v) for k, v in vals.items()}


def _check_ctor(case):
    from pipefunc.resources import Resources
    kw = {k: v for k, v in case.items() if v is not None}
    pos = lambda v: v is not None and v <= 0  # noqa: E731
    invalid = (pos(case["cpus"]) or (case["gpus"] is not None and case["gpus"] < 0) or pos(case["nodes"])
               or pos(case["cpus_per_node"])
               or (case["memory"] is not None and not ref.valid_mem(case["memory"]))
               or (case["time"] is not None and not ref.valid_time(case["time"]))
               or (bool(case["nodes"]) and bool(case["cpus"])) or (bool(case["cpus_per_node"]) and not case["nodes"]))
    try:
        Resources(**kw)
        ok = True
    except ValueError:
        ok = False
    if ok and invalid:
        return [f"constructor-accepts-invalid: {kw}"]
    if not ok and not invalid:
        return [f"constructor-rejects-valid: {kw}"]
    return []


def _nested_cases(tier, rng):
    for _ in range(60 if tier == "quick" else 600):
        yield {"ops": [_rand_res(rng) for _ in range(rng.randint(2, 3))]}


def _check_nested(case):
    from pipefunc import NestedPipeFunc, PipeFunc
    from pipefunc.resources import Resources
    ops = case["ops"]
    try:
        Resources.combine_max(list(ops))
    except ValueError:
        return []
    funcs = []
    prev = "x"
    for q, r in enumerate(ops):
        ns: dict = {}
        exec(f"def f{q}({prev}):\n    return {prev}\n", ns)  # noqa: S102
        funcs.append(PipeFunc(ns[f"f{q}"], output_name=f"o{q}", resources=r))
        prev = f"o{q}"
    nf = NestedPipeFunc(funcs)
    want = Resources.combine_max(list(ops))
    if nf.resources != want:
        return [f"nested-resources: {nf.resources} != combine_max {want}"]
    return []


def bounded_checks():
    nt = lambda c: len(c.get("ops", [])) >= 2 or any(v is not None for v in c.values())  # noqa: E731
    return [
        ("resources-combinators", Check("resources-combinators", _comb_cases, _check_comb, RULE, nontrivial=nt,
                                        key=lambda c: repr((c["kind"], [r.__dict__ for r in c["ops"]], c.get("upd"))),
                                        describe=lambda c: {"kind": c["kind"], "ops": [repr(r) for r in c["ops"]],
                                                            "upd": c.get("upd")}, shards=4)),
        ("resources-constructor", Check("resources-constructor", _ctor_cases, _check_ctor,
                                        "constructor accepts iff the statement's validity condition holds",
                                        nontrivial=lambda c: any(v is not None for v in c.values()), shards=2)),
        ("nested-resources", Check("nested-resources", _nested_cases, _check_nested,
                                   "NestedPipeFunc.resources == combine_max of the children", nontrivial=nt,
                                   key=lambda c: repr([r.__dict__ for r in c["ops"]]),
                                   describe=lambda c: {"ops": [repr(r) for r in c["ops"]]})),
    ]
