"""C09 - Caching never changes what a pipeline returns."""
from __future__ import annotations

import copy
import os
import random
import shutil
import tempfile

from rtc import dag, progs
from vf.bounded import Check

ID = "C09"
LEVEL = "other"
LEVEL_TEXT = ("Bounded twin contract on the real Pipeline: a cached pipeline (every cache type, every sampled subset of "
              "cached functions) and an uncached twin are driven through the same history of calls (root-only and with "
              "supplied intermediates, with/without full_output), update_defaults / update_bound / replace mutations and "
              "map runs; every call that succeeds uncached must return an equal value cached, and an immediately "
              "repeated root-only call must not re-execute a cached function. The caching path goes through "
              "to_hashable / networkx / cloudpickle and is decided on the bounded rung. Proved part (pyvc): "
              "compute_cache_key (the key is the output name plus the to_hashable image of exactly the root-argument "
              "items, in sorted order; to_hashable is an assumed contract, checked under C15) and "
              "get_result_from_cache (hit iff the key is not None and resident; on a hit the stored value is entered "
              "into the results exactly like a computed one and the call returns at once unless full_output; on a miss "
              "nothing changes; the cache's __contains__/get are assumed, the containers are C14) and, for map runs, "
              "_get_or_set_cache (a hit returns the stored value and runs nothing; a miss runs the function exactly "
              "once - ghost call counter - and leaves its value resident under the key of (output name, keyword "
              "arguments); put/get/contains of the container are assumed contracts). Category 'other' = "
              "those contracts + bounded twin checking; it is not a proof of C09.")
LEVEL_TEXT += (" Also proved: update_cache (what Pipeline._run leaves behind after computing: the result resident under its key in the same container; HybridCache.put takes the computation time, the other containers' put does not - an arity precondition of the assumed put).")
LEVEL_NOTE = ("Bounds: DAGs of 1..4 functions, histories of length <=4 (quick) / <=6, values from 2 variants per "
              "argument, caches simple/lru/hybrid/disk (non-shared in-process). Trusted: reference twin = the same "
              "pipeline without caching.")
TECHNIQUE = ("bounded twin (relational) contract checking over call/mutation histories; leaves compute_cache_key, "
             "get_result_from_cache and _get_or_set_cache discharged by z3")
TECHNIQUE += ('; update_cache discharged by z3')
EXPLANATION = LEVEL_TEXT
RULE = ("random DAG x cache type x cached subset x random history; distinct = distinct (DAG, cache, subset, history); "
        "non-trivial = the history repeats an output with different arguments or contains a mutation")
TRUSTED_BASE = ["the uncached twin as oracle", "tagging bodies"]
ASSUMPTIONS = ["user functions deterministic"]

CACHES = ("simple", "lru", "hybrid", "disk")


def registry():
    from contracts import misc, pipeline_call
    allc = misc.ALL + pipeline_call.ALL
    return {**{c.short: c for c in allc}, **{c.name: c for c in allc}, **pipeline_call.registry_entries()}


def _cck_gen(rng, tier):
    for out in ("c", ("c", "d")):
        for roots in [(), ("a",), ("a", "b"), ("b", "a", "x")]:
            for present in [(), ("a",), ("a", "b"), ("a", "b", "x", "extra")]:
                yield {"output_name": out, "kwargs": {k: f"v_{k}" if k != "b" else [1, 2] for k in present},
                       "root_args": roots}


def proof_items():
    from contracts import misc
    from vf.driver import ProofItem
    from contracts import map_run, pipeline_call
    from contracts import small
    return [ProofItem(misc.compute_cache_key, gen=_cck_gen),
            # what Pipeline._run leaves behind after computing: the result resident under its key
            ProofItem(small.update_cache, gen=small.uc_gen,
                      registry=lambda: {**{c.short: c for c in small.CACHE_UPDATE}, **{c.name: c for c in small.CACHE_UPDATE}}),
            # a resident entry is used instead of executing: entered like a computed result, marked as "from cache"
            ProofItem(pipeline_call.get_result_from_cache, gen=pipeline_call.grc_gen),
            # the cache of a map run: a hit returns the stored value and runs nothing; a miss runs the function exactly
            # once and leaves its value resident under (output name, key of the keyword arguments)
            ProofItem(map_run.get_or_set_cache, gen=map_run.gsc_gen,
                      registry=lambda: {**{c.short: c for c in map_run.ALL}, **{c.name: c for c in map_run.ALL}})]


def _history(rng, d, length):
    outs = dag.all_outputs(d)
    prod = dag.producers(d)
    hist = []
    for _ in range(length):
        r = rng.random()
        if r < 0.72:
            o = rng.choice(outs)
            # a cut: some intermediates supplied
            supplied = set()
            if rng.random() < 0.4:
                anc = [n for n in outs if n != o and rng.random() < 0.35]
                supplied = set(anc)
            need = dag.needed_roots(d, o, supplied)
            kw = {}
            for n in need:
                variant = rng.choice((0, 0, 1))
                kw[n] = (f"v{variant}_{n}" if n in dag.ROOTS else f"SUP{variant}_{n}")
                if n in dag.ROOTS and rng.random() < 0.25:
                    kw[n] = {"__array__": variant}  # an array and its transposed view (same buffer, different value)
            # sometimes leave a defaulted root to its default
            dflt = dag.shared_defaults(d)
            for n in list(kw):
                if n in dflt and rng.random() < 0.4:
                    del kw[n]
            hist.append({"op": "call", "output": o, "kwargs": kw, "full_output": rng.random() < 0.25})
        elif r < 0.82:
            dflt = dag.shared_defaults(d)
            if dflt:
                n = rng.choice(sorted(dflt))
                hist.append({"op": "update_defaults", "name": n, "value": f"D{rng.randint(1, 2)}_{n}"})
        elif r < 0.92:
            cands = [(f["name"], p) for f in d["funcs"] for p in f["params"] if p in f.get("bound", {})]
            if cands:
                fn, p = rng.choice(cands)
                hist.append({"op": "update_bound", "func": fn, "name": p, "value": f"B{rng.randint(1, 2)}_{p}"})
        else:
            f = rng.choice(d["funcs"])
            hist.append({"op": "replace", "func": f["name"]})
    return hist


def _diamond_bound():
    """a(x, z: bound) -> b(a), c(a) -> d(b, c): a bound value on an ancestor that is reached along two paths."""
    return {"funcs": [{"name": "fa", "params": ["x", "z"], "outputs": ["a"], "bound": {"z": "B0_z"}},
                      {"name": "fb", "params": ["a"], "outputs": ["b"]}, {"name": "fc", "params": ["a"], "outputs": ["c"]},
                      {"name": "fd", "params": ["b", "c"], "outputs": ["d"]}]}


def _cases(tier, rng):
    # (directed: the tip of a diamond, or one side of it, is requested first; the bound value of the shared ancestor is
    # changed; the requests are repeated in either order - for every cache type and several choices of cached functions)
    call = lambda o: {"op": "call", "output": o, "kwargs": {"x": "v0_x"}, "full_output": False}  # noqa: E731
    upd = {"op": "update_bound", "func": "fa", "name": "z", "value": "B1_z"}
    for ci, cache in enumerate(CACHES):
        for cached in (["fc"], ["fb", "fc"], ["fa", "fb", "fc", "fd"], ["fd"], ["fb"]):
            for hist in ([call("d"), upd, call("d"), call("c")], [call("c"), call("d"), upd, call("c"), call("d")],
                         [call("d"), upd, call("b"), call("d")], [call("b"), upd, call("d"), call("a")]):
                yield {"dag": _diamond_bound(), "cache": cache, "cached": cached, "seed": ci, "history": hist}
    n = 4000 if tier == "quick" else 40000
    for q in range(n):
        d = dag.gen_dag(rng, rng.randint(1, 4))
        names = [f["name"] for f in d["funcs"]]
        cached = [x for x in names if rng.random() < 0.6] or [rng.choice(names)]
        yield {"dag": d, "cache": CACHES[q % 4], "cached": cached, "seed": q // 4,
               "history": _history(rng, d, rng.randint(2, 4 if tier == "quick" else 6))}


def _apply_mutation(p, d, op, version):
    if op["op"] == "update_defaults":
        p.update_defaults({op["name"]: op["value"]})
    elif op["op"] == "update_bound":
        f = next(f for f in d["funcs"] if f["name"] == op["func"])
        key = tuple(f["outputs"]) if len(f["outputs"]) > 1 else f["outputs"][0]
        p[key].update_bound({op["name"]: op["value"]})
    elif op["op"] == "replace":
        # replace a function by a variant that computes a different (tagged) value
        from pipefunc import PipeFunc
        f = next(f for f in d["funcs"] if f["name"] == op["func"])
        f2 = dict(f, name=f"{f['name']}v{version}")
        key = tuple(f["outputs"]) if len(f["outputs"]) > 1 else f["outputs"][0]
        old = p[key]
        new = PipeFunc(dag.make_callable(f2), output_name=old.output_name, renames=dict(old.renames),
                       defaults=dict(old.defaults) if old.defaults else None, bound=dict(old._bound) or None,
                       cache=old.cache)
        p.replace(new)


def _materialise(kw):
    import numpy as np
    out = {}
    for k, v in kw.items():
        if isinstance(v, dict) and "__array__" in v:
            a = np.arange(9).reshape(3, 3)
            v = a if v["__array__"] == 0 else a.T
        out[k] = v
    return out


def _check(case):
    d, ctype, cached, hist = case["dag"], case["cache"], set(case["cached"]), case["history"]
    hist = [dict(op, kwargs=_materialise(op["kwargs"])) if op["op"] == "call" else op for op in hist]
    tmp = tempfile.mkdtemp(prefix="vf_c09_") if ctype == "disk" else None
    kw = {"cache_kwargs": {"cache_dir": tmp, "lru_shared": False,
                           **({"lru_cache_size": 1} if case.get("seed", 0) % 2 else {})}} if ctype == "disk" else \
        ({"cache_kwargs": {"shared": False}} if ctype in ("lru", "hybrid") else {})
    bad = []
    try:
        try:
            pc = dag.build(d, cache_type=ctype, cached=cached, **kw)
            pu = dag.build(d, cache_type=None, cached=set())
        except Exception as e:  # noqa: BLE001
            return [f"construction-raised-{type(e).__name__}: {str(e)[:100]}"]
        for n, op in enumerate(hist):
            if op["op"] != "call":
                try:
                    _apply_mutation(pu, d, op, n)
                except Exception:  # noqa: BLE001
                    continue  # the mutation is not applicable (rejected uncached): skip it on both
                try:
                    _apply_mutation(pc, d, op, n)
                except Exception as e:  # noqa: BLE001
                    bad.append(f"op{n} {op['op']}: accepted uncached, raised with caching: {type(e).__name__}")
                continue
            progs.set_log(None)
            try:
                want = pu.run(op["output"], full_output=op["full_output"], kwargs=dict(op["kwargs"]))
            except Exception:  # noqa: BLE001
                continue  # only calls that succeed without caching are constrained
            log: list = []
            progs.set_log(log)
            try:
                got = pc.run(op["output"], full_output=op["full_output"], kwargs=dict(op["kwargs"]))
            except Exception as e:  # noqa: BLE001
                bad.append(f"op{n} call {op['output']}: succeeds uncached, raises cached: {type(e).__name__}: {str(e)[:100]}")
                continue
            finally:
                progs.set_log(None)
            if op["full_output"]:
                diff = {k: (progs.fz(got.get(k)), progs.fz(v)) for k, v in want.items() if progs.fz(got.get(k)) != progs.fz(v)}
                if diff:
                    bad.append(f"op{n} call {op['output']} full_output differs: {str(diff)[:300]}")
            elif got != want:
                bad.append(f"op{n} call {op['output']}({op['kwargs']}): cached {got!r} != uncached {want!r}")
            # repeated root-only call: no cached function is re-executed
            try:
                all_roots_given = set(pu.root_args(op["output"])) <= set(op["kwargs"])
            except Exception:  # noqa: BLE001
                all_roots_given = False
            # (an entry can only be resident if the key was computable: every root argument explicitly supplied)
            if not op["full_output"] and all(k in dag.ROOTS for k in op["kwargs"]) and all_roots_given:
                log2: list = []
                progs.set_log(log2)
                try:
                    again = pc.run(op["output"], kwargs=dict(op["kwargs"]))
                finally:
                    progs.set_log(None)
                if again != want:
                    bad.append(f"op{n} repeated call differs: {again!r} != {want!r}")
                redo = [nm for nm, _ in log2 if nm.split("v")[0] in cached and ctype in ("simple", "disk")]
                prod = dag.producers(d)
                top = prod[op["output"]]["name"]
                if top in cached and any(nm.startswith(top) for nm, _ in log2) and ctype in ("simple", "disk", "lru"):
                    bad.append(f"op{n} repeated call re-executed the cached function {top}")
            if len(bad) >= 3:
                break
        return bad
    finally:
        if tmp:
            shutil.rmtree(tmp, ignore_errors=True)


# ---- map path ---------------------------------------------------------------------------------------------------
def _map_cases(tier, rng):
    n = 80 if tier == "quick" else 800
    q = 0
    while q < n:
        prog = progs.gen_map_program(rng, n_funcs=rng.randint(1, 3), allow_generator=False)
        q += 1
        yield {"prog": prog, "cache": CACHES[q % 4], "repeat_values": rng.random() < 0.7, "seed": q // 4}
        if q % 2 == 0:
            # history over run folders: a run into F, the cache emptied, the run resumed on F (cleanup=False: everything
            # is found in F), then a fresh run into another folder G with the cache as the resumed run left it
            yield {"prog": prog, "cache": CACHES[(q // 2) % 4], "seed": q // 4, "folders": True}


def _check_map_folders(case, prog, p, want, ctype):
    from pipefunc.map import load_outputs
    base = tempfile.mkdtemp(prefix="vf_c09f_")
    bad = []
    try:
        F, G = os.path.join(base, "F"), os.path.join(base, "G")
        steps = (("run into F", F, {}), ("resumed run on F after the cache was emptied", F, {"cleanup": False}),
                 ("fresh run into G after the resumed run", G, {}))
        for what, folder, extra in steps:
            if extra:
                p.cache.clear()
            try:
                res = p.map(progs.real_inputs(prog), run_folder=folder, parallel=False, storage="file_array", **extra,
                            **progs.map_kwargs(prog))
            except Exception as e:  # noqa: BLE001
                return bad + [f"{what} with {ctype} cache raised {type(e).__name__}: {str(e)[:120]}"]
            for f in prog["funcs"]:
                for o in f["outputs"]:
                    got = progs.to_nested(res[o].output)
                    if got != want[o]:
                        bad.append(f"{what} with {ctype} cache differs:{o}: got {str(got)[:150]} want {str(want[o])[:150]}")
                    try:
                        st = progs.to_nested(load_outputs(o, run_folder=folder))
                    except Exception as e:  # noqa: BLE001
                        st = f"{type(e).__name__}: {str(e)[:80]}"
                    if st != want[o]:
                        bad.append(f"{what} with {ctype} cache left {o} = {str(st)[:150]} in its folder, the run without "
                                   f"caching leaves {str(want[o])[:150]}")
            if bad:
                return bad
        return bad
    finally:
        shutil.rmtree(base, ignore_errors=True)


def _check_map(case):
    prog = copy.deepcopy(case["prog"])
    want, calls = progs.denote(prog)
    ctype = case["cache"]
    tmp = tempfile.mkdtemp(prefix="vf_c09m_") if ctype == "disk" else None
    kw = {"cache_kwargs": {"cache_dir": tmp, "lru_shared": False,
                           **({"lru_cache_size": 1} if case.get("seed", 0) % 2 else {})}} if ctype == "disk" else \
        ({"cache_kwargs": {"shared": False}} if ctype in ("lru", "hybrid") else {})
    for f in prog["funcs"]:
        f["cache"] = True
    bad = []
    try:
        p = progs.build_pipeline(prog, cache_type=ctype, **kw)
        if case.get("folders"):
            return _check_map_folders(case, prog, p, want, ctype)
        for rep in (1, 2):  # the second run hits the cache
            log: list = []
            progs.set_log(log)
            try:
                res = p.map(progs.real_inputs(prog), parallel=False, storage="dict", **progs.map_kwargs(prog))
            except Exception as e:  # noqa: BLE001
                return [f"map run {rep} with cache raised {type(e).__name__}: {str(e)[:120]}"]
            finally:
                progs.set_log(None)
            # within a run equal argument values are computed once; a repeated run computes nothing (the entries of
            # these small programs all stay resident: fewer distinct calls than any cache's default capacity)
            if rep == 1 and len(log) != len(set(log)) and len(set(calls)) < 100:
                dup = sorted({c for c in log if log.count(c) > 1})[:2]
                bad.append(f"map run 1 with {ctype} cache executed equal calls more than once: {dup}")
            if rep == 2 and log and len(set(calls)) < 100:
                bad.append(f"map run 2 with {ctype} cache re-executed {len(log)} cached calls, e.g. {log[0]}")
            for f in prog["funcs"]:
                for o in f["outputs"]:
                    got = progs.to_nested(res[o].output)
                    if got != want[o]:
                        bad.append(f"map run {rep} with {ctype} cache differs:{o}: got {str(got)[:150]} want {str(want[o])[:150]}")
        return bad
    finally:
        if tmp:
            shutil.rmtree(tmp, ignore_errors=True)


# ---- map runs of a cached function whose arguments include its evaluated resources -------------------------------------
def _res_cases(tier, rng):
    for ctype in CACHES:
        for scope in ("map", "element"):
            for runs in ([[1, 2], [1, 2, 3]], [[1, 2, 3], [1, 2]], [[5], [5, 5]], [[1, 2], [2, 1], [1, 2]]):
                yield {"cache": ctype, "scope": scope, "runs": runs}


def _check_res(case):
    """f(x, res) = (x, res.cpus) with resources computed from the run's inputs (scope 'map': from the whole array;
    'element': from the element): two map runs on one cached pipeline that share element values but differ as a whole
    must each return what the uncached computation returns."""
    from pipefunc import PipeFunc, Pipeline
    from pipefunc.resources import Resources
    ctype, scope = case["cache"], case["scope"]
    tmp = tempfile.mkdtemp(prefix="vf_c09r_") if ctype == "disk" else None
    kw = {"cache_kwargs": {"cache_dir": tmp, "lru_shared": False}} if ctype == "disk" else \
        ({"cache_kwargs": {"shared": False}} if ctype in ("lru", "hybrid") else {})

    def f(x, res):
        return (x, res.cpus)

    def resources(kwargs):
        x = kwargs["x"]
        return Resources(cpus=len(x) if scope == "map" else int(x) + 1)
    bad = []
    try:
        pf = PipeFunc(f, "y", mapspec="x[i] -> y[i]", resources=resources, resources_variable="res",
                      resources_scope=scope, cache=True)
        p = Pipeline([pf], cache_type=ctype, **kw)
        for n, xs in enumerate(case["runs"]):
            try:
                res = p.map({"x": list(xs)}, parallel=False, storage="dict")
            except Exception as e:  # noqa: BLE001
                return [f"map run {n} raised {type(e).__name__}: {str(e)[:120]}"]
            got = [tuple(v) for v in res["y"].output.tolist()]
            want = [(x, len(xs) if scope == "map" else x + 1) for x in xs]
            if got != want:
                bad.append(f"run {n} over x={xs} with {ctype} cache (resources_scope={scope}): y = {got}, uncached: {want}")
        return bad
    finally:
        if tmp:
            shutil.rmtree(tmp, ignore_errors=True)


def _nt(case):
    h = case.get("history")
    if h is None:
        return True
    outs = [o["output"] for o in h if o["op"] == "call"]
    return len(outs) != len(set(outs)) or any(o["op"] != "call" for o in h)


def bounded_checks():
    return [
        ("cached-twin-histories", Check("cached-twin-histories", _cases, _check, RULE, nontrivial=_nt, shards=10)),
        ("cached-map-twin", Check("cached-map-twin", _map_cases, _check_map,
                                  "map runs (twice) with every cache type equal the reference denotation",
                                  describe=lambda c: {"program": progs.describe(c["prog"]), "cache": c["cache"]},
                                  key=lambda c: repr((progs.describe(c["prog"]), c["cache"])), shards=4)),
        ("cached-map-resources-twin", Check("cached-map-resources-twin", _res_cases, _check_res,
                                            "cache type x resources_scope x sequences of map runs sharing element values")),
    ]
