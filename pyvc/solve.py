"""Discharging obligations: goal splitting/skolemisation, z3 then cvc5, counter-model extraction."""
from __future__ import annotations

import os
import subprocess
import tempfile
import time
from dataclasses import dataclass, field
from typing import Any

import z3

from . import spec
from .engine import Obligation
from .types import ModelTooLarge, TOpaque, TTuple, Val, fresh_name


@dataclass
class Result:
    ob: Obligation
    status: str  # proved | refuted | unknown
    backend: str
    seconds: float
    model: dict | None = None  # param name -> python value (best effort)
    reason: str = ""
    sub: int = 0  # index of the split conjunct
    goal_text: str = ""


def split_goal(hyps: list, goal) -> list[tuple[list, Any]]:
    """Skolemise universally quantified goals, split conjunctions, move antecedents to the hypotheses."""
    out: list[tuple[list, Any]] = []

    def rec(h, g):
        g2 = g
        if z3.is_and(g2):
            for c in g2.children():
                rec(h, c)
            return
        if z3.is_implies(g2):
            rec(h + [g2.arg(0)], g2.arg(1))
            return
        if z3.is_quantifier(g2) and g2.is_forall():
            vs = [z3.Const(fresh_name("sk_" + g2.var_name(i)), g2.var_sort(i)) for i in range(g2.num_vars())]
            body = z3.substitute_vars(g2.body(), *reversed(vs))
            rec(h, body)
            return
        if z3.is_not(g2) and z3.is_quantifier(g2.arg(0)) and g2.arg(0).is_exists():
            q = g2.arg(0)
            vs = [z3.Const(fresh_name("sk_" + q.var_name(i)), q.var_sort(i)) for i in range(q.num_vars())]
            rec(h, z3.Not(z3.substitute_vars(q.body(), *reversed(vs))))
            return
        if z3.is_not(g2) and z3.is_or(g2.arg(0)):
            for c in g2.arg(0).children():
                rec(h, z3.Not(c))
            return
        if z3.is_eq(g2) and z3.is_bool(g2.arg(0)) and not z3.is_const(g2.arg(0)) and not z3.is_const(g2.arg(1)) \
                and (z3.is_quantifier(g2.arg(0)) or z3.is_quantifier(g2.arg(1))):
            rec(h + [g2.arg(0)], g2.arg(1))
            rec(h + [g2.arg(1)], g2.arg(0))
            return
        out.append((h, g2))

    rec(list(hyps), goal)
    return out


_BASE = None
RLIMIT_PER_MS = 4000


def base_axioms() -> list:
    return spec.axioms() + spec.lemma_axioms()


def check(hyps: list, goal, timeout_ms: int, use_lemmas: bool = True, seed: int = 0):
    s = z3.Solver()
    # The budget is a z3 resource limit (deterministic: ~4000 units per millisecond on this machine), not wall-clock time:
    # verdicts do not depend on how busy the machine is, and no timer thread is involved - z3's cancel flag is shared by
    # all solvers of a context, and a timer that fires late leaves later, unrelated queries "canceled" for good.  The
    # wall-clock timeout stays as a distant safety net only.
    s.set("rlimit", int(timeout_ms) * RLIMIT_PER_MS)
    s.set("timeout", max(40 * int(timeout_ms), 300000))  # (a verdict must not depend on how busy the machine is)
    s.set("random_seed", seed)
    for a in (base_axioms() if use_lemmas else spec.axioms()):
        s.add(a)
    for a in TOpaque.distinct_axioms():
        s.add(a)
    for a in spec.opaque_axioms():
        s.add(a)
    for h in hyps:
        s.add(h)
    s.add(z3.Not(goal))
    t0 = time.time()
    r = s.check()
    dt = time.time() - t0
    for _ in range(3):
        # a late timer of an earlier query of this context can cancel this one at once (shared cancel flag): ask again
        if not (r == z3.unknown and s.reason_unknown() == "canceled" and dt < min(0.25, timeout_ms / 4000)):
            break
        t1 = time.time()
        r = s.check()
        dt = time.time() - t1
    return r, s, dt


def _plain_symbols(smt2: str) -> str:
    """cvc5 1.0.3 mis-resolves |quoted| datatype constructors in testers (`(_ is |noneOpt<Seq<Int>>|)`): replace every
    quoted symbol by a plain one (injective on the names this engine produces)."""
    import re

    def san(m):
        return "q_" + re.sub(r"[^A-Za-z0-9_!.]", lambda c: f"_{ord(c.group(0)):x}_", m.group(1))
    # (z3 also prints the prime of post-state names like self'!7 unquoted, which is not a simple symbol)
    return re.sub(r"\|([^|]*)\|", san, smt2).replace("'", "_prime_")


def cvc5_check(smt2: str, timeout_s: int) -> str:
    smt2 = _plain_symbols(smt2)
    with tempfile.NamedTemporaryFile("w", suffix=".smt2", delete=False) as f:
        f.write("(set-logic ALL)\n" + smt2 + "\n(check-sat)\n")
        path = f.name
    try:
        p = subprocess.run(["/usr/bin/cvc5", f"--tlimit={timeout_s * 1000}", path], capture_output=True, text=True,
                           timeout=timeout_s + 5)
        out = p.stdout.strip().splitlines()
        return out[0] if out else "no-answer(timeout)"
    except Exception as e:  # noqa: BLE001
        return f"error:{e}"
    finally:
        os.unlink(path)


def read_model(model: z3.ModelRef, params: dict[str, Val]) -> dict:
    out = {}
    for name, v in params.items():
        try:
            out[name] = v.ty.read(model, v.t)
        except ModelTooLarge as e:
            out[name] = ("<unreadable>", str(e))
        except Exception as e:  # noqa: BLE001
            out[name] = ("<unreadable>", f"{type(e).__name__}: {e}")
    return out


def discharge(ob: Obligation, timeout_ms: int = 30000, try_cvc5: bool = True) -> list[Result]:
    results = []
    for idx, (h, g) in enumerate(split_goal(ob.hyps, ob.goal)):
        # first without the lemma library (its multi-pattern lemmas about cnt/prod cost instantiations that most goals
        # do not need and that make some of them unstable), then with it
        r, s, dt = check(h, g, min(timeout_ms, 500), use_lemmas=False)
        if r == z3.unsat:
            results.append(Result(ob, "proved", "z3", dt, sub=idx))
            continue
        # then with only the most recent quantified hypotheses (the facts established last - callee postconditions,
        # loop hints - are the relevant ones; early quantified facts with inferred triggers mostly cost instantiations).
        # Dropping hypotheses is sound for a proof.
        done = False
        if len(h) > 30:
            qf = [x for x in h if not _contains_quantifier(x)]
            recent = [x for x in h if _contains_quantifier(x)][-24:]
            for lem in (False, True):
                r, s_, dt1 = check(qf + recent, g, min(timeout_ms, 1500), use_lemmas=lem)
                dt += dt1
                if r == z3.unsat:
                    results.append(Result(ob, "proved", "z3(recent-hyps)" + ("+lemmas" if lem else ""), dt, sub=idx))
                    done = True
                    break
        if done:
            continue
        t_main = min(timeout_ms, 6000)  # goals that z3 proves are proved in well under this; cvc5 is asked next
        r, s, dt1 = check(h, g, t_main)
        dt += dt1
        if r == z3.unsat:
            results.append(Result(ob, "proved", "z3+lemmas", dt, sub=idx))
            continue
        gt = g.sexpr()  # (the python pretty-printer is very slow on large terms)
        gt = gt if len(gt) < 600 else gt[:600] + "..."
        if r == z3.sat:
            m = s.model()
            results.append(Result(ob, "refuted", "z3", dt, model=read_model(m, ob.params or {}), sub=idx,
                                  goal_text=gt, reason="sat"))
            continue
        reason = s.reason_unknown()
        if try_cvc5:  # (not in hurry mode)
            t0 = time.time()
            ans = cvc5_check(s.to_smt2().replace("(check-sat)", ""), max(5, min(timeout_ms, 20000) // 1000))
            dt2 = time.time() - t0
            dt += dt2
            if ans == "unsat":
                results.append(Result(ob, "proved", "cvc5", dt, sub=idx, goal_text=gt))
                continue
            reason += f"; cvc5: {ans}"
            for seed in (1, 2):  # other instantiation orders, with what is left of the budget
                r2, s2, dt2 = check(h, g, max(1000, timeout_ms // 3), seed=seed)
                dt += dt2
                if r2 == z3.unsat:
                    break
            if r2 == z3.unsat:
                results.append(Result(ob, "proved", f"z3(seed={seed})", dt, sub=idx))
                continue
        # unknown: try to obtain a candidate model without quantified lemmas (finite model candidates are replayed)
        results.append(Result(ob, "unknown", "z3", dt, sub=idx, goal_text=gt, reason=reason))
    return results


# ---- finite instantiation: candidate counter-models for goals the solver leaves undecided ----------------------------------
def finite_candidate(hyps: list, goal, params: dict, max_len: int = 6, timeout_ms: int = 20000, n_models: int = 8):
    """The VC with every sequence parameter limited to `max_len` elements and every universal quantifier replaced by its
    instances over a finite set of terms (integers -1..max_len+1; for other sorts the ground terms of that sort that
    occur).  The result is quantifier-free, so the solver can produce a model; the instantiated formula is *weaker* than
    the VC, so a model is only a candidate: the caller replays it on the real function and believes nothing else.
    Returns up to `n_models` different parameter assignments."""
    import itertools
    t_end = time.time() + timeout_ms / 1000
    fs = list(spec.axioms()) + list(TOpaque.distinct_axioms()) + list(spec.opaque_axioms()) + list(hyps) + [z3.Not(goal)]
    for v in params.values():
        if hasattr(v.ty, "len") and not isinstance(v.t, list):
            try:
                fs.append(v.ty.len(v.t) <= max_len)
            except Exception:  # noqa: BLE001
                pass
    g = z3.Goal()
    g.add(*fs)
    try:
        nnf = z3.Tactic("nnf")(g)[0]  # negation normal form; existentials become skolem functions
    except z3.Z3Exception:
        return []
    forms = list(nnf)
    ints = [z3.IntVal(i) for i in range(-1, max_len + 2)]

    def ground_terms(sort, pool):
        out, seen = [], set()
        for f in pool:
            stack = [f]
            while stack and len(out) < 12:
                x = stack.pop()
                if x.get_id() in seen:
                    continue
                seen.add(x.get_id())
                if z3.is_quantifier(x):
                    continue
                if z3.is_app(x):
                    if x.sort().eq(sort) and not _has_var(x):
                        out.append(x)
                    stack.extend(x.children())
        return out or [z3.FreshConst(sort, "fi")]

    def inst(f, depth=0):
        if time.time() > t_end:
            raise TimeoutError
        if z3.is_quantifier(f):
            if not f.is_forall() or depth > 3:
                return z3.BoolVal(True)  # (weaker: dropped)
            n = f.num_vars()
            doms = []
            for k in range(n):
                srt = f.var_sort(k)
                doms.append(ints if srt == z3.IntSort() else ground_terms(srt, forms)[:6])
            size = 1
            for d in doms:
                size *= len(d)
            if size > 1200:
                doms = [d[:max(2, int(1200 ** (1 / n)))] for d in doms]
            body = f.body()
            parts = []
            for combo in itertools.product(*doms):
                parts.append(inst(z3.substitute_vars(body, *reversed(combo)), depth + 1))
            return z3.And(*parts) if parts else z3.BoolVal(True)
        if z3.is_app(f) and f.sort() == z3.BoolSort() and f.num_args() and any(_contains_quantifier(c) for c in f.children()):
            return f.decl()(*[inst(c, depth) if c.sort() == z3.BoolSort() else c for c in f.children()])
        return f
    s = z3.Solver()
    s.set("rlimit", max(1000, int((t_end - time.time()) * 1000)) * RLIMIT_PER_MS)
    s.set("timeout", 120000)
    try:
        for f in forms:
            s.add(inst(f))
    except (TimeoutError, z3.Z3Exception):
        return []
    out = []
    for _ in range(n_models):
        if time.time() > t_end or s.check() != z3.sat:
            break
        m = s.model()
        out.append(read_model(m, params))
        # ask for a different assignment of the parameters next
        diff = []
        for v in params.values():
            if isinstance(v.t, list):
                continue
            try:
                diff.append(v.t != m.eval(v.t, model_completion=True))
            except z3.Z3Exception:
                pass
        if not diff:
            break
        s.add(z3.Or(*diff))
    return out


def _has_var(t) -> bool:
    stack, seen = [t], set()
    while stack:
        x = stack.pop()
        if x.get_id() in seen:
            continue
        seen.add(x.get_id())
        if z3.is_var(x):
            return True
        if z3.is_app(x):
            stack.extend(x.children())
    return False


def _contains_quantifier(t) -> bool:
    stack, seen = [t], set()
    while stack:
        x = stack.pop()
        if x.get_id() in seen:
            continue
        seen.add(x.get_id())
        if z3.is_quantifier(x):
            return True
        if z3.is_app(x):
            stack.extend(x.children())
    return False
